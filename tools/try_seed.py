#!/usr/bin/env python3
"""try_seed.py — confirm a seeded change and run the checks against it.

  tools/try_seed.py <dir with patch.diff, meta.json, demo file(s)> [--checks C05,C17] [--skip-confirm]

meta.json needs: property, demo_cmd (shell, run at the worktree root), demo_files: {<path relative to repo root>: <file in dir>}
Steps: scratch worktree of /repo HEAD (shared CARGO_TARGET_DIR) → place demo → demo passes on the clean tree →
apply patch → existing suite passes → demo fails → remove worktree. Then apply the patch to /repo itself, run
./check for each property, undo. Prints a JSON summary and writes <dir>/result.json.
"""
import sys, os, json, subprocess, shutil, time

ROOT = os.path.dirname(os.path.dirname(os.path.abspath(__file__)))
REPO = os.environ.get('VERIF_REPO') or os.path.normpath(os.path.join(ROOT, '..', 'repo'))
UNIVERSE = os.path.basename(os.path.dirname(ROOT)) or 'main'
ENV = dict(os.environ, CARGO_NET_OFFLINE='true', CARGO_TARGET_DIR='/tmp/seedcheck/target-' + UNIVERSE)



def sh(cmd, cwd=None, timeout=3600, env=ENV):
    p = subprocess.run(cmd, cwd=cwd, shell=isinstance(cmd, str), env=env, stdout=subprocess.PIPE,
                       stderr=subprocess.STDOUT, text=True, timeout=timeout)
    return p.returncode, p.stdout


def main():
    d = os.path.abspath(sys.argv[1])
    args = sys.argv[2:]
    checks = None
    skip = '--skip-confirm' in args
    if '--checks' in args:
        checks = args[args.index('--checks') + 1].split(',')
    meta = json.load(open(os.path.join(d, 'meta.json')))
    checks = checks or meta.get('caught_by_candidates') or [meta['property']]
    patch = os.path.join(d, 'patch.diff')
    res = {'dir': d, 'property': meta['property']}
    if skip and os.path.exists(os.path.join(d, 'result.json')):
        old = json.load(open(os.path.join(d, 'result.json')))
        res.update({k: v for k, v in old.items() if k.startswith(('demo_', 'suite_', 'apply_', 'confirmed'))})
    if not skip:
        os.makedirs('/tmp/seedcheck', exist_ok=True)
        wt = f'/tmp/seedcheck/wt-{UNIVERSE}-{os.getpid()}'
        sh(['git', '-C', REPO, 'worktree', 'add', '-q', '--detach', wt, 'HEAD'])
        try:
            rc, out = sh(['git', 'apply', patch], cwd=wt)
            res['apply_rc'] = rc
            if rc != 0:
                res['apply_out'] = out[-600:]
            rc, out = sh('cargo test --workspace --no-fail-fast --offline 2>&1 | grep -E "^test result|FAILED|panicked|error(\\[|:)" | sort | uniq -c | tail -15', cwd=wt)
            res['suite_out'] = out[-1500:]
            res['suite_ok'] = ('FAILED' not in out) and ('error' not in out) and ('test result: ok' in out)
            for rel, src in meta.get('demo_files', {}).items():
                if rel.endswith('::append_to_mod_tests'):
                    # the demo is a #[test] fn appended to the file's trailing `mod tests { … }`
                    f = os.path.join(wt, rel.split('::')[0])
                    body = open(f).read().rstrip('\n')
                    assert body.endswith('}'), 'unexpected end of ' + f
                    open(f, 'w').write(body[:-1] + '\n' + open(os.path.join(d, src)).read() + '\n}\n')
                    res['demo_appended_to'] = rel
                    continue
                dst = os.path.join(wt, rel)
                os.makedirs(os.path.dirname(dst), exist_ok=True)
                shutil.copy(os.path.join(d, src), dst)
            rc, out = sh(meta['demo_cmd'], cwd=wt)
            res['demo_mutant_rc'] = rc
            res['demo_mutant_tail'] = out[-600:]
            sh(['git', 'apply', '-R', patch], cwd=wt)
            rc, out = sh(meta['demo_cmd'], cwd=wt)
            res['demo_clean_rc'] = rc
            res['demo_clean_tail'] = out[-600:]
        finally:
            sh(['git', '-C', REPO, 'worktree', 'remove', '--force', wt])
        res['confirmed'] = res.get('demo_clean_rc') == 0 and res.get('apply_rc') == 0 and res.get('suite_ok') and res.get('demo_mutant_rc') != 0
    # now our checks
    rc, out = sh(['git', '-C', REPO, 'status', '--porcelain', '-uno'])
    if out.strip():
        print('refusing: /repo has uncommitted changes'); return 2
    rc, out = sh(['git', '-C', REPO, 'apply', patch])
    if rc != 0:
        res['repo_apply'] = out[-500:]
    else:
        try:
            res['checks'] = {}
            for c in checks:
                t = time.time()
                rc, out = sh([os.path.join(ROOT, 'check'), c], cwd=ROOT, env=dict(os.environ))
                lines = [l for l in out.splitlines() if l.startswith('VIOLATION') or l.startswith('KNOWN')]
                res['checks'][c] = {'rc': rc, 'lines': lines[:6], 'wall': round(time.time() - t, 1), 'tail': out[-300:]}
        finally:
            sh(['git', '-C', REPO, 'checkout', '--', '.'])
    res['caught_by'] = [c for c, r in res.get('checks', {}).items() if r['rc'] == 1 and r['lines']]
    json.dump(res, open(os.path.join(d, 'result.json'), 'w'), indent=1)
    print(json.dumps(res, indent=1))


if __name__ == '__main__':
    sys.exit(main())
