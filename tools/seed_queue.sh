#!/bin/sh
# background worker: processes lines "<seed-id> <checks>" appended to /tmp/seedqueue.txt, sequentially
touch /tmp/seedqueue.txt /tmp/seedqueue.done
while true; do
  if [ -f /tmp/seedqueue.stop ]; then exit 0; fi
  if pgrep -f "tools/seed_batch.sh" >/dev/null; then sleep 20; continue; fi
  n=$(wc -l < /tmp/seedqueue.done)
  line=$(sed -n "$((n+1))p" /tmp/seedqueue.txt)
  if [ -z "$line" ]; then sleep 15; continue; fi
  set -- $line
  $(dirname $0)/seed_batch.sh "$2" "$1" >> /tmp/seedbatch.log 2>&1
  echo "$line" >> /tmp/seedqueue.done
done
