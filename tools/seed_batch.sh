#!/bin/sh
# usage: tools/seed_batch.sh "<checks>" <seed-id>...   — runs try_seed sequentially, one summary line per seed
checks=$1; shift
for s in "$@"; do
  python3 $(dirname $0)/try_seed.py $(dirname $0)/../seeded/$s --checks $checks 2>&1 | python3 -c "
import json,sys
try:
    r=json.load(sys.stdin); print('$s', {k:r.get(k) for k in ('confirmed','suite_ok','demo_mutant_rc','demo_clean_rc','caught_by')}, r.get('apply_out','')[:100], flush=True)
except Exception as e:
    print('$s', 'ERROR', e, flush=True)"
done
