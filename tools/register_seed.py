#!/usr/bin/env python3
"""register_seed.py <prop> <agent out dir> — copy m1..m3 into seeded/<prop>-m<k>/ with normalised meta.json"""
import sys, os, json, shutil, re, glob
prop, out = sys.argv[1], sys.argv[2]
prefix = sys.argv[3] if len(sys.argv) > 3 else ''
ROOT = os.path.dirname(os.path.dirname(os.path.abspath(__file__)))
for md in sorted(glob.glob(os.path.join(out, 'm*'))):
    k = os.path.basename(md)
    k = prefix + k
    d = os.path.join(ROOT, 'seeded', f'{prop}-{k}')
    os.makedirs(d, exist_ok=True)
    for f in os.listdir(md):
        if f != 'meta.json':
            if os.path.isdir(os.path.join(md, f)): continue
            shutil.copy(os.path.join(md, f), os.path.join(d, f))
    m = json.load(open(os.path.join(md, 'meta.json')))
    m['id'] = f'{prop}-{k}'
    m['property_text'] = m.get('property'); m['property'] = prop
    m["demo_cmd"] = re.sub(r"CARGO_TARGET_DIR=\S+\s+", "", m.get("demo_cmd", ""))
    m["origin"] = 'independent sub-agent given only the property text and a scratch worktree'
    if 'demo_files' not in m:
        # guess from demo_cmd: "cp demo.rs <worktree>/tests/x.rs && cargo ..."
        cmd = m.get('demo_cmd', '')
        mm = re.search(r'cp\s+(\S+)\s+\S*?/?((?:tests|src|examples|[\w/]+)/[\w./-]+\.rs)', cmd)
        if mm:
            m['demo_files'] = {mm.group(2).lstrip('/'): os.path.basename(mm.group(1))}
            m['demo_cmd'] = cmd.split('&&', 1)[1].strip() if '&&' in cmd else cmd
    json.dump(m, open(os.path.join(d, 'meta.json'), 'w'), indent=1)
    print(d, m.get('demo_files'), '|', m.get('demo_cmd'))
