"""mk_seed_prompt.py Cxx  (env ROUND=N) - scratch worktree /tmp/seed/seedN-Cxx of /repo HEAD + the prompt file
/tmp/seed/seedN-Cxx.prompt.txt for an independent seeding agent (property text, earlier attempts to avoid; nothing else
from /verif). The agent is then told only: read that file and follow it."""
import json,glob,sys,os,subprocess
pid=sys.argv[1]
import os
R=os.environ.get('ROUND','7')
name=f'seed{R}-{pid}'
wt=f'/tmp/seed/{name}'
if not os.path.exists(wt):
    subprocess.run(['sh','/verif/tools/new_seed_worktree.sh',name,pid],check=True,stdout=subprocess.DEVNULL)
prior=[]
for mp in sorted(glob.glob(f'/verif/seeded/{pid}-*/meta.json')):
    m=json.load(open(mp))
    t=(m.get('what_changed') or m.get('clause_broken') or m.get('what_it_needs_to_manifest') or '')
    t=' '.join(t.split())[:230]
    fs=','.join(m.get('files_touched') or [])
    prior.append(f'  - [{fs}] {t}')
p=open('/verif/tools/seed_prompt.md').read().replace('{R}',R)
p=p.replace('{WT}',wt).replace('{NAME}',name).replace('{PROPFILE}',f'/tmp/seed/{name}.property.txt').replace('{PRIOR}','\n'.join(prior) or '  (none)')
p+='\n\n----- THE PROPERTY -----\n'+open(f'/tmp/seed/{name}.property.txt').read()
open(f'/tmp/seed/{name}.prompt.txt','w').write(p)
print(len(p))
