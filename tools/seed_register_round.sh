#!/bin/sh
# usage: reg.sh Cxx CHECKS  — register round-8 seeds of Cxx, enqueue, make sure runners are up
P=$1; CH=${2:-$1}
cd /verif || exit 1
python3 tools/register_seed.py $P /tmp/seed/seed8-$P-out r8 | cut -c1-160
git -C /repo worktree remove --force /tmp/seed/seed8-$P 2>/dev/null
rm -rf /tmp/seed/target-seed8-$P
git add -A seeded; git commit -qm "round-8 $P seeds registered" -q
for m in /verif/seeded/$P-r8m*; do echo "$(basename $m) $CH" >> /work/queue3; done
cd /work
for u in q q2 me; do if ! ps aux | grep -q "[r]unq3.sh $u"; then nohup /work/runq3.sh $u > /work/logs/runq3_${u}_r8.log 2>&1 & fi; done
sleep 1; ps aux | grep '[r]unq3.sh' | awk '{print $NF}' | tr '\n' ' '; echo
