#!/bin/sh
# usage: tools/new_workspace.sh <name>  — private clone of /verif and worktree of /repo for a builder agent
set -e
n=$1
mkdir -p /work/$n
git clone -q /verif /work/$n/verif
git -C /work/$n/verif checkout -q -b $n
git -C /repo worktree add -q -b work-$n /work/$n/repo HEAD
echo "/work/$n ready"
