#!/bin/sh
# usage: runq3.sh <universe> ; lines of /work/queue3: "<ID> <CHECKS comma separated>"; full confirmation; pulls first
U=$1
while :; do
  LINE=$(flock /work/queue.lock sh -c 'head -n1 /work/queue3; sed -i 1d /work/queue3')
  [ -z "$LINE" ] && break
  ID=$(echo $LINE | cut -d' ' -f1); CH=$(echo $LINE | cut -d' ' -f2)
  cd /work/$U/verif || exit 1
  git checkout -q -- . ; git clean -fdq seeded; git pull -q --ff-only origin main
  git -C /work/$U/repo checkout -q -- . ; git -C /work/$U/repo merge -q --ff-only main
  python3 tools/gen_dispatch.py >/dev/null
  echo "$(date +%T) $U start3 $ID $CH" >> /work/queue.log
  VERIF_REPO=/work/$U/repo python3 tools/try_seed.py seeded/$ID --checks $CH > /work/logs/seed3_$ID.log 2>&1
  git -C /work/$U/repo checkout -- .
  cp seeded/$ID/result.json /work/results3_$ID.json 2>/dev/null
  echo "$(date +%T) $U done3 $ID $(python3 -c "import json;r=json.load(open('/work/results3_$ID.json'));print(r.get('confirmed'),r.get('caught_by'))" 2>&1 | tail -1)" >> /work/queue.log
done
