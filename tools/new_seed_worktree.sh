#!/bin/sh
# usage: tools/new_seed_worktree.sh <name> — scratch worktree of /repo for a mutation-seeding agent (nothing from /verif)
set -e
n=$1
git -C /repo worktree add -q --detach /tmp/seed/$n HEAD
python3 - "$2" > /tmp/seed/$n.property.txt <<'PY'
import json,sys
pid=sys.argv[1]
for l in open('/verif/properties.jsonl'):
    p=json.loads(l)
    if p['id']==pid:
        print('PROPERTY', pid, '-', p['title']); print(); print('Statement:', p['statement']); print(); print('Quantifier:', p['quantifier']['text']); print(); print('Why the existing tests cannot settle it:', p['why_tests_cant']); print(); print('Code anchors:', json.dumps(p['anchors'].get('mechanism',[]), indent=1))
PY
echo /tmp/seed/$n
