#!/usr/bin/env python3
"""Fold seeded/*/result.json into each meta.json ('ran', 'confirmed', 'caught_by') and write seeded/SUMMARY.md."""
import json, glob, os
ROOT = os.path.dirname(os.path.dirname(os.path.abspath(__file__)))
rows = []
for d in sorted(glob.glob(os.path.join(ROOT, 'seeded', '*'))):
    mp, rp = os.path.join(d, 'meta.json'), os.path.join(d, 'result.json')
    if not os.path.exists(mp): continue
    m = json.load(open(mp))
    if os.path.exists(rp):
        r = json.load(open(rp))
        if 'confirmed' in r: m['confirmed'] = bool(r['confirmed'])
        m['caught_by'] = r.get('caught_by', m.get('caught_by', []))
        m['ran'] = 'tools/try_seed.py: patch applied in a scratch worktree -> existing suite passes (%s), demo fails (rc=%s); patch reverted -> demo passes (rc=%s); then patch applied to /repo, ./check %s, git checkout -- .' % (
            r.get('suite_ok'), r.get('demo_mutant_rc'), r.get('demo_clean_rc'), ' '.join(r.get('checks', {}).keys()))
        m['check_lines'] = {c: v['lines'][:3] for c, v in r.get('checks', {}).items()}
        json.dump(m, open(mp, 'w'), indent=1)
    rows.append((m.get('id', os.path.basename(d)), m.get('property'), m.get('confirmed'), ','.join(m.get('caught_by', [])) or '—',
                 (m.get('what_it_needs_to_manifest') or m.get('needs') or '')[:140].replace('\n', ' ')))
with open(os.path.join(ROOT, 'seeded', 'SUMMARY.md'), 'w') as f:
    f.write('| id | property | confirmed | caught by | needs |\n|---|---|---|---|---|\n')
    for r in rows: f.write('| %s | %s | %s | %s | %s |\n' % r)
print(open(os.path.join(ROOT, 'seeded', 'SUMMARY.md')).read())
