#!/usr/bin/env python3
"""Generate MANIFEST.json from props/*.json (one file per claimed property) and the fixed property list."""
import json, os, glob, subprocess
ROOT = os.path.dirname(os.path.dirname(os.path.abspath(__file__)))
ids = [json.loads(l)['id'] for l in open(os.path.join(ROOT, 'properties.jsonl'))]
claimed = {}
for p in sorted(glob.glob(os.path.join(ROOT, 'props', 'C*.json'))):
    c = json.load(open(p))
    if c.get('claimed', True):
        claimed[c['property']] = c
hooks_commits = []
hp = os.path.join(ROOT, 'hooks_commits.txt')
if os.path.exists(hp):
    hooks_commits = [l.split()[0] for l in open(hp) if l.strip() and not l.startswith('#')]
checks = []
for pid in ids:
    if pid not in claimed: continue
    c = claimed[pid]
    checks.append({
        'property_id': pid,
        'quick_cmd': f'./check {pid} --tier quick',
        'thorough_cmd': f'./check {pid} --tier thorough',
        'evidence_file': f'evidence/{pid}.json',
        'replay_cmd_template': f'./check {pid} --replay {{path}}',
        'engine': 'lean4-model+correspondence',
        'level_claimed': {
            'category': 'proof',
            'text': c.get('level_text', 'Lean 4 theorems about an executable model of the anchored code, for all inputs the property quantifies over; the model is tied to /repo\'s current tree on every run by a differential correspondence check (real code vs. compiled model on the same generated cases).'),
            'design_ref': 'DESIGN.md §' + c.get('design_ref', '7'),
        },
        'level_note': c.get('level_note', '; '.join(c.get('trusted_base', []))),
        'technique': c.get('technique', 'machine-checked proof in Lean 4 over a hand-written model + differential correspondence with the implementation'),
    })
na_reasons = {}
nap = os.path.join(ROOT, 'props', 'not_applicable.json')
if os.path.exists(nap):
    na_reasons = json.load(open(nap))
na = [{'property_id': pid, 'reason': na_reasons.get(pid, 'not yet claimed: model, theorems and correspondence stream for this property are still being built (planned in DESIGN.md §7); no check is registered until they exist')}
      for pid in ids if pid not in claimed]
m = {
    'version': 1,
    'setup_cmd': 'python3 tools/gen_dispatch.py && (cd lean && lake build) && (cd harness && CARGO_NET_OFFLINE=true cargo build --offline)',
    'hooks': {
        'guard': 'emit_rs_emit_verif',
        'enable': 'RUSTFLAGS="--cfg emit_rs_emit_verif" (set in /verif/harness/.cargo/config.toml [build] rustflags; the harness crates depend on /repo crates by path)',
        'baseline_off_cmd': 'cd /repo && cargo test --workspace --no-fail-fast --offline',
        'source_commits': hooks_commits,
        'add_only': True,
    },
    'engines': [
        {'name': 'lean4-model+correspondence', 'path': 'lean/ + harness/ + check',
         'serves_properties': [c['property_id'] for c in checks],
         'kind_free_text': 'Lean 4 lake project EmitModel (executable models, property theorems, compiled driver emit_model) + Rust harness workspace linking the real crates from /repo by path (hooks cfg on) + python driver `check` that builds both, audits axioms, runs the same generated cases through both and diffs'},
    ],
    'checks': checks,
    'not_applicable': na,
    'notes': 'All checks share ./check <id>. VERIF_SEED / VERIF_TIER are honoured. Known findings: known_findings.txt. See DESIGN.md.',
}
json.dump(m, open(os.path.join(ROOT, 'MANIFEST.json'), 'w'), indent=1)
print('MANIFEST: claimed', [c['property_id'] for c in checks], 'unclaimed', len(na))
