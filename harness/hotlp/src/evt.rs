//! Event descriptions shared by the hotlp streams: the S-expression grammar of property values and extents
//! and their construction as real `emit::Value`s / `emit::Extent`s.
//!
//!   V ::= (kind span|metric) | (str xHEX) | (disp xHEX) | (i64 N) | (u64 N) | (i128 N) | (u128 N)
//!       | (f64 BITS) | (bool B) | (null) | (seq V…) | (sseq V…)        seq: captured via sval, sseq: via serde
//!   E ::= none | (point NANOS) | (range NANOS NANOS)          NANOS: nanoseconds since the unix epoch, up to
//!                                                             `Timestamp::MAX` (9999-12-31T23:59:59.999999999Z,
//!                                                             about 2.5e20 — more than 64 bits)

use hcommon::Sexp;
use std::time::Duration;

/// A value that is only `Display` (a bare `String` handed to `capture_display` would be captured as a string).
#[derive(Clone, Debug)]
pub struct D(pub String);

impl std::fmt::Display for D {
    fn fmt(&self, f: &mut std::fmt::Formatter) -> std::fmt::Result {
        f.write_str(&self.0)
    }
}

#[derive(Clone, Debug)]
pub enum V {
    Kind(emit::Kind),
    Str(String),
    Disp(D),
    I64(i64),
    U64(u64),
    I128(i128),
    U128(u128),
    F64(f64),
    Bool(bool),
    Null,
    /// bool: captured through serde (true) or sval (false)
    Seq(Vec<V>, bool),
}

impl V {
    pub fn parse(s: &Sexp) -> Option<V> {
        let (tag, a) = s.as_tagged()?;
        Some(match (tag, a.len()) {
            ("kind", 1) => V::Kind(match a[0].as_atom()? {
                "span" => emit::Kind::Span,
                "metric" => emit::Kind::Metric,
                _ => return None,
            }),
            ("str", 1) => V::Str(a[0].as_string()?),
            ("disp", 1) => V::Disp(D(a[0].as_string()?)),
            ("i64", 1) => V::I64(a[0].as_i64()?),
            ("u64", 1) => V::U64(a[0].as_u64()?),
            ("i128", 1) => V::I128(a[0].as_i128()?),
            ("u128", 1) => V::U128(a[0].as_u128()?),
            ("f64", 1) => V::F64(f64::from_bits(a[0].as_u64()?)),
            ("bool", 1) => V::Bool(a[0].as_bool()?),
            ("null", 0) => V::Null,
            ("seq", _) => V::Seq(a.iter().map(V::parse).collect::<Option<Vec<_>>>()?, false),
            ("sseq", _) => V::Seq(a.iter().map(V::parse).collect::<Option<Vec<_>>>()?, true),
            _ => return None,
        })
    }

    pub fn to_sexp(&self) -> Sexp {
        match self {
            V::Kind(emit::Kind::Span) => Sexp::tagged("kind", vec![Sexp::atom("span")]),
            V::Kind(_) => Sexp::tagged("kind", vec![Sexp::atom("metric")]),
            V::Str(s) => Sexp::tagged("str", vec![Sexp::str(s)]),
            V::Disp(s) => Sexp::tagged("disp", vec![Sexp::str(&s.0)]),
            V::I64(n) => Sexp::tagged("i64", vec![Sexp::num(n)]),
            V::U64(n) => Sexp::tagged("u64", vec![Sexp::num(n)]),
            V::I128(n) => Sexp::tagged("i128", vec![Sexp::num(n)]),
            V::U128(n) => Sexp::tagged("u128", vec![Sexp::num(n)]),
            V::F64(f) => Sexp::tagged("f64", vec![Sexp::num(f.to_bits())]),
            V::Bool(b) => Sexp::tagged("bool", vec![Sexp::bool(*b)]),
            V::Null => Sexp::tagged("null", vec![]),
            V::Seq(xs, serde) => Sexp::tagged(if *serde { "sseq" } else { "seq" }, xs.iter().map(|x| x.to_sexp()).collect()),
        }
    }

    /// The real `emit::Value` for this description. Scalars use the native captures (`From<i64>` …, the typed
    /// `Kind`, `capture_display`); sequences are captured through sval or serde as the tag says.
    pub fn value(&self) -> emit::Value<'_> {
        match self {
            V::Kind(k) => emit::Value::capture_display(k),
            V::Str(s) => emit::Value::from(s.as_str()),
            V::Disp(s) => emit::Value::capture_display(s),
            V::I64(n) => emit::Value::from(*n),
            V::U64(n) => emit::Value::from(*n),
            V::I128(n) => emit::Value::from(*n),
            V::U128(n) => emit::Value::from(*n),
            V::F64(f) => emit::Value::from(*f),
            V::Bool(b) => emit::Value::from(*b),
            V::Null => emit::Value::null(),
            V::Seq(_, true) => emit::Value::capture_serde(self),
            V::Seq(_, false) => emit::Value::capture_sval(self),
        }
    }
}

impl sval::Value for V {
    fn stream<'sval, S: sval::Stream<'sval> + ?Sized>(&'sval self, stream: &mut S) -> sval::Result {
        match self {
            V::Kind(k) => stream.value_computed(&k.to_string()[..]),
            V::Str(s) => stream.value(&s[..]),
            V::Disp(s) => stream.value(&s.0[..]),
            V::I64(n) => stream.i64(*n),
            V::U64(n) => stream.u64(*n),
            V::I128(n) => stream.i128(*n),
            V::U128(n) => stream.u128(*n),
            V::F64(f) => stream.f64(*f),
            V::Bool(b) => stream.bool(*b),
            V::Null => stream.null(),
            V::Seq(xs, _) => {
                stream.seq_begin(Some(xs.len()))?;
                for x in xs {
                    stream.seq_value_begin()?;
                    stream.value(x)?;
                    stream.seq_value_end()?;
                }
                stream.seq_end()
            }
        }
    }
}

impl serde::Serialize for V {
    fn serialize<S: serde::Serializer>(&self, s: S) -> Result<S::Ok, S::Error> {
        match self {
            V::Kind(k) => s.serialize_str(&k.to_string()),
            V::Str(x) => s.serialize_str(x),
            V::Disp(x) => s.serialize_str(&x.0),
            V::I64(n) => s.serialize_i64(*n),
            V::U64(n) => s.serialize_u64(*n),
            V::I128(n) => s.serialize_i128(*n),
            V::U128(n) => s.serialize_u128(*n),
            V::F64(f) => s.serialize_f64(*f),
            V::Bool(b) => s.serialize_bool(*b),
            V::Null => s.serialize_unit(),
            V::Seq(xs, _) => {
                use serde::ser::SerializeSeq;
                let mut q = s.serialize_seq(Some(xs.len()))?;
                for x in xs {
                    q.serialize_element(x)?;
                }
                q.end()
            }
        }
    }
}

#[derive(Clone, Copy, Debug, PartialEq)]
pub enum Ext {
    None,
    Point(u128),
    Range(u128, u128),
}

/// `Timestamp::from_unix` of a nanosecond count; `None` past `Timestamp::MAX`.
pub fn ts_of_nanos(n: u128) -> Option<emit::Timestamp> {
    let secs = u64::try_from(n / 1_000_000_000).ok()?;
    emit::Timestamp::from_unix(Duration::new(secs, (n % 1_000_000_000) as u32))
}

impl Ext {
    pub fn parse(s: &Sexp) -> Option<Ext> {
        if s.as_atom() == Some("none") {
            return Some(Ext::None);
        }
        let (tag, a) = s.as_tagged()?;
        match (tag, a.len()) {
            ("point", 1) => Some(Ext::Point(a[0].as_u128()?)),
            ("range", 2) => Some(Ext::Range(a[0].as_u128()?, a[1].as_u128()?)),
            _ => None,
        }
        // an instant `emit::Timestamp` cannot hold is not a case
        .filter(|e| match e {
            Ext::None => true,
            Ext::Point(t) => ts_of_nanos(*t).is_some(),
            Ext::Range(a, b) => ts_of_nanos(*a).is_some() && ts_of_nanos(*b).is_some(),
        })
    }
    pub fn to_sexp(&self) -> Sexp {
        match self {
            Ext::None => Sexp::atom("none"),
            Ext::Point(t) => Sexp::tagged("point", vec![Sexp::num(t)]),
            Ext::Range(a, b) => Sexp::tagged("range", vec![Sexp::num(a), Sexp::num(b)]),
        }
    }
    pub fn extent(&self) -> Option<emit::Extent> {
        let ts = |n: u128| ts_of_nanos(n).expect("instant within emit::Timestamp's range");
        match self {
            Ext::None => None,
            // two public ways to the same extent, chosen by the instants themselves (so a replayed case takes the same
            // one): the constructors and the `ToExtent` conversions
            // (what `Event::new(.., ts, ..)`, `Span::new(.., a..b, ..)` and the macros' `extent:` argument go through)
            Ext::Point(t) if t % 2 == 0 => emit::extent::ToExtent::to_extent(&ts(*t)),
            Ext::Range(a, b) if (a / 1000 + b / 1000) % 2 == 0 => emit::extent::ToExtent::to_extent(&(ts(*a)..ts(*b))),
            Ext::Point(t) => Some(emit::Extent::point(ts(*t))),
            Ext::Range(a, b) => Some(emit::Extent::range(ts(*a)..ts(*b))),
        }
    }
}

/// `(props (xKEY V)…)`
pub fn parse_props(s: &Sexp) -> Option<Vec<(String, V)>> {
    let (tag, items) = s.as_tagged()?;
    if tag != "props" {
        return None;
    }
    items
        .iter()
        .map(|it| {
            let kv = it.as_list()?;
            if kv.len() != 2 {
                return None;
            }
            Some((kv[0].as_string()?, V::parse(&kv[1])?))
        })
        .collect()
}

pub fn props_sexp(props: &[(String, V)]) -> Sexp {
    Sexp::tagged("props", props.iter().map(|(k, v)| Sexp::list(vec![Sexp::str(k), v.to_sexp()])).collect())
}

/// Build the real event and hand it to `f`.
pub fn with_event<R>(mdl: &str, ext: &Ext, props: &[(String, V)], f: impl FnOnce(emit::Event<&[(&str, emit::Value)]>) -> R) -> R {
    let vals: Vec<(&str, emit::Value)> = props.iter().map(|(k, v)| (k.as_str(), v.value())).collect();
    let evt = emit::Event::new(emit::Path::new_ref_raw(mdl), emit::Template::literal("hotlp event"), ext.extent(), &vals[..]);
    f(evt)
}
