//! A scripted local OTLP collector (shared by the C12 and C14 streams).
//!
//! Two listeners on 127.0.0.1:0 — HTTP/1 (OTLP/HTTP) and prior-knowledge HTTP/2 (gRPC framing) — served by hyper
//! on a private tokio runtime thread. Every request is recorded (signal by path, connection index, headers that
//! matter, decoded records with their exact size on the wire) and answered per script:
//!   ack | status n | grpc-status n (trailers) | grpc-status n (trailers-only, i.e. in the headers) | stall |
//!   reset before / after reading the body | response HEADERS (200), then the response body breaks before any
//!   trailers (RST_STREAM on the gRPC listener) | hold (answer `ack` once released — used to park the worker).
//!
//! Bodies: gunzip when `content-encoding: gzip` / gRPC flag byte 1; strip and validate the 5-byte gRPC frame;
//! protobuf decoded with the prost types generated in the repo (`emitter/otlp/src/data/generated`), JSON with
//! serde_json. Records are located by walking the wire (`resource_*`(1) → `scope_*`(2) → records(2)) so the size
//! of each pre-encoded event payload — what `Channel::push` sums — is observed exactly.

use std::collections::{HashMap, VecDeque};
use std::convert::Infallible;
use std::future::Future;
use std::io::Read as _;
use std::net::SocketAddr;
use std::pin::Pin;
use std::sync::{Arc, Condvar, Mutex};
use std::task::{Context, Poll};
use std::time::{Duration, Instant};

use bytes::Bytes;
use hyper::body::{Body, Frame, Incoming};
use hyper::http::{HeaderMap, HeaderValue};
use hyper::{Request, Response};
use prost::Message;

#[allow(dead_code, clippy::all)]
pub mod generated {
    macro_rules! gen {
        ($f:literal) => {
            include!(concat!(env!("CARGO_MANIFEST_DIR"), "/../../../repo/emitter/otlp/src/data/generated/", $f));
        };
    }
    pub mod logs {
        pub mod v1 {
            gen!("opentelemetry.proto.logs.v1.rs");
        }
    }
    pub mod trace {
        pub mod v1 {
            gen!("opentelemetry.proto.trace.v1.rs");
        }
    }
    pub mod metrics {
        pub mod v1 {
            gen!("opentelemetry.proto.metrics.v1.rs");
        }
    }
    pub mod common {
        pub mod v1 {
            gen!("opentelemetry.proto.common.v1.rs");
        }
    }
    pub mod resource {
        pub mod v1 {
            gen!("opentelemetry.proto.resource.v1.rs");
        }
    }
    pub mod collector {
        pub mod logs {
            pub mod v1 {
                gen!("opentelemetry.proto.collector.logs.v1.rs");
            }
        }
        pub mod trace {
            pub mod v1 {
                gen!("opentelemetry.proto.collector.trace.v1.rs");
            }
        }
        pub mod metrics {
            pub mod v1 {
                gen!("opentelemetry.proto.collector.metrics.v1.rs");
            }
        }
    }
}

use generated::common::v1 as common;

#[derive(Clone, Copy, PartialEq, Eq, Hash, Debug, PartialOrd, Ord)]
pub enum Signal {
    Logs,
    Traces,
    Metrics,
}

impl Signal {
    pub const ALL: [Signal; 3] = [Signal::Logs, Signal::Traces, Signal::Metrics];
    pub fn name(self) -> &'static str {
        match self {
            Signal::Logs => "logs",
            Signal::Traces => "traces",
            Signal::Metrics => "metrics",
        }
    }
    pub fn http_path(self) -> &'static str {
        match self {
            Signal::Logs => "/v1/logs",
            Signal::Traces => "/v1/traces",
            Signal::Metrics => "/v1/metrics",
        }
    }
    pub fn grpc_path(self) -> &'static str {
        match self {
            Signal::Logs => "/opentelemetry.proto.collector.logs.v1.LogsService/Export",
            Signal::Traces => "/opentelemetry.proto.collector.trace.v1.TraceService/Export",
            Signal::Metrics => "/opentelemetry.proto.collector.metrics.v1.MetricsService/Export",
        }
    }
    fn of_path(p: &str) -> Option<(Signal, bool)> {
        for s in Signal::ALL {
            if p == s.http_path() {
                return Some((s, false));
            }
            if p == s.grpc_path() {
                return Some((s, true));
            }
        }
        None
    }
}

/// What the collector does with one request.
#[derive(Clone, Copy, PartialEq, Eq, Debug)]
pub enum Resp {
    /// 200 with an empty body / gRPC `grpc-status: 0` trailer
    Ack,
    /// 200 with a non-empty body (HTTP) / an empty message frame before the trailers (gRPC)
    AckBody,
    /// HTTP status `n`, empty body (on the gRPC listener: `:status n`, no grpc-status anywhere)
    Status(u16),
    /// 200 + trailers `grpc-status: n`
    GrpcStatus(u32),
    /// "Trailers-Only" response: `grpc-status: n` in the response headers, END_STREAM, no body
    GrpcStatusHeaders(u32),
    /// read the body, never answer
    Stall,
    /// read the body, send the response HEADERS (200, no END_STREAM), then never send the message / trailers
    StallAfterHeaders,
    /// read the body, send the response HEADERS (200, no END_STREAM, no grpc-status), give them time to reach the
    /// client, then fail the response body: on the gRPC listener hyper resets the stream (RST_STREAM) — the
    /// client has a `:status 200` response whose body breaks before any trailers arrive. The connection survives.
    ResetAfterHeaders,
    /// read the body, send the response HEADERS (200; on the HTTP listener with a `content-length` and the first
    /// bytes of a body, on the gRPC listener without END_STREAM), give them time to reach the client, then drop the
    /// CONNECTION: the response body breaks mid-way / before any trailers and the connection is gone.
    DropAfterHeaders,
    /// drop the connection as soon as the request head arrived
    ResetBefore,
    /// read the whole body, then drop the connection without answering
    ResetAfter,
    /// read the body, wait for `release()`, then `Ack`
    Hold,
}

impl Resp {
    /// Did the collector acknowledge the request? An OTLP/HTTP endpoint acknowledges with its 2xx status line
    /// (whatever becomes of the response body afterwards); a gRPC endpoint with `grpc-status: 0` (a 2xx response
    /// that ends without any grpc-status is taken as one) — a gRPC response that breaks between its headers and
    /// its trailers never said so.
    pub fn is_ack(self, grpc: bool) -> bool {
        matches!(self, Resp::Ack | Resp::AckBody | Resp::Hold | Resp::Status(200..=299) | Resp::GrpcStatus(0) | Resp::GrpcStatusHeaders(0))
            || (!grpc && self == Resp::DropAfterHeaders)
    }

    /// The connection is dropped after the response head reached the client: the client has pooled a sender whose
    /// connection is gone, and its next attempt fails on it without reaching the collector.
    pub fn leaves_stale_sender(self) -> bool {
        self == Resp::DropAfterHeaders
    }
}

#[derive(Clone, Debug)]
pub struct Record {
    pub id: Option<i64>,
    /// exact length of the pre-encoded event payload inside the request
    pub wire_size: usize,
    pub scope: String,
}

#[derive(Clone, Debug)]
pub struct Recorded {
    pub seq: usize,
    pub signal: Signal,
    pub grpc: bool,
    /// index of the TCP connection (per collector, in accept order)
    pub conn: usize,
    pub json: bool,
    pub gzip: bool,
    /// set when the transport framing / headers / encoding are not what OTLP requires
    pub malformed: Option<String>,
    /// `None` when the body was not read (`ResetBefore`)
    pub records: Option<Vec<Record>>,
    pub resp: Resp,
    pub held: bool,
}

#[derive(Default)]
struct State {
    scripts: HashMap<Signal, VecDeque<Resp>>,
    hold_all: bool,
    log: Vec<Recorded>,
    holding: usize,
    release_gen: u64,
    conns: usize,
    seq: usize,
    kills: Vec<Arc<tokio::sync::Notify>>,
    /// a header every request must carry (the stream configured it on every transport)
    expect_header: Option<(String, String)>,
}

struct Shared {
    state: Mutex<State>,
    cv: Condvar,
}

pub struct Collector {
    shared: Arc<Shared>,
    pub http_addr: SocketAddr,
    pub grpc_addr: SocketAddr,
    /// a port on which nothing listens (connection refused); the bound, never-listening socket is kept so the
    /// port cannot be handed to anybody else while this process lives
    pub dead_addr: SocketAddr,
    _dead_socket: tokio::net::TcpSocket,
}

impl Collector {
    pub fn start() -> Collector {
        let shared = Arc::new(Shared { state: Mutex::new(State::default()), cv: Condvar::new() });
        let (tx, rx) = std::sync::mpsc::channel();
        let sh = shared.clone();
        std::thread::Builder::new()
            .name("hotlp_collector".into())
            .spawn(move || {
                let rt = tokio::runtime::Builder::new_current_thread().enable_all().build().unwrap();
                rt.block_on(async move {
                    let h1 = tokio::net::TcpListener::bind("127.0.0.1:0").await.unwrap();
                    let h2 = tokio::net::TcpListener::bind("127.0.0.1:0").await.unwrap();
                    tx.send((h1.local_addr().unwrap(), h2.local_addr().unwrap())).unwrap();
                    let a = tokio::spawn(accept_loop(h1, false, sh.clone()));
                    let b = tokio::spawn(accept_loop(h2, true, sh.clone()));
                    let _ = a.await;
                    let _ = b.await;
                });
            })
            .unwrap();
        let (http_addr, grpc_addr) = rx.recv().unwrap();
        // a dead port: bound but never listening, so `connect` is refused
        let dead_socket = tokio::net::TcpSocket::new_v4().unwrap();
        dead_socket.bind("127.0.0.1:0".parse().unwrap()).unwrap();
        let dead_addr = dead_socket.local_addr().unwrap();
        Collector { shared, http_addr, grpc_addr, dead_addr, _dead_socket: dead_socket }
    }

    /// Forget everything recorded and install new scripts. With `hold_all` every request is parked (`Hold`)
    /// until `release()`.
    pub fn reset(&self, scripts: HashMap<Signal, VecDeque<Resp>>, hold_all: bool) {
        let mut st = self.shared.state.lock().unwrap();
        st.scripts = scripts;
        st.hold_all = hold_all;
        st.log.clear();
        st.seq = 0;
    }

    /// Drop every connection accepted so far (exchanges still hanging from an earlier case end with an error).
    /// from now on every request must carry this header (`None`: no requirement)
    pub fn expect_header(&self, h: Option<(&str, &str)>) {
        self.shared.state.lock().unwrap().expect_header = h.map(|(k, v)| (k.to_string(), v.to_string()));
    }

    pub fn kill_connections(&self) {
        let kills = std::mem::take(&mut self.shared.state.lock().unwrap().kills);
        for k in kills {
            k.notify_one();
        }
    }

    /// Block until `n` requests are parked, or the timeout elapses. Returns whether they are.
    pub fn wait_holding(&self, n: usize, timeout: Duration) -> bool {
        let deadline = Instant::now() + timeout;
        let mut st = self.shared.state.lock().unwrap();
        while st.holding < n {
            let now = Instant::now();
            if now >= deadline {
                return false;
            }
            st = self.shared.cv.wait_timeout(st, deadline - now).unwrap().0;
        }
        true
    }

    /// Stop parking new requests and answer the parked ones.
    pub fn release(&self) {
        let mut st = self.shared.state.lock().unwrap();
        st.hold_all = false;
        st.release_gen += 1;
    }

    pub fn take_log(&self) -> Vec<Recorded> {
        let mut st = self.shared.state.lock().unwrap();
        std::mem::take(&mut st.log)
    }

    pub fn http_url(&self, s: Signal) -> String {
        format!("http://{}{}", self.http_addr, s.http_path())
    }
    pub fn grpc_url(&self) -> String {
        format!("http://{}", self.grpc_addr)
    }
    pub fn dead_http_url(&self, s: Signal) -> String {
        format!("http://{}{}", self.dead_addr, s.http_path())
    }
    pub fn dead_grpc_url(&self) -> String {
        format!("http://{}", self.dead_addr)
    }
}

async fn accept_loop(listener: tokio::net::TcpListener, h2: bool, shared: Arc<Shared>) {
    loop {
        let (io, _) = match listener.accept().await {
            Ok(x) => x,
            Err(_) => continue,
        };
        let _ = io.set_nodelay(true);
        let conn = {
            let mut st = shared.state.lock().unwrap();
            st.conns += 1;
            st.conns
        };
        let kill = Arc::new(tokio::sync::Notify::new());
        shared.state.lock().unwrap().kills.push(kill.clone());
        let sh = shared.clone();
        let k2 = kill.clone();
        tokio::spawn(async move {
            let svc = hyper::service::service_fn(move |req: Request<Incoming>| {
                let sh = sh.clone();
                let kill = k2.clone();
                async move { Ok::<_, Infallible>(handle(req, conn, h2, sh, kill).await) }
            });
            if h2 {
                let c = hyper::server::conn::http2::Builder::new(TokioExec).serve_connection(TokioIo(io), svc);
                tokio::select! { _ = c => {}, _ = kill.notified() => {} }
            } else {
                let c = hyper::server::conn::http1::Builder::new().serve_connection(TokioIo(io), svc);
                tokio::select! { _ = c => {}, _ = kill.notified() => {} }
            }
        });
    }
}

async fn read_body(body: &mut Incoming) -> Result<Vec<u8>, ()> {
    let mut out = Vec::new();
    loop {
        let f = std::future::poll_fn(|cx| Pin::new(&mut *body).poll_frame(cx)).await;
        match f {
            None => return Ok(out),
            Some(Ok(frame)) => {
                if let Some(d) = frame.data_ref() {
                    out.extend_from_slice(d);
                }
            }
            Some(Err(_)) => return Err(()),
        }
    }
}

async fn handle(req: Request<Incoming>, conn: usize, h2: bool, shared: Arc<Shared>, kill: Arc<tokio::sync::Notify>) -> Response<RespBody> {
    let (parts, mut body) = req.into_parts();
    let path = parts.uri.path().to_string();
    let Some((signal, grpc)) = Signal::of_path(&path) else {
        let _ = read_body(&mut body).await;
        return plain(404);
    };
    let hdr = |k: &str| parts.headers.get(k).and_then(|v| v.to_str().ok()).map(|s| s.to_string());
    // decide what to do with this request
    let (resp, held, gen0) = {
        let mut st = shared.state.lock().unwrap();
        if st.hold_all {
            (Resp::Hold, true, st.release_gen)
        } else {
            let r = st.scripts.get_mut(&signal).and_then(|q| q.pop_front()).unwrap_or(Resp::Ack);
            (r, false, st.release_gen)
        }
    };
    let mut rec = Recorded {
        seq: 0,
        signal,
        grpc,
        conn,
        json: false,
        gzip: false,
        malformed: None,
        records: None,
        resp,
        held,
    };
    let push = |rec: Recorded| {
        let mut st = shared.state.lock().unwrap();
        st.seq += 1;
        let mut rec = rec;
        rec.seq = st.seq;
        st.log.push(rec);
    };
    if resp == Resp::ResetBefore {
        push(rec);
        kill.notify_one();
        std::future::pending::<()>().await;
        unreachable!()
    }
    let raw = match read_body(&mut body).await {
        Ok(b) => b,
        Err(()) => {
            rec.malformed = Some("body-read-error".into());
            push(rec);
            kill.notify_one();
            std::future::pending::<()>().await;
            unreachable!()
        }
    };
    // ---- validate the transport framing and decode
    let mut malformed: Option<String> = None;
    let mut bad = |m: &str| {
        if malformed.is_none() {
            malformed = Some(m.to_string());
        }
    };
    if grpc != h2 {
        bad("grpc-path-on-http1-or-http-path-on-h2");
    }
    if parts.method != hyper::Method::POST {
        bad("method");
    }
    if let Some(cl) = hdr("content-length") {
        if cl.parse::<usize>().ok() != Some(raw.len()) {
            bad("content-length");
        }
    }
    let ct = hdr("content-type").unwrap_or_default();
    let payload: Vec<u8>;
    if grpc {
        if ct != "application/grpc+proto" && ct != "application/grpc" {
            bad("grpc-content-type");
        }
        let enc_gzip = hdr("grpc-encoding").as_deref() == Some("gzip");
        if raw.len() < 5 {
            bad("grpc-frame-short");
            payload = Vec::new();
        } else {
            let flag = raw[0];
            let len = u32::from_be_bytes([raw[1], raw[2], raw[3], raw[4]]) as usize;
            if len != raw.len() - 5 {
                bad("grpc-frame-length");
            }
            if flag > 1 {
                bad("grpc-frame-flag");
            }
            if (flag == 1) != enc_gzip {
                bad("grpc-compressed-flag-vs-grpc-encoding");
            }
            rec.gzip = flag == 1;
            if flag == 1 {
                payload = gunzip(&raw[5..]).unwrap_or_else(|| {
                    bad("gzip");
                    Vec::new()
                });
            } else {
                payload = raw[5..].to_vec();
            }
        }
        if hdr("content-encoding").is_some() {
            bad("content-encoding-on-grpc");
        }
    } else {
        match hdr("content-encoding").as_deref() {
            None => payload = raw,
            Some("gzip") => {
                rec.gzip = true;
                payload = gunzip(&raw).unwrap_or_else(|| {
                    bad("gzip");
                    Vec::new()
                });
            }
            Some(_) => {
                bad("content-encoding");
                payload = raw;
            }
        }
    }
    if let Some((k, v)) = shared.state.lock().unwrap().expect_header.clone() {
        if hdr(&k).as_deref() != Some(v.as_str()) {
            bad("configured-header-missing");
        }
    }
    rec.json = ct == "application/json";
    if !grpc && ct != "application/json" && ct != "application/x-protobuf" {
        bad("content-type");
    }
    let records = if rec.json { decode_json(signal, &payload) } else { decode_proto(signal, &payload) };
    match records {
        Ok(r) => rec.records = Some(r),
        Err(m) => {
            bad(&m);
            rec.records = Some(Vec::new());
        }
    }
    rec.malformed = malformed;

    match resp {
        Resp::ResetBefore => unreachable!(),
        Resp::ResetAfter => {
            push(rec);
            kill.notify_one();
            std::future::pending::<()>().await;
            unreachable!()
        }
        Resp::Stall => {
            push(rec);
            std::future::pending::<()>().await;
            unreachable!()
        }
        Resp::StallAfterHeaders => {
            push(rec);
            Response::builder()
                .status(200)
                .header("content-type", if grpc { "application/grpc" } else { "application/x-protobuf" })
                .body(RespBody { data: None, trailers: None, hang: true, break_after: None, kill: None })
                .unwrap()
        }
        Resp::ResetAfterHeaders => {
            push(rec);
            Response::builder()
                .status(200)
                .header("content-type", if grpc { "application/grpc" } else { "application/x-protobuf" })
                .body(RespBody {
                    data: None,
                    trailers: None,
                    hang: false,
                    break_after: Some(Box::pin(tokio::time::sleep(BREAK_DELAY))),
                    kill: None,
                })
                .unwrap()
        }
        Resp::DropAfterHeaders => {
            push(rec);
            let b = Response::builder().status(200);
            let (b, data) = if grpc {
                (b.header("content-type", "application/grpc"), None)
            } else {
                // a body of 64 bytes is announced, 10 of them are sent
                (b.header("content-type", "application/x-protobuf").header("content-length", "64"), Some(Bytes::from_static(&[0u8; 10])))
            };
            b.body(RespBody {
                data,
                trailers: None,
                hang: false,
                break_after: Some(Box::pin(tokio::time::sleep(BREAK_DELAY))),
                kill: Some(kill.clone()),
            })
            .unwrap()
        }
        Resp::Hold => {
            {
                let mut st = shared.state.lock().unwrap();
                st.holding += 1;
                shared.cv.notify_all();
            }
            loop {
                tokio::time::sleep(Duration::from_micros(300)).await;
                let st = shared.state.lock().unwrap();
                if st.release_gen != gen0 {
                    break;
                }
            }
            {
                let mut st = shared.state.lock().unwrap();
                st.holding -= 1;
            }
            push(rec);
            ack(grpc, false)
        }
        Resp::Ack => {
            push(rec);
            ack(grpc, false)
        }
        Resp::AckBody => {
            let json = rec.json;
            push(rec);
            if grpc {
                ack(true, true)
            } else {
                let body: &'static [u8] = if json { b"{\"partialSuccess\":{}}" } else { b"\x0a\x00" };
                Response::builder()
                    .status(200)
                    .header("content-type", if json { "application/json" } else { "application/x-protobuf" })
                    .header("content-length", body.len())
                    .body(RespBody { data: Some(Bytes::from_static(body)), trailers: None, hang: false, break_after: None, kill: None })
                    .unwrap()
            }
        }
        Resp::Status(n) => {
            push(rec);
            plain(n)
        }
        Resp::GrpcStatus(n) => {
            push(rec);
            let mut t = HeaderMap::new();
            t.insert("grpc-status", HeaderValue::from_str(&n.to_string()).unwrap());
            if n != 0 {
                t.insert("grpc-message", HeaderValue::from_static("scripted"));
            }
            Response::builder()
                .status(200)
                .header("content-type", "application/grpc")
                .body(RespBody { data: None, trailers: Some(t), hang: false, break_after: None, kill: None })
                .unwrap()
        }
        Resp::GrpcStatusHeaders(n) => {
            push(rec);
            Response::builder()
                .status(200)
                .header("content-type", "application/grpc")
                .header("grpc-status", n.to_string())
                .header("grpc-message", "scripted")
                .body(RespBody { data: None, trailers: None, hang: false, break_after: None, kill: None })
                .unwrap()
        }
    }
}

fn ack(grpc: bool, with_body: bool) -> Response<RespBody> {
    if grpc {
        let mut t = HeaderMap::new();
        t.insert("grpc-status", HeaderValue::from_static("0"));
        Response::builder()
            .status(200)
            .header("content-type", "application/grpc")
            .body(RespBody {
                data: if with_body { Some(Bytes::from_static(&[0, 0, 0, 0, 0])) } else { None },
                trailers: Some(t),
                hang: false,
                break_after: None,
                kill: None,
            })
            .unwrap()
    } else {
        plain(200)
    }
}

fn plain(status: u16) -> Response<RespBody> {
    Response::builder()
        .status(status)
        .header("content-length", "0")
        .body(RespBody { data: None, trailers: None, hang: false, break_after: None, kill: None })
        .unwrap()
}

fn gunzip(b: &[u8]) -> Option<Vec<u8>> {
    let mut out = Vec::new();
    flate2::read::GzDecoder::new(b).read_to_end(&mut out).ok()?;
    Some(out)
}

// ------------------------------------------------------------------ response body

/// How long a response that is to break mid-body stays intact after its head (and any data) was handed to hyper:
/// long enough for the head to be flushed and read by the client before the stream is reset.
const BREAK_DELAY: Duration = Duration::from_millis(3);

pub struct RespBody {
    data: Option<Bytes>,
    trailers: Option<HeaderMap>,
    /// never produce a frame and never end
    hang: bool,
    /// once the data (if any) was produced and this timer elapsed, the body fails instead of ending
    break_after: Option<Pin<Box<tokio::time::Sleep>>>,
    /// with `break_after`: instead of failing the body, drop the whole connection (and never produce a frame)
    kill: Option<Arc<tokio::sync::Notify>>,
}

/// The error a scripted mid-body failure raises (hyper resets the HTTP/2 stream / aborts the HTTP/1 connection).
#[derive(Debug)]
pub struct BodyBroken;

impl std::fmt::Display for BodyBroken {
    fn fmt(&self, f: &mut std::fmt::Formatter) -> std::fmt::Result {
        f.write_str("scripted response body failure")
    }
}

impl std::error::Error for BodyBroken {}

impl Body for RespBody {
    type Data = Bytes;
    type Error = BodyBroken;
    fn poll_frame(self: Pin<&mut Self>, cx: &mut Context<'_>) -> Poll<Option<Result<Frame<Bytes>, BodyBroken>>> {
        let this = self.get_mut();
        if this.hang {
            return Poll::Pending;
        }
        if let Some(d) = this.data.take() {
            return Poll::Ready(Some(Ok(Frame::data(d))));
        }
        if let Some(timer) = this.break_after.as_mut() {
            return match timer.as_mut().poll(cx) {
                Poll::Pending => Poll::Pending,
                Poll::Ready(()) => match this.kill.take() {
                    None => Poll::Ready(Some(Err(BodyBroken))),
                    Some(kill) => {
                        kill.notify_one();
                        this.break_after = None;
                        this.hang = true;
                        Poll::Pending
                    }
                },
            };
        }
        if let Some(t) = this.trailers.take() {
            return Poll::Ready(Some(Ok(Frame::trailers(t))));
        }
        Poll::Ready(None)
    }
    fn is_end_stream(&self) -> bool {
        !self.hang && self.data.is_none() && self.trailers.is_none() && self.break_after.is_none()
    }
}

// ------------------------------------------------------------------ decoding

/// Split a protobuf message into its (field number, wire type, payload) triples; `None` on malformed input.
fn wire_fields(mut b: &[u8]) -> Option<Vec<(u32, u8, &[u8])>> {
    fn varint(b: &mut &[u8]) -> Option<u64> {
        let mut v = 0u64;
        for i in 0..10 {
            let x = *b.first()?;
            *b = &b[1..];
            v |= ((x & 0x7f) as u64) << (7 * i);
            if x & 0x80 == 0 {
                return Some(v);
            }
        }
        None
    }
    let mut out = Vec::new();
    while !b.is_empty() {
        let key = varint(&mut b)?;
        let (field, wt) = ((key >> 3) as u32, (key & 7) as u8);
        match wt {
            0 => {
                let before = b;
                varint(&mut b)?;
                out.push((field, wt, &before[..before.len() - b.len()]));
            }
            1 => {
                if b.len() < 8 {
                    return None;
                }
                out.push((field, wt, &b[..8]));
                b = &b[8..];
            }
            2 => {
                let n = varint(&mut b)? as usize;
                if b.len() < n {
                    return None;
                }
                out.push((field, wt, &b[..n]));
                b = &b[n..];
            }
            5 => {
                if b.len() < 4 {
                    return None;
                }
                out.push((field, wt, &b[..4]));
                b = &b[4..];
            }
            _ => return None,
        }
    }
    Some(out)
}

fn attr_id(attrs: &[common::KeyValue]) -> Option<i64> {
    attrs.iter().find(|kv| kv.key == "id").and_then(|kv| match kv.value.as_ref()?.value.as_ref()? {
        common::any_value::Value::IntValue(i) => Some(*i),
        _ => None,
    })
}

fn decode_proto(signal: Signal, payload: &[u8]) -> Result<Vec<Record>, String> {
    use generated::collector;
    // the whole request must decode with the generated types
    match signal {
        Signal::Logs => collector::logs::v1::ExportLogsServiceRequest::decode(payload).map(|_| ()),
        Signal::Traces => collector::trace::v1::ExportTraceServiceRequest::decode(payload).map(|_| ()),
        Signal::Metrics => collector::metrics::v1::ExportMetricsServiceRequest::decode(payload).map(|_| ()),
    }
    .map_err(|e| format!("proto-decode:{}", e))?;
    let mut out = Vec::new();
    for (f, wt, res) in wire_fields(payload).ok_or("wire")? {
        if f != 1 || wt != 2 {
            continue;
        }
        for (f, wt, scope_items) in wire_fields(res).ok_or("wire")? {
            if f != 2 || wt != 2 {
                continue;
            }
            let mut scope = String::new();
            let mut recs = Vec::new();
            for (f, wt, item) in wire_fields(scope_items).ok_or("wire")? {
                if f == 1 && wt == 2 {
                    scope = common::InstrumentationScope::decode(item).map_err(|e| e.to_string())?.name;
                } else if f == 2 && wt == 2 {
                    let id = match signal {
                        Signal::Logs => attr_id(&generated::logs::v1::LogRecord::decode(item).map_err(|e| e.to_string())?.attributes),
                        Signal::Traces => attr_id(&generated::trace::v1::Span::decode(item).map_err(|e| e.to_string())?.attributes),
                        Signal::Metrics => {
                            use generated::metrics::v1::metric::Data;
                            let m = generated::metrics::v1::Metric::decode(item).map_err(|e| e.to_string())?;
                            match m.data {
                                Some(Data::Gauge(g)) => g.data_points.first().and_then(|p| attr_id(&p.attributes)),
                                Some(Data::Sum(s)) => s.data_points.first().and_then(|p| attr_id(&p.attributes)),
                                _ => None,
                            }
                        }
                    };
                    recs.push((id, item.len()));
                }
            }
            for (id, n) in recs {
                out.push(Record { id, wire_size: n, scope: scope.clone() });
            }
        }
    }
    Ok(out)
}

#[derive(serde::Deserialize)]
struct JReq {
    #[serde(alias = "resourceLogs", alias = "resourceSpans", alias = "resourceMetrics")]
    resources: Vec<JRes>,
}
#[derive(serde::Deserialize)]
struct JRes {
    /// must be a Resource OBJECT (or absent), not e.g. the bytes of another encoding
    #[allow(dead_code)]
    resource: Option<JResource>,
    #[serde(alias = "scopeLogs", alias = "scopeSpans", alias = "scopeMetrics")]
    scopes: Vec<JScope>,
}
#[derive(serde::Deserialize)]
#[allow(dead_code)]
struct JResource {
    attributes: Option<Vec<JKeyValue>>,
}
#[derive(serde::Deserialize)]
#[allow(dead_code)]
struct JKeyValue {
    key: String,
    value: serde_json::Map<String, serde_json::Value>,
}
#[derive(serde::Deserialize)]
struct JScope {
    scope: Option<serde_json::Value>,
    #[serde(alias = "logRecords", alias = "spans", alias = "metrics")]
    records: Vec<Box<serde_json::value::RawValue>>,
}

fn json_attr_id(attrs: Option<&serde_json::Value>) -> Option<i64> {
    for kv in attrs?.as_array()? {
        if kv.get("key").and_then(|k| k.as_str()) == Some("id") {
            let v = kv.get("value")?.get("intValue")?;
            return v.as_i64().or_else(|| v.as_str()?.parse().ok());
        }
    }
    None
}

fn decode_json(signal: Signal, payload: &[u8]) -> Result<Vec<Record>, String> {
    let text = std::str::from_utf8(payload).map_err(|_| "json-utf8".to_string())?;
    let req: JReq = serde_json::from_str(text).map_err(|e| format!("json-decode:{}", e))?;
    let mut out = Vec::new();
    for res in req.resources {
        for sc in res.scopes {
            let scope = sc.scope.as_ref().and_then(|s| s.get("name")).and_then(|n| n.as_str()).unwrap_or("").to_string();
            for raw in sc.records {
                let v: serde_json::Value = serde_json::from_str(raw.get()).map_err(|e| e.to_string())?;
                let id = match signal {
                    Signal::Logs | Signal::Traces => json_attr_id(v.get("attributes")),
                    Signal::Metrics => {
                        let pts = v.get("gauge").or_else(|| v.get("sum")).and_then(|d| d.get("dataPoints")).and_then(|p| p.as_array());
                        pts.and_then(|p| p.first()).and_then(|p| json_attr_id(p.get("attributes")))
                    }
                };
                out.push(Record { id, wire_size: raw.get().len(), scope: scope.clone() });
            }
        }
    }
    Ok(out)
}

// ------------------------------------------------------------------ hyper <-> tokio glue

struct TokioIo(tokio::net::TcpStream);

impl hyper::rt::Read for TokioIo {
    fn poll_read(mut self: Pin<&mut Self>, cx: &mut Context<'_>, mut buf: hyper::rt::ReadBufCursor<'_>) -> Poll<std::io::Result<()>> {
        // SAFETY: `ReadBuf::uninit` never de-initialises bytes; we only advance by what was filled
        let n = unsafe {
            let mut rb = tokio::io::ReadBuf::uninit(buf.as_mut());
            match tokio::io::AsyncRead::poll_read(Pin::new(&mut self.0), cx, &mut rb) {
                Poll::Ready(Ok(())) => rb.filled().len(),
                other => return other,
            }
        };
        unsafe { buf.advance(n) };
        Poll::Ready(Ok(()))
    }
}

impl hyper::rt::Write for TokioIo {
    fn poll_write(mut self: Pin<&mut Self>, cx: &mut Context<'_>, buf: &[u8]) -> Poll<std::io::Result<usize>> {
        tokio::io::AsyncWrite::poll_write(Pin::new(&mut self.0), cx, buf)
    }
    fn poll_flush(mut self: Pin<&mut Self>, cx: &mut Context<'_>) -> Poll<std::io::Result<()>> {
        tokio::io::AsyncWrite::poll_flush(Pin::new(&mut self.0), cx)
    }
    fn poll_shutdown(mut self: Pin<&mut Self>, cx: &mut Context<'_>) -> Poll<std::io::Result<()>> {
        tokio::io::AsyncWrite::poll_shutdown(Pin::new(&mut self.0), cx)
    }
}

#[derive(Clone, Copy)]
struct TokioExec;

impl<F: Future + Send + 'static> hyper::rt::Executor<F> for TokioExec
where
    F::Output: Send + 'static,
{
    fn execute(&self, fut: F) {
        tokio::spawn(fut);
    }
}
