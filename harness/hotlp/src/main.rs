mod collector;
mod evt;
mod streams;

fn main() {
    hcommon::cli_main(&streams::all());
}
