//! End-to-end carry-through of C07 (flush soundness) and C09 (bounded queue) to the real `emit_otlp::Otlp`,
//! against the scripted local collector. Case formats: see lean/EmitModel/Driver/E2E.lean.

use std::collections::{HashMap, VecDeque};
use std::sync::OnceLock;
use std::time::Duration;

use crate::collector::{Collector, Resp, Signal};
use emit::Emitter;
use hcommon::{Rng, Sexp, Stream, Tier};

pub fn streams() -> Vec<Stream> {
    vec![
        Stream { name: "c07_otlp", gen: gen_c07o, run: run_c07o },
        Stream { name: "c09_otlp", gen: gen_c09o, run: run_c09o },
        Stream { name: "c08_otlp", gen: gen_c08o, run: run_c08o },
    ]
}

const LONG: Duration = Duration::from_secs(20);

fn collector() -> &'static Collector {
    static C: OnceLock<Collector> = OnceLock::new();
    C.get_or_init(Collector::start)
}

#[derive(Clone, Copy, PartialEq, Eq, Debug)]
enum St {
    Absent,
    Idle,
    Done,
    Held,
    Dead,
}

fn st(s: &Sexp) -> Option<St> {
    Some(match s.as_atom()? {
        "absent" => St::Absent,
        "idle" => St::Idle,
        "done" => St::Done,
        "held" => St::Held,
        "dead" => St::Dead,
        _ => return None,
    })
}

fn emit_kind(otlp: &emit_otlp::Otlp, i: usize, id: i64) {
    let ts = emit::Timestamp::from_unix(Duration::from_secs(1_700_000_000)).unwrap();
    match i {
        0 => otlp.emit(emit::Event::new(emit::Path::new_raw("e2e"), emit::Template::literal("log"), emit::Extent::point(ts), ("id", id))),
        1 => {
            let ts2 = emit::Timestamp::from_unix(Duration::from_secs(1_700_000_001)).unwrap();
            otlp.emit(emit::Event::new(
                emit::Path::new_raw("e2e"),
                emit::Template::literal("span"),
                emit::Extent::range(ts..ts2),
                [("evt_kind", emit::Value::from_any(&emit::Kind::Span)), ("span_name", emit::Value::from("s")), ("id", emit::Value::from(id))],
            ))
        }
        _ => otlp.emit(emit::Event::new(
            emit::Path::new_raw("e2e"),
            emit::Template::literal("metric"),
            emit::Extent::point(ts),
            [
                ("evt_kind", emit::Value::from_any(&emit::Kind::Metric)),
                ("metric_name", emit::Value::from("m")),
                ("metric_agg", emit::Value::from("count")),
                ("metric_value", emit::Value::from(1i64)),
                ("id", emit::Value::from(id)),
            ],
        )),
    }
}

fn run_c07o(line: &str) -> String {
    (|| -> Option<String> {
        let s = Sexp::parse(line)?;
        let (tag, a) = s.as_tagged()?;
        if tag != "c07o" || a.len() != 3 {
            return None;
        }
        let sts = [st(&a[0])?, st(&a[1])?, st(&a[2])?];
        let c = collector();
        emit_otlp::verif::set_max_request_size(usize::MAX);
        emit_otlp::verif::set_request_timeout(LONG);
        // the first retry wait (700 ms) becomes 100 ms: long against the 30 ms flush, short for the run
        emit_otlp::verif::set_wait_divisor(7);
        c.reset(HashMap::new(), false);
        let sigs = [Signal::Logs, Signal::Traces, Signal::Metrics];
        let url = |i: usize| if sts[i] == St::Dead { c.dead_http_url(sigs[i]) } else { c.http_url(sigs[i]) };
        let mut b = emit_otlp::new().resource([("service.name", "e2e")]);
        if sts[0] != St::Absent {
            b = b.logs(emit_otlp::logs_proto(emit_otlp::http(url(0))));
        }
        if sts[1] != St::Absent {
            b = b.traces(emit_otlp::traces_proto(emit_otlp::http(url(1))));
        }
        if sts[2] != St::Absent {
            b = b.metrics(emit_otlp::metrics_proto(emit_otlp::http(url(2))));
        }
        let otlp = b.spawn();
        // phase 1: the `done` signals deliver and are flushed
        for i in 0..3 {
            if sts[i] == St::Done {
                emit_kind(&otlp, i, 1 + i as i64);
            }
        }
        if !otlp.blocking_flush(LONG) {
            return Some("harness-error:phase1-flush".into());
        }
        // a worker that has just finalised a batch still has `is_in_batch` set until its next (empty) hand-off,
        // and a zero-timeout flush in that window legitimately reports `false`; wait for quiescence first
        let t0 = std::time::Instant::now();
        while !otlp.blocking_flush(Duration::ZERO) {
            if t0.elapsed() > LONG {
                return Some("harness-error:not-quiescent".into());
            }
            std::thread::sleep(Duration::from_millis(1));
        }
        // phase 2: park the `held` signals' requests at the collector, let the `dead` ones fail into their back-off
        let mut scripts: HashMap<Signal, VecDeque<Resp>> = HashMap::new();
        let mut held = 0;
        for i in 0..3 {
            if sts[i] == St::Held {
                scripts.insert(sigs[i], VecDeque::from(vec![Resp::Hold]));
                held += 1;
            }
        }
        c.reset(scripts, false);
        for i in 0..3 {
            if matches!(sts[i], St::Held | St::Dead) {
                emit_kind(&otlp, i, 10 + i as i64);
            }
        }
        if !c.wait_holding(held, LONG) {
            c.release();
            return Some("harness-error:not-parked".into());
        }
        if sts.contains(&St::Dead) {
            // give the refused connection time to fail and the worker time to enter its retry wait
            std::thread::sleep(Duration::from_millis(15));
        }
        let f0 = otlp.blocking_flush(Duration::ZERO);
        let f30 = otlp.blocking_flush(Duration::from_millis(30));
        // phase 3: everything can finish (parked requests are answered, dead endpoints run out of retries)
        c.release();
        emit_otlp::verif::set_wait_divisor(100_000);
        let fin = otlp.blocking_flush(LONG);
        emit_otlp::verif::set_wait_divisor(1);
        drop(otlp);
        Some(format!("f0={} f30={} final={}", f0, f30, fin))
    })()
    .unwrap_or_else(|| "bad-case".into())
}

fn gen_c07o(rng: &mut Rng, tier: Tier, n: usize) -> Vec<String> {
    const ALL: [&str; 5] = ["absent", "idle", "done", "held", "dead"];
    let mut out = Vec::new();
    // the full 5^3 table in the thorough tier; in the quick tier every state pair of (first busy signal, later signal)
    for l in ALL {
        for t in ALL {
            for m in ALL {
                let dead = [l, t, m].iter().filter(|s| **s == "dead").count();
                let keep = tier == Tier::Thorough || dead == 0 || (dead == 1 && rng.chance(1, 3));
                if keep {
                    out.push(format!("(c07o {} {} {})", l, t, m));
                }
            }
        }
    }
    let _ = n;
    out
}

// ------------------------------------------------------------------ c09_otlp

/// (queue_length, queue_full_truncated) per signal, as reported by `Otlp::metric_source()`
fn sample(otlp: &emit_otlp::Otlp) -> [(Option<u64>, Option<u64>); 3] {
    use emit::metric::Source;
    let cells: [(std::cell::Cell<Option<u64>>, std::cell::Cell<Option<u64>>); 3] = Default::default();
    otlp.metric_source().sample_metrics(emit::metric::sampler::from_fn(|m| {
        let v = m.value().by_ref().cast::<u64>();
        let name = m.name().get().to_string();
        for (i, sig) in ["logs", "traces", "metrics"].iter().enumerate() {
            if name == format!("otlp_{}_queue_length", sig) {
                cells[i].0.set(v);
            }
            if name == format!("otlp_{}_queue_full_truncated", sig) {
                cells[i].1.set(v);
            }
        }
    }));
    [
        (cells[0].0.get(), cells[0].1.get()),
        (cells[1].0.get(), cells[1].1.get()),
        (cells[2].0.get(), cells[2].1.get()),
    ]
}

fn run_c09o(line: &str) -> String {
    (|| -> Option<String> {
        let s = Sexp::parse(line)?;
        let (tag, a) = s.as_tagged()?;
        if tag != "c09o" || a.len() != 2 {
            return None;
        }
        let n = a[0].as_usize()?;
        let sig = match a[1].as_atom()? {
            "logs" => 0usize,
            "traces" => 1,
            "metrics" => 2,
            _ => return None,
        };
        if n > 60_000 {
            return None;
        }
        let c = collector();
        emit_otlp::verif::set_max_request_size(usize::MAX);
        emit_otlp::verif::set_request_timeout(LONG);
        emit_otlp::verif::set_wait_divisor(1);
        // all three signals configured; every worker is parked on a primer request so that everything emitted
        // afterwards stays queued
        c.reset(HashMap::new(), true);
        let otlp = emit_otlp::new()
            .resource([("service.name", "e2e")])
            .logs(emit_otlp::logs_proto(emit_otlp::http(c.http_url(Signal::Logs))))
            .traces(emit_otlp::traces_proto(emit_otlp::http(c.http_url(Signal::Traces))))
            .metrics(emit_otlp::metrics_proto(emit_otlp::http(c.http_url(Signal::Metrics))))
            .spawn();
        for i in 0..3 {
            emit_kind(&otlp, i, -1 - i as i64);
        }
        if !c.wait_holding(3, LONG) {
            c.release();
            return Some("harness-error:not-parked".into());
        }
        let before = sample(&otlp);
        let mut max_len = 0;
        for i in 0..n {
            emit_kind(&otlp, sig, i as i64);
            if i % 997 == 0 || i + 1 == n {
                if let (Some(l), _) = sample(&otlp)[sig] {
                    max_len = max_len.max(l);
                }
            }
        }
        let after = sample(&otlp);
        c.release();
        let _ = otlp.blocking_flush(LONG);
        drop(otlp);
        let mut others_quiet = true;
        for i in 0..3 {
            if i != sig && (after[i].0? != 0 || after[i].1? != before[i].1?) {
                others_quiet = false;
            }
        }
        let out = format!("len={} trunc={} others-quiet={}", after[sig].0?, after[sig].1? - before[sig].1?, others_quiet);
        Some(if max_len <= 10_000 { out } else { format!("{}\tFAIL:queue_length={}-exceeds-capacity-10000", out, max_len) })
    })()
    .unwrap_or_else(|| "bad-case".into())
}

fn gen_c09o(rng: &mut Rng, tier: Tier, _n: usize) -> Vec<String> {
    let mut ns: Vec<u64> = vec![0, 1, 9_999, 10_000, 10_001, 10_002, 20_000, 20_001, 20_003];
    let extra = if tier == Tier::Thorough { 12 } else { 3 };
    for _ in 0..extra {
        ns.push(rng.range(10_001, 45_000));
    }
    const SIGS: [&str; 3] = ["logs", "traces", "metrics"];
    ns.iter().enumerate().map(|(i, n)| format!("(c09o {} {})", n, SIGS[i % 3])).collect()
}

// ------------------------------------------------------------------ c08_otlp: one flush budget across three channels

/// `(c08o T P L TR M)`: T = flush timeout in ms; each signal is `absent`, `ack` (answered at once), `hold` (its request
/// is parked at the collector and answered P % of T after the flush started) or `stall` (never answered).
/// One event per configured signal is in flight when `blocking_flush(T)` is called.
/// output: `flush=<bool> over=<bool>` — `over` = the call took longer than T + max(T/2, 400 ms).
fn run_c08o(line: &str) -> String {
    (|| -> Option<String> {
        let s = Sexp::parse(line)?;
        let (tag, a) = s.as_tagged()?;
        if tag != "c08o" || a.len() != 5 {
            return None;
        }
        // T = `max` (`Duration::MAX`) / `maxsecs` (`Duration::from_secs(u64::MAX)`): "wait for as long as it takes" — the
        // held requests are then answered P % of one second after the flush started, and nothing may stall
        let huge = match a[0].as_atom() {
            Some("max") => Some(Duration::MAX),
            Some("maxsecs") => Some(Duration::from_secs(u64::MAX)),
            _ => None,
        };
        let (t_ms, p) = (if huge.is_some() { 1000 } else { a[0].as_u64()? }, a[1].as_u64()?);
        if t_ms < 200 || t_ms > 5000 || p > 90 {
            return None;
        }
        if huge.is_some() && a[2..].iter().any(|x| x.as_atom() == Some("stall")) {
            return None;
        }
        let mut kinds = Vec::new();
        for x in &a[2..] {
            let k = x.as_atom()?;
            if !["absent", "ack", "hold", "stall"].contains(&k) {
                return None;
            }
            kinds.push(k.to_string());
        }
        let c = collector();
        emit_otlp::verif::set_max_request_size(usize::MAX);
        emit_otlp::verif::set_request_timeout(LONG);
        emit_otlp::verif::set_wait_divisor(1);
        let sigs = [Signal::Logs, Signal::Traces, Signal::Metrics];
        let mut scripts: HashMap<Signal, VecDeque<Resp>> = HashMap::new();
        let mut held = 0;
        for i in 0..3 {
            match kinds[i].as_str() {
                "hold" => {
                    scripts.insert(sigs[i], VecDeque::from(vec![Resp::Hold]));
                    held += 1;
                }
                "stall" => {
                    scripts.insert(sigs[i], VecDeque::from(vec![Resp::Stall]));
                }
                _ => {}
            }
        }
        c.reset(scripts, false);
        let mut b = emit_otlp::new().resource([("service.name", "e2e")]);
        if kinds[0] != "absent" {
            b = b.logs(emit_otlp::logs_proto(emit_otlp::http(c.http_url(sigs[0]))));
        }
        if kinds[1] != "absent" {
            b = b.traces(emit_otlp::traces_proto(emit_otlp::http(c.http_url(sigs[1]))));
        }
        if kinds[2] != "absent" {
            b = b.metrics(emit_otlp::metrics_proto(emit_otlp::http(c.http_url(sigs[2]))));
        }
        let otlp = b.spawn();
        for i in 0..3 {
            if kinds[i] != "absent" {
                emit_kind(&otlp, i, 20 + i as i64);
            }
        }
        if !c.wait_holding(held, LONG) {
            c.release();
            return Some("harness-error:not-parked".into());
        }
        // let the stalled / acknowledged requests reach the collector too
        std::thread::sleep(Duration::from_millis(60));
        let t = huge.unwrap_or(Duration::from_millis(t_ms));
        let release_after = Duration::from_millis(t_ms * p / 100);
        let flushed = std::thread::scope(|sc| {
            sc.spawn(|| {
                std::thread::sleep(release_after);
                c.release();
            });
            let t0 = std::time::Instant::now();
            let f = hcommon::catch(|| otlp.blocking_flush(t));
            (f, t0.elapsed())
        });
        let panicked = flushed.0.is_none();
        let flushed = (flushed.0.unwrap_or(false), flushed.1);
        // let everything finish: the stalled requests are cut off by a short request timeout
        c.release();
        emit_otlp::verif::set_request_timeout(Duration::from_millis(50));
        emit_otlp::verif::set_wait_divisor(100_000);
        c.kill_connections();
        let _ = otlp.blocking_flush(Duration::from_secs(3));
        emit_otlp::verif::set_wait_divisor(1);
        emit_otlp::verif::set_request_timeout(LONG);
        drop(otlp);
        let slack = std::cmp::max(t / 2, Duration::from_millis(400));
        let over = flushed.1 > t.saturating_add(slack);
        let out = format!("flush={} over={}", flushed.0, over);
        if panicked {
            return Some("panic\tFAIL:c08-blocking_flush-panicked".into());
        }
        Some(if over {
            format!("{}\tFAIL:blocking_flush({}ms)-returned-after-{}ms", out, t_ms, flushed.1.as_millis())
        } else {
            out
        })
    })()
    .unwrap_or_else(|| "bad-case".into())
}

fn gen_c08o(rng: &mut Rng, tier: Tier, n: usize) -> Vec<String> {
    // the slow-but-successful first signal, an answered one, and a stalled last one: the budget case
    let mut out = vec!["(c08o 1000 80 hold ack stall)".to_string(), "(c08o 800 50 hold hold ack)".to_string()];
    // "for as long as it takes"
    out.push("(c08o max 30 hold ack absent)".to_string());
    out.push("(c08o maxsecs 20 absent ack hold)".to_string());
    out.push("(c08o max 0 absent absent absent)".to_string());
    let extra = if tier == Tier::Thorough { n.max(20) } else { n.min(3) };
    for _ in 0..extra {
        let k = |rng: &mut Rng| *rng.pick(&["absent", "ack", "ack", "hold", "hold", "stall"]);
        out.push(format!("(c08o {} {} {} {} {})", 600 + 100 * rng.below(7), 20 + 10 * rng.below(7), k(rng), k(rng), k(rng)));
    }
    out
}
