//! Harness types with DERIVED `sval::Value` and `serde::Serialize` impls (the shapes users actually emit), and
//! standard collections. The image of each under value_bag/sval is tabulated in lean/EmitModel/Driver/C13.lean
//! (`fixture?`); the correspondence validates the table.

use std::collections::BTreeMap;

use emit::Value;
use hcommon::Sexp;

#[derive(Clone, Debug, PartialEq, serde::Serialize, sval_derive::Value)]
pub enum FxEnum {
    Unit,
    Newtype(i32),
    Tuple(i32, bool),
    Struct { a: i32, b: String },
}

#[derive(Clone, Debug, PartialEq, serde::Serialize, sval_derive::Value)]
pub struct FxStruct {
    pub id: u64,
    pub name: String,
    pub opt: Option<i64>,
    pub tags: Vec<String>,
    pub nested: FxEnum,
    pub pair: (i8, f64),
}

#[derive(Clone, Debug, PartialEq, serde::Serialize, sval_derive::Value)]
pub struct FxNewtype(pub u16);

#[derive(Clone, Debug, PartialEq, serde::Serialize, sval_derive::Value)]
pub struct FxUnit;

#[derive(Clone, Copy, Debug, PartialEq)]
pub enum Via {
    Sval,
    Serde,
}

#[derive(Clone, Debug, PartialEq)]
pub enum Fx {
    Enum(FxEnum),
    Struct(FxStruct),
    Newtype(FxNewtype),
    Unit(FxUnit),
    StrMap(BTreeMap<String, i64>),
    IntMap(BTreeMap<i32, String>),
    OptVec(Vec<Option<bool>>),
}

impl Fx {
    pub fn to_value(&self, via: Via) -> Value<'_> {
        macro_rules! cap {
            ($x:expr) => {
                match via {
                    Via::Sval => Value::from_sval($x),
                    Via::Serde => Value::from_serde($x),
                }
            };
        }
        match self {
            Fx::Enum(x) => cap!(x),
            Fx::Struct(x) => cap!(x),
            Fx::Newtype(x) => cap!(x),
            Fx::Unit(x) => cap!(x),
            Fx::StrMap(x) => cap!(x),
            Fx::IntMap(x) => cap!(x),
            Fx::OptVec(x) => cap!(x),
        }
    }

    /// `(NAME ARGS…)` without the leading `fx VIA` and the trailing Display text
    pub fn to_sexp_args(&self) -> Vec<Sexp> {
        let a = Sexp::atom;
        match self {
            Fx::Enum(FxEnum::Unit) => vec![a("unit-variant")],
            Fx::Enum(FxEnum::Newtype(n)) => vec![a("newtype-variant"), Sexp::num(n)],
            Fx::Enum(FxEnum::Tuple(n, b)) => vec![a("tuple-variant"), Sexp::num(n), Sexp::bool(*b)],
            Fx::Enum(FxEnum::Struct { a: n, b }) => vec![a("struct-variant"), Sexp::num(n), Sexp::str(b)],
            Fx::Struct(s) => {
                let FxEnum::Newtype(n) = s.nested else { unreachable!() };
                vec![
                    a("struct"),
                    Sexp::num(s.id),
                    Sexp::str(&s.name),
                    s.opt.map(Sexp::num).unwrap_or(a("none")),
                    Sexp::list(s.tags.iter().map(|t| Sexp::str(t)).collect()),
                    Sexp::num(n),
                    Sexp::num(s.pair.0),
                ]
            }
            Fx::Newtype(x) => vec![a("newtype"), Sexp::num(x.0)],
            Fx::Unit(_) => vec![a("unit-struct")],
            Fx::StrMap(m) => {
                let mut v = vec![a("strmap")];
                v.extend(m.iter().map(|(k, n)| Sexp::list(vec![Sexp::str(k), Sexp::num(n)])));
                v
            }
            Fx::IntMap(m) => {
                let mut v = vec![a("intmap")];
                v.extend(m.iter().map(|(k, s)| Sexp::list(vec![Sexp::num(k), Sexp::str(s)])));
                v
            }
            Fx::OptVec(xs) => {
                let mut v = vec![a("optvec")];
                v.extend(xs.iter().map(|x| x.map(Sexp::bool).unwrap_or(a("none"))));
                v
            }
        }
    }

    pub fn parse(args: &[Sexp]) -> Option<Fx> {
        let (name, rest) = args.split_first()?;
        let i32_ = |s: &Sexp| s.as_i64().and_then(|n| i32::try_from(n).ok());
        Some(match (name.as_atom()?, rest.len()) {
            ("unit-variant", 0) => Fx::Enum(FxEnum::Unit),
            ("newtype-variant", 1) => Fx::Enum(FxEnum::Newtype(i32_(&rest[0])?)),
            ("tuple-variant", 2) => Fx::Enum(FxEnum::Tuple(i32_(&rest[0])?, rest[1].as_bool()?)),
            ("struct-variant", 2) => Fx::Enum(FxEnum::Struct { a: i32_(&rest[0])?, b: rest[1].as_string()? }),
            ("struct", 6) => Fx::Struct(FxStruct {
                id: rest[0].as_u64()?,
                name: rest[1].as_string()?,
                opt: if rest[2].as_atom() == Some("none") { None } else { Some(rest[2].as_i64()?) },
                tags: rest[3].as_list()?.iter().map(|t| t.as_string()).collect::<Option<_>>()?,
                nested: FxEnum::Newtype(i32_(&rest[4])?),
                pair: (i8::try_from(rest[5].as_i64()?).ok()?, 1.5),
            }),
            ("newtype", 1) => Fx::Newtype(FxNewtype(u16::try_from(rest[0].as_u64()?).ok()?)),
            ("unit-struct", 0) => Fx::Unit(FxUnit),
            ("strmap", _) => {
                let mut m = BTreeMap::new();
                let mut last: Option<String> = None;
                for kv in rest {
                    let l = kv.as_list()?;
                    if l.len() != 2 {
                        return None;
                    }
                    let k = l[0].as_string()?;
                    // the case lists the entries in the map's own (sorted, duplicate-free) order
                    if let Some(p) = &last {
                        if *p >= k {
                            return None;
                        }
                    }
                    last = Some(k.clone());
                    m.insert(k, l[1].as_i64()?);
                }
                Fx::StrMap(m)
            }
            ("intmap", _) => {
                let mut m = BTreeMap::new();
                let mut last: Option<i32> = None;
                for kv in rest {
                    let l = kv.as_list()?;
                    if l.len() != 2 {
                        return None;
                    }
                    let k = i32_(&l[0])?;
                    if let Some(p) = last {
                        if p >= k {
                            return None;
                        }
                    }
                    last = Some(k);
                    m.insert(k, l[1].as_string()?);
                }
                Fx::IntMap(m)
            }
            ("optvec", _) => Fx::OptVec(
                rest.iter()
                    .map(|x| if x.as_atom() == Some("none") { Some(None) } else { x.as_bool().map(Some) })
                    .collect::<Option<_>>()?,
            ),
            _ => return None,
        })
    }
}
