//! C13 — every sink encodes every event faithfully and never panics the caller.
//!
//!   c13_file : the REAL rolling-file emitter (`emit_file::set(path).spawn()`, default JSON writer) writing into
//!              a fresh temporary directory; the bytes that reach the file are the observable.
//!   c13_otlp : the REAL `emit_otlp::Otlp` per (signal, encoding) posting to a local capturing collector; the
//!              protobuf body is decoded with the repo's generated prost types, the JSON body by a strict
//!              reading of the proto3 JSON mapping; both are canonicalised and must denote the same record.
//!   c13_term : the REAL terminal writer (`emit_term`, through the `verif::write_event_no_color` hook, zone pinned
//!              to UTC); the printed bytes are the observable.
//! Case formats: lean/EmitModel/Driver/C13.lean.

mod case;
mod fixtures;
mod gen;
mod json;
mod otlp;
mod server;

use std::sync::atomic::{AtomicU64, Ordering};
use std::time::Duration;

use emit::Emitter;
use hcommon::{Sexp, Stream};

use case::{EventD, ExtentD};
use otlp::{Encoding, Sent, Signal};

pub fn streams() -> Vec<Stream> {
    vec![
        Stream { name: "c13_file", gen: gen::gen_file, run: run_file },
        Stream { name: "c13_otlp", gen: gen::gen_otlp, run: run_otlp },
        // the reproducers of the KNOWN FINDINGS of the OTLP encoders (corpus only, nothing generated): kept in a
        // stream of their own because `check` reports at most five failure groups per stream — in the main
        // stream they would use up the slots a new violation needs
        Stream { name: "c13_otlp_kf", gen: |_, _, _| Vec::new(), run: run_otlp },
        Stream { name: "c13_term", gen: gen::gen_term, run: run_term },
        // authoring aid, not a checked stream: re-prints a hand-written case line in canonical form
        Stream { name: "c13_mk", gen: |_, _, _| Vec::new(), run: run_mk },
    ]
}

fn run_mk(line: &str) -> String {
    case::LOOSE.store(true, Ordering::Relaxed);
    let r = (|| {
        let s = Sexp::parse(line)?;
        let (tag, a) = s.as_tagged()?;
        let (head, ev) = a.split_at(a.len().checked_sub(1)?);
        let d = EventD::parse(&ev[0])?;
        let mut out = vec![Sexp::atom(tag)];
        out.extend(head.iter().cloned());
        out.push(d.to_sexp()?);
        Some(Sexp::list(out).to_string())
    })();
    case::LOOSE.store(false, Ordering::Relaxed);
    r.unwrap_or_else(|| "bad-case".into())
}

// ------------------------------------------------------------------------------------------ c13_file

fn scratch_dir() -> std::path::PathBuf {
    static N: AtomicU64 = AtomicU64::new(0);
    // the worker fsyncs every batch; a memory-backed directory keeps that cheap when the disk is busy
    let shm = std::path::Path::new("/dev/shm");
    let base = if shm.is_dir() { shm.to_path_buf() } else { std::env::temp_dir() };
    base.join(format!("emit-verif-c13-{}-{}", std::process::id(), N.fetch_add(1, Ordering::Relaxed)))
}

/// Run one event through a fresh file set and return everything that was written.
fn file_bytes(d: &EventD) -> Option<Result<Vec<u8>, String>> {
    let dir = scratch_dir();
    let _ = std::fs::create_dir_all(&dir);
    let set = emit_file::set(dir.join("log.txt")).spawn();
    let r = case::with_event(d, |evt| hcommon::catch(|| set.emit(evt)).is_some());
    let out = match r {
        None => None,
        Some(false) => Some(Err("panic".to_string())),
        Some(true) => {
            if !set.blocking_flush(Duration::from_secs(10)) {
                Some(Err("flush-timeout".to_string()))
            } else {
                let mut names: Vec<_> = std::fs::read_dir(&dir)
                    .map(|rd| rd.filter_map(|e| e.ok().map(|e| e.path())).collect())
                    .unwrap_or_default();
                names.sort();
                let mut bytes = Vec::new();
                for p in names {
                    bytes.extend(std::fs::read(&p).unwrap_or_default());
                }
                Some(Ok(bytes))
            }
        }
    };
    drop(set);
    let _ = std::fs::remove_dir_all(&dir);
    out
}

const FIXED: [&str; 5] = ["ts_start", "ts", "mdl", "msg", "tpl"];

/// The property evaluated on the written bytes alone.
fn file_oracle(d: &EventD, bytes: &[u8]) -> Option<String> {
    if !d.float_tokens_ok() {
        return Some("float-token-not-a-json-number".into());
    }
    if bytes.is_empty() {
        return None; // discarded (the model says when); nothing was written, nothing is malformed
    }
    if bytes.last() != Some(&b'\n') {
        return Some("line-not-terminated".into());
    }
    let line = &bytes[..bytes.len() - 1];
    if line.contains(&b'\n') {
        return Some("raw-newline-inside-record".into());
    }
    let j = match json::parse(line) {
        Ok(j) => j,
        Err(e) => return Some(format!("line-is-not-json:{}", e.replace(' ', "-"))),
    };
    let json::J::Obj(ms) = j else { return Some("line-is-not-an-object".into()) };
    let count = |k: &str| ms.iter().filter(|(m, _)| m == k).count();
    for k in ["mdl", "msg", "tpl"] {
        if count(k) == 0 {
            return Some(format!("missing-{}", k));
        }
    }
    let (want_ts, want_start) = match d.extent {
        ExtentD::None => (false, false),
        ExtentD::Point(_) => (true, false),
        ExtentD::Range(..) => (true, true),
    };
    if want_ts && count("ts") == 0 {
        return Some("missing-ts".into());
    }
    if want_start && count("ts_start") == 0 {
        return Some("missing-ts_start".into());
    }
    for (k, _) in &ms {
        if count(k) > 1 {
            return Some(format!("duplicate-member:{}", Sexp::str(k)));
        }
    }
    for k in d.distinct_keys() {
        if !FIXED.contains(&k) && count(k) != 1 {
            return Some(format!("property-not-exactly-once:{}", Sexp::str(k)));
        }
    }
    None
}

fn run_file(line: &str) -> String {
    let Some(d) = parse_case(line, "file", 1).and_then(|a| EventD::parse(&a[0])) else {
        return "bad-case".into();
    };
    match file_bytes(&d) {
        None => "bad-case".into(),
        Some(Err(e)) => format!("{}\tFAIL:{}-on-the-emitting-thread", e, e),
        Some(Ok(bytes)) => {
            let out = if bytes.is_empty() {
                "discarded".to_string()
            } else {
                format!("(line {})", Sexp::bytes(&bytes))
            };
            match file_oracle(&d, &bytes) {
                Some(f) => format!("{}\tFAIL:{}", out, f),
                None => out,
            }
        }
    }
}

fn parse_case(line: &str, tag: &str, n: usize) -> Option<Vec<Sexp>> {
    let s = Sexp::parse(line)?;
    let (t, a) = s.as_tagged()?;
    if t != tag || a.len() != n {
        return None;
    }
    Some(a.to_vec())
}

// ------------------------------------------------------------------------------------------ c13_otlp

/// keys the signal lifts out of the attributes
fn lifted(signal: Signal) -> &'static [&'static str] {
    match signal {
        Signal::Logs => &["lvl", "trace_id", "span_id", "err"],
        Signal::Traces => &["lvl", "trace_id", "span_id", "span_parent", "err", "evt_kind", "span_name"],
        Signal::Metrics => &[
            "metric_name",
            "metric_value",
            "metric_agg",
            "metric_unit",
            "trace_id",
            "span_id",
            "span_parent",
            "evt_kind",
        ],
    }
}

fn fail(out: &str, why: String) -> String {
    format!("{}\tFAIL:{}", out, why.replace(['\t', '\n', ' '], "-"))
}

/// The property evaluated on one decoded record alone.
fn record_oracle(d: &EventD, signal: Signal, pc: &otlp::Canon) -> Option<String> {
    let mut keys = pc.attr_keys.clone();
    keys.sort();
    if let Some(w) = keys.windows(2).find(|w| w[0] == w[1]) {
        return Some(format!("duplicate-attribute-key:{}", Sexp::str(&w[0])));
    }
    for k in d.distinct_keys() {
        if !lifted(signal).contains(&k) && !pc.attr_keys.iter().any(|a| a == k) {
            return Some(format!("property-missing-from-attributes:{}", Sexp::str(k)));
        }
    }
    // timestamps must fit the 64-bit nanosecond fields (F6)
    let stamps: Vec<case::TsD> = match (d.extent, signal) {
        (ExtentD::None, _) => vec![],
        (ExtentD::Point(t), _) => vec![t],
        (ExtentD::Range(_, b), Signal::Logs) => vec![b],
        (ExtentD::Range(a, b), _) => vec![a, b],
    };
    if stamps.iter().any(|t| t.unix_nanos() > u64::MAX as u128) {
        return Some("timestamp-does-not-fit-the-64-bit-nanosecond-field".into());
    }
    None
}

fn run_otlp(line: &str) -> String {
    if let Some(a) = parse_case(line, "otlp-re", 3) {
        return run_otlp_re(&a);
    }
    let Some(a) = parse_case(line, "otlp", 2) else { return "bad-case".into() };
    let Some(signal) = a[0].as_atom().and_then(Signal::parse) else { return "bad-case".into() };
    let Some(d) = EventD::parse(&a[1]) else { return "bad-case".into() };
    let sent = case::with_event(&d, |evt| {
        (otlp::send(signal, Encoding::Proto, evt), otlp::send(signal, Encoding::Json, evt))
    });
    let Some((p, j)) = sent else { return "bad-case".into() };
    match (p, j) {
        // the model predicts the panic (it follows the code), the property forbids it
        (Sent::Panic, Sent::Panic) => "panic\tFAIL:panic-on-the-emitting-thread".into(),
        (Sent::Nothing, Sent::Nothing) => "none".into(),
        (Sent::Body(pb), Sent::Body(jb)) => {
            let pc = match signal {
                Signal::Logs => otlp::logs_proto(&pb),
                Signal::Traces => otlp::traces_proto(&pb),
                Signal::Metrics => otlp::metrics_proto(&pb),
            };
            let pc = match pc {
                Ok(c) => c,
                Err(e) => return fail("undecodable", format!("protobuf:{}", e)),
            };
            let jc = match signal {
                Signal::Logs => otlp::logs_json(&jb),
                Signal::Traces => otlp::traces_json(&jb),
                Signal::Metrics => otlp::metrics_json(&jb),
            };
            let jc = match jc {
                Ok(c) => c,
                Err(e) => return fail(&pc.text, format!("json-schema:{}", e)),
            };
            if jc.text != pc.text {
                return fail(&pc.text, json_differs(&pc.text, &jc.text));
            }
            // the property on the decoded record alone
            match record_oracle(&d, signal, &pc) {
                Some(why) => fail(&pc.text, why),
                None => pc.text,
            }
        }
        (p, j) => {
            let show = |s: &Sent| match s {
                Sent::Panic => "panic".to_string(),
                Sent::Nothing => "none".to_string(),
                Sent::Body(_) => "body".to_string(),
                Sent::Broken(e) => e.clone(),
            };
            fail("inconsistent", format!("protobuf={},json={}", show(&p), show(&j)))
        }
    }
}

/// name the first difference first (so that one defect gives one failure group), then the record
fn json_differs(pc: &str, jc: &str) -> String {
    let (pt, jt): (Vec<&str>, Vec<&str>) = (pc.split(' ').collect(), jc.split(' ').collect());
    let i = pt.iter().zip(jt.iter()).position(|(a, b)| a != b).unwrap_or(pt.len().min(jt.len()));
    let tok = |t: &[&str]| t.get(i).map(|x| x.trim_matches(|c| c == '(' || c == ')').to_string()).unwrap_or_default();
    format!("json-denotes-another-record:protobuf={},json={}:{}", tok(&pt), tok(&jt), jc)
}

/// keys a `(reemit …)` value may not sit under in an `otlp-re` case: the ones some signal lifts out of the attributes
/// (whether and how often a lifted value is formatted is the encoder's business; an ordinary attribute is formatted
/// at least once whenever its event's attributes are streamed). The same list is in lean/EmitModel/Driver/C13.lean.
const RE_RESERVED: [&str; 13] = [
    "lvl",
    "trace_id",
    "span_id",
    "span_parent",
    "err",
    "evt_kind",
    "span_name",
    "metric_name",
    "metric_agg",
    "metric_value",
    "metric_unit",
    "exception.message",
    "exception.stacktrace",
];

/// `(otlp-re SIGNAL OUTER INNER)`: OUTER is emitted by the caller; every `(reemit xTEXT)` value of OUTER emits INNER
/// through the SAME emitter, on the emitting thread, each time the emitter formats it (re-entrancy of `Otlp::emit`).
/// Output `(re OUTER-RECORD|none INNER-RECORD|none)` — INNER-RECORD is the one record all nested emits produced.
fn run_otlp_re(a: &[Sexp]) -> String {
    let Some(signal) = a[0].as_atom().and_then(Signal::parse) else { return "bad-case".into() };
    let (Some(outer), Some(inner)) = (EventD::parse(&a[1]), EventD::parse(&a[2])) else { return "bad-case".into() };
    // records are told apart by their scope
    if outer.mdl == inner.mdl {
        return "bad-case".into();
    }
    for (k, v) in &outer.props {
        if matches!(v, case::Val::Reemit(_)) && (RE_RESERVED.contains(&k.as_str()) || outer.props.iter().filter(|(k2, _)| k2 == k).count() != 1) {
            return "bad-case".into();
        }
    }
    let name = |enc: Encoding| if enc == Encoding::Proto { "protobuf" } else { "json" };
    let mut sides: Vec<(String, Option<otlp::Canon>, Option<otlp::Canon>, u32)> = Vec::new();
    let mut panics: Vec<&str> = Vec::new();
    for enc in [Encoding::Proto, Encoding::Json] {
        let Some(sent) = otlp::send_re(signal, enc, &outer, &inner) else { return "bad-case".into() };
        match sent {
            otlp::SentRe::Panic => panics.push(name(enc)),
            otlp::SentRe::Broken(e) => return fail("inconsistent", format!("{}:{}", name(enc), e)),
            otlp::SentRe::Bodies(bodies, fired) => {
                let mut recs = Vec::new();
                for b in &bodies {
                    match otlp::canon_all(signal, enc, b) {
                        Ok(v) => recs.extend(v),
                        Err(e) => return fail("undecodable", format!("{}:{}", name(enc), e)),
                    }
                }
                let (mut o, mut i): (Vec<otlp::Canon>, Vec<otlp::Canon>) = (Vec::new(), Vec::new());
                for r in recs {
                    if r.scope == outer.mdl {
                        o.push(r);
                    } else if r.scope == inner.mdl {
                        i.push(r);
                    } else {
                        return fail("inconsistent", format!("{}:record-under-foreign-scope:{}", name(enc), Sexp::str(&r.scope)));
                    }
                }
                if o.len() > 1 {
                    return fail("inconsistent", format!("{}:outer-event-exported-{}-times", name(enc), o.len()));
                }
                if i.windows(2).any(|w| w[0].text != w[1].text) {
                    return fail("inconsistent", format!("{}:nested-emits-of-one-event-gave-different-records", name(enc)));
                }
                // every nested emit is an emit of its own: all of them are exported, or (declined) none
                if !i.is_empty() && i.len() != fired as usize {
                    return fail("inconsistent", format!("{}:nested-event-emitted-{}-times-exported-{}-times", name(enc), fired, i.len()));
                }
                let text = format!(
                    "(re {} {})",
                    o.first().map(|c| c.text.as_str()).unwrap_or("none"),
                    i.first().map(|c| c.text.as_str()).unwrap_or("none")
                );
                sides.push((text, o.pop(), i.pop(), fired));
            }
        }
    }
    if !panics.is_empty() {
        // "accepts it without panicking on the caller's thread" - also when the value being formatted emits
        return format!("panic\tFAIL:panic-on-the-emitting-thread({})", panics.join(","));
    }
    let (pt, po, pi, fired) = sides.remove(0);
    let (jt, _, _, _) = sides.remove(0);
    if pt != jt {
        return fail(&pt, json_differs(&pt, &jt));
    }
    if let Some(why) = po.as_ref().and_then(|c| record_oracle(&outer, signal, c)) {
        return fail(&pt, why);
    }
    if let Some(why) = pi.as_ref().and_then(|c| record_oracle(&inner, signal, c)) {
        return fail(&pt, format!("nested:{}", why));
    }
    // the logs signal takes everything: the event itself and whatever its formatting code emitted
    if signal == Signal::Logs && (po.is_none() || (fired > 0 && pi.is_none())) {
        return fail(&pt, "event-lost-by-the-logs-signal".into());
    }
    pt
}

// ------------------------------------------------------------------------------------------ c13_term

fn run_term(line: &str) -> String {
    // the wall-clock part of the output is local time: pin the zone
    static TZ: std::sync::Once = std::sync::Once::new();
    TZ.call_once(|| std::env::set_var("TZ", "UTC"));
    let Some(d) = parse_case(line, "term", 1).and_then(|a| EventD::parse(&a[0])) else {
        return "bad-case".into();
    };
    let r = case::with_event(&d, |evt| hcommon::catch(|| emit_term::verif::write_event_no_color(evt.by_ref())));
    match r {
        None => "bad-case".into(),
        Some(None) => "panic\tFAIL:panic-on-the-emitting-thread".into(),
        Some(Some(bytes)) => {
            let out = format!("(out {})", Sexp::bytes(&bytes));
            // the property on the output alone: the literal text of the template is printed
            let text = String::from_utf8_lossy(&bytes);
            for p in &d.tpl {
                if let case::PartD::Text(t) = p {
                    if !text.contains(t.as_str()) {
                        return format!("{}\tFAIL:template-text-missing-from-output", out);
                    }
                }
            }
            out
        }
    }
}
