//! A strict RFC 8259 parser that keeps object members in order (so duplicate members are visible) and
//! numbers as their source token (so 64-bit integers and float tokens are exact).

#[derive(Clone, Debug, PartialEq)]
pub enum J {
    Null,
    Bool(bool),
    Num(String),
    Str(String),
    Arr(Vec<J>),
    Obj(Vec<(String, J)>),
}

pub fn parse(bytes: &[u8]) -> Result<J, String> {
    let text = std::str::from_utf8(bytes).map_err(|_| "invalid utf-8".to_string())?;
    let mut p = P { b: text.as_bytes(), i: 0 };
    p.ws();
    let v = p.value(0)?;
    p.ws();
    if p.i != p.b.len() {
        return Err(format!("trailing characters at {}", p.i));
    }
    Ok(v)
}

struct P<'a> {
    b: &'a [u8],
    i: usize,
}

impl<'a> P<'a> {
    fn ws(&mut self) {
        while self.i < self.b.len() && matches!(self.b[self.i], b' ' | b'\t' | b'\n' | b'\r') {
            self.i += 1;
        }
    }
    fn peek(&self) -> Option<u8> {
        self.b.get(self.i).copied()
    }
    fn lit(&mut self, s: &str, v: J) -> Result<J, String> {
        if self.b[self.i..].starts_with(s.as_bytes()) {
            self.i += s.len();
            Ok(v)
        } else {
            Err(format!("bad literal at {}", self.i))
        }
    }
    fn value(&mut self, depth: usize) -> Result<J, String> {
        if depth > 200 {
            return Err("too deep".into());
        }
        match self.peek() {
            None => Err("unexpected end".into()),
            Some(b'n') => self.lit("null", J::Null),
            Some(b't') => self.lit("true", J::Bool(true)),
            Some(b'f') => self.lit("false", J::Bool(false)),
            Some(b'"') => Ok(J::Str(self.string()?)),
            Some(b'[') => {
                self.i += 1;
                let mut xs = Vec::new();
                self.ws();
                if self.peek() == Some(b']') {
                    self.i += 1;
                    return Ok(J::Arr(xs));
                }
                loop {
                    self.ws();
                    xs.push(self.value(depth + 1)?);
                    self.ws();
                    match self.peek() {
                        Some(b',') => self.i += 1,
                        Some(b']') => {
                            self.i += 1;
                            return Ok(J::Arr(xs));
                        }
                        _ => return Err(format!("expected , or ] at {}", self.i)),
                    }
                }
            }
            Some(b'{') => {
                self.i += 1;
                let mut ms = Vec::new();
                self.ws();
                if self.peek() == Some(b'}') {
                    self.i += 1;
                    return Ok(J::Obj(ms));
                }
                loop {
                    self.ws();
                    if self.peek() != Some(b'"') {
                        return Err(format!("expected member name at {}", self.i));
                    }
                    let k = self.string()?;
                    self.ws();
                    if self.peek() != Some(b':') {
                        return Err(format!("expected : at {}", self.i));
                    }
                    self.i += 1;
                    self.ws();
                    let v = self.value(depth + 1)?;
                    ms.push((k, v));
                    self.ws();
                    match self.peek() {
                        Some(b',') => self.i += 1,
                        Some(b'}') => {
                            self.i += 1;
                            return Ok(J::Obj(ms));
                        }
                        _ => return Err(format!("expected , or }} at {}", self.i)),
                    }
                }
            }
            Some(c) if c == b'-' || c.is_ascii_digit() => {
                let s = self.i;
                while self.i < self.b.len()
                    && matches!(self.b[self.i], b'-' | b'+' | b'.' | b'e' | b'E' | b'0'..=b'9')
                {
                    self.i += 1;
                }
                let t = std::str::from_utf8(&self.b[s..self.i]).unwrap().to_string();
                if super::case::is_json_number(&t) {
                    Ok(J::Num(t))
                } else {
                    Err(format!("bad number {:?} at {}", t, s))
                }
            }
            Some(c) => Err(format!("unexpected byte {:#x} at {}", c, self.i)),
        }
    }
    fn hex4(&mut self) -> Result<u32, String> {
        if self.i + 4 > self.b.len() {
            return Err("short \\u escape".into());
        }
        let s = std::str::from_utf8(&self.b[self.i..self.i + 4]).map_err(|_| "bad \\u escape".to_string())?;
        if !s.bytes().all(|b| b.is_ascii_hexdigit()) {
            return Err("bad \\u escape".into());
        }
        self.i += 4;
        u32::from_str_radix(s, 16).map_err(|_| "bad \\u escape".to_string())
    }
    fn string(&mut self) -> Result<String, String> {
        // at the opening quote
        self.i += 1;
        let mut out: Vec<u8> = Vec::new();
        loop {
            let Some(c) = self.peek() else { return Err("unterminated string".into()) };
            self.i += 1;
            match c {
                b'"' => break,
                b'\\' => {
                    let Some(e) = self.peek() else { return Err("unterminated escape".into()) };
                    self.i += 1;
                    match e {
                        b'"' => out.push(b'"'),
                        b'\\' => out.push(b'\\'),
                        b'/' => out.push(b'/'),
                        b'b' => out.push(8),
                        b'f' => out.push(12),
                        b'n' => out.push(b'\n'),
                        b'r' => out.push(b'\r'),
                        b't' => out.push(b'\t'),
                        b'u' => {
                            let mut cp = self.hex4()?;
                            if (0xD800..0xDC00).contains(&cp) {
                                if self.b[self.i..].starts_with(b"\\u") {
                                    self.i += 2;
                                    let lo = self.hex4()?;
                                    if !(0xDC00..0xE000).contains(&lo) {
                                        return Err("bad surrogate pair".into());
                                    }
                                    cp = 0x10000 + ((cp - 0xD800) << 10) + (lo - 0xDC00);
                                } else {
                                    return Err("lone surrogate".into());
                                }
                            } else if (0xDC00..0xE000).contains(&cp) {
                                return Err("lone surrogate".into());
                            }
                            let ch = char::from_u32(cp).ok_or("bad code point")?;
                            let mut buf = [0u8; 4];
                            out.extend_from_slice(ch.encode_utf8(&mut buf).as_bytes());
                        }
                        _ => return Err(format!("bad escape \\{}", e as char)),
                    }
                }
                c if c < 0x20 => return Err(format!("raw control character {:#x} in string", c)),
                c => out.push(c),
            }
        }
        String::from_utf8(out).map_err(|_| "invalid utf-8 in string".to_string())
    }
}
