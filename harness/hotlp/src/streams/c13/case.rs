//! Case descriptions of the C13 streams: events and property values, their S-expression form (grammar in
//! lean/EmitModel/Driver/C13.lean) and their realisation as REAL `emit` values.
//!
//! A value is either a simple capture (`From<T>`, `from_display`, `from_debug`, `capture_error`, typed
//! `Level`/`TraceId`/`SpanId`) or a tree streamed through `sval` (`Value::from_sval(&Tree)`), whose
//! `sval::Value` impl makes exactly the stream calls the derive macro / the std impls make for the shape.

use std::fmt;
use std::ops::ControlFlow;
use std::time::Duration;

use emit::{Props, Str, Value};
use hcommon::Sexp;

pub use super::fixtures::{Fx, Via};

// ------------------------------------------------------------------------------------------ integers

#[derive(Clone, Copy, Debug, PartialEq, Eq)]
pub enum Ty {
    U8,
    U16,
    U32,
    U64,
    U128,
    Usize,
    I8,
    I16,
    I32,
    I64,
    I128,
    Isize,
}

pub const TYS: [Ty; 12] = [
    Ty::U8,
    Ty::U16,
    Ty::U32,
    Ty::U64,
    Ty::U128,
    Ty::Usize,
    Ty::I8,
    Ty::I16,
    Ty::I32,
    Ty::I64,
    Ty::I128,
    Ty::Isize,
];

impl Ty {
    pub fn name(self) -> &'static str {
        match self {
            Ty::U8 => "u8",
            Ty::U16 => "u16",
            Ty::U32 => "u32",
            Ty::U64 => "u64",
            Ty::U128 => "u128",
            Ty::Usize => "usize",
            Ty::I8 => "i8",
            Ty::I16 => "i16",
            Ty::I32 => "i32",
            Ty::I64 => "i64",
            Ty::I128 => "i128",
            Ty::Isize => "isize",
        }
    }
    pub fn parse(s: &str) -> Option<Ty> {
        TYS.iter().copied().find(|t| t.name() == s)
    }
    pub fn signed(self) -> bool {
        matches!(self, Ty::I8 | Ty::I16 | Ty::I32 | Ty::I64 | Ty::I128 | Ty::Isize)
    }
    pub fn bits(self) -> u32 {
        match self {
            Ty::U8 | Ty::I8 => 8,
            Ty::U16 | Ty::I16 => 16,
            Ty::U32 | Ty::I32 => 32,
            Ty::U64 | Ty::I64 | Ty::Usize | Ty::Isize => 64,
            Ty::U128 | Ty::I128 => 128,
        }
    }
}

/// An integer of a given Rust type; `neg`/`mag` hold the value (−mag when `neg`).
#[derive(Clone, Copy, Debug, PartialEq, Eq)]
pub struct Int {
    pub ty: Ty,
    pub neg: bool,
    pub mag: u128,
}

impl Int {
    pub fn unsigned(ty: Ty, v: u128) -> Int {
        Int { ty, neg: false, mag: v }
    }
    pub fn signed(ty: Ty, v: i128) -> Int {
        Int { ty, neg: v < 0, mag: v.unsigned_abs() }
    }
    pub fn in_range(&self) -> bool {
        let b = self.ty.bits();
        if self.ty.signed() {
            if self.neg {
                self.mag <= 1u128 << (b - 1)
            } else {
                self.mag < 1u128 << (b - 1)
            }
        } else {
            !self.neg && (b == 128 || self.mag < 1u128 << b)
        }
    }
    fn i(&self) -> i128 {
        if self.neg {
            (self.mag as i128).wrapping_neg()
        } else {
            self.mag as i128
        }
    }
    pub fn show(&self) -> String {
        if self.neg && self.mag != 0 {
            format!("-{}", self.mag)
        } else {
            format!("{}", self.mag)
        }
    }
    pub fn to_sexp(&self) -> Sexp {
        Sexp::tagged("int", vec![Sexp::atom(self.ty.name()), Sexp::atom(self.show())])
    }
    pub fn parse(ty: &Sexp, n: &Sexp) -> Option<Int> {
        let ty = Ty::parse(ty.as_atom()?)?;
        let a = n.as_atom()?;
        let (neg, digits) = match a.strip_prefix('-') {
            Some(d) => (true, d),
            None => (false, a),
        };
        if digits.is_empty() || !digits.bytes().all(|b| b.is_ascii_digit()) {
            return None;
        }
        let mag: u128 = digits.parse().ok()?;
        let v = Int { ty, neg: neg && mag != 0, mag };
        if v.in_range() {
            Some(v)
        } else {
            None
        }
    }
    pub fn to_value(&self) -> Value<'static> {
        match self.ty {
            Ty::U8 => Value::from(self.mag as u8),
            Ty::U16 => Value::from(self.mag as u16),
            Ty::U32 => Value::from(self.mag as u32),
            Ty::U64 => Value::from(self.mag as u64),
            Ty::U128 => Value::from(self.mag),
            Ty::Usize => Value::from(self.mag as usize),
            Ty::I8 => Value::from(self.i() as i8),
            Ty::I16 => Value::from(self.i() as i16),
            Ty::I32 => Value::from(self.i() as i32),
            Ty::I64 => Value::from(self.i() as i64),
            Ty::I128 => Value::from(self.i()),
            Ty::Isize => Value::from(self.i() as isize),
        }
    }
    fn stream<'sval, S: sval::Stream<'sval> + ?Sized>(&self, stream: &mut S) -> sval::Result {
        match self.ty {
            Ty::U8 => stream.u8(self.mag as u8),
            Ty::U16 => stream.u16(self.mag as u16),
            Ty::U32 => stream.u32(self.mag as u32),
            Ty::U64 => stream.u64(self.mag as u64),
            Ty::U128 => stream.u128(self.mag),
            Ty::Usize => stream.u64(self.mag as u64), // sval has no usize impl
            Ty::I8 => stream.i8(self.i() as i8),
            Ty::I16 => stream.i16(self.i() as i16),
            Ty::I32 => stream.i32(self.i() as i32),
            Ty::I64 => stream.i64(self.i() as i64),
            Ty::I128 => stream.i128(self.i()),
            Ty::Isize => stream.i64(self.i() as i64),
        }
    }
}

// ------------------------------------------------------------------------------------------ loose parsing

/// Authoring aid (stream `c13_mk`): when set, the positions that must carry the output of a third-party
/// formatter (float tokens, Display texts, RFC 3339 texts) are not checked while parsing, so a hand-written
/// line with placeholders can be re-printed in canonical form. Never set by `run` of the checked streams.
pub static LOOSE: std::sync::atomic::AtomicBool = std::sync::atomic::AtomicBool::new(false);
fn loose() -> bool {
    LOOSE.load(std::sync::atomic::Ordering::Relaxed)
}

// ------------------------------------------------------------------------------------------ floats

/// the token `sval_json` (ryu) prints for a finite f64; `null` for non-finite values
pub fn json_tok_f64(x: f64) -> String {
    sval_json::stream_to_string(x).unwrap_or_default()
}
pub fn json_tok_f32(x: f32) -> String {
    sval_json::stream_to_string(x).unwrap_or_default()
}
pub fn f64_to_sexp(x: f64) -> Sexp {
    Sexp::tagged(
        "f64",
        vec![Sexp::num(x.to_bits()), Sexp::str(&json_tok_f64(x)), Sexp::str(&format!("{}", x))],
    )
}
pub fn f64_parse(args: &[Sexp]) -> Option<f64> {
    if args.len() != 3 {
        return None;
    }
    let x = f64::from_bits(args[0].as_u64()?);
    // the tokens are outputs of third-party formatters (ryu, core::fmt); the case must carry the real ones
    if !loose() && (args[1].as_string()? != json_tok_f64(x) || args[2].as_string()? != format!("{}", x)) {
        return None;
    }
    Some(x)
}

/// RFC 8259 `number`
pub fn is_json_number(t: &str) -> bool {
    let b = t.as_bytes();
    let mut i = 0;
    if i < b.len() && b[i] == b'-' {
        i += 1;
    }
    if i >= b.len() {
        return false;
    }
    if b[i] == b'0' {
        i += 1;
    } else if b[i].is_ascii_digit() {
        while i < b.len() && b[i].is_ascii_digit() {
            i += 1;
        }
    } else {
        return false;
    }
    if i < b.len() && b[i] == b'.' {
        i += 1;
        let s = i;
        while i < b.len() && b[i].is_ascii_digit() {
            i += 1;
        }
        if i == s {
            return false;
        }
    }
    if i < b.len() && (b[i] == b'e' || b[i] == b'E') {
        i += 1;
        if i < b.len() && (b[i] == b'+' || b[i] == b'-') {
            i += 1;
        }
        let s = i;
        while i < b.len() && b[i].is_ascii_digit() {
            i += 1;
        }
        if i == s {
            return false;
        }
    }
    i == b.len()
}

// ------------------------------------------------------------------------------------------ sval trees

#[derive(Clone, Debug, PartialEq)]
pub enum Tree {
    Null,
    /// `Option::None`
    None_,
    /// `()`
    Unit,
    Bool(bool),
    Int(Int),
    F64(f64),
    F32(f32),
    Text(String),
    Bin(Vec<u8>),
    Seq(Vec<Tree>),
    Map(Vec<(Tree, Tree)>),
    Rec(Vec<(String, Tree)>),
    Tup(Vec<Tree>),
    Some(Box<Tree>),
    Uvar(String),
    Nvar(String, Box<Tree>),
    Svar(String, Vec<(String, Tree)>),
    Tvar(String, Vec<Tree>),
}

const ENUM_LABEL: sval::Label<'static> = sval::Label::new("E");

impl sval::Value for Tree {
    fn stream<'sval, S: sval::Stream<'sval> + ?Sized>(&'sval self, stream: &mut S) -> sval::Result {
        match self {
            Tree::Null => stream.null(),
            Tree::None_ => stream.tag(
                Some(&sval::tags::RUST_OPTION_NONE),
                Some(&sval::Label::new("None")),
                Some(&sval::Index::new(0)),
            ),
            Tree::Unit => stream.tag(Some(&sval::tags::RUST_UNIT), None, None),
            Tree::Bool(b) => stream.bool(*b),
            Tree::Int(i) => i.stream(stream),
            Tree::F64(x) => stream.f64(*x),
            Tree::F32(x) => stream.f32(*x),
            Tree::Text(s) => stream.value(s.as_str()),
            Tree::Bin(b) => stream.value(sval::BinarySlice::new(b)),
            Tree::Seq(xs) => {
                stream.seq_begin(Some(xs.len()))?;
                for x in xs {
                    stream.seq_value_begin()?;
                    stream.value(x)?;
                    stream.seq_value_end()?;
                }
                stream.seq_end()
            }
            Tree::Map(kvs) => {
                stream.map_begin(Some(kvs.len()))?;
                for (k, v) in kvs {
                    stream.map_key_begin()?;
                    stream.value(k)?;
                    stream.map_key_end()?;
                    stream.map_value_begin()?;
                    stream.value(v)?;
                    stream.map_value_end()?;
                }
                stream.map_end()
            }
            Tree::Rec(fs) => stream_record(stream, None, None, fs),
            Tree::Tup(xs) => stream_tuple(stream, None, None, xs),
            Tree::Some(v) => {
                let tag = Some(&sval::tags::RUST_OPTION_SOME);
                let label = sval::Label::new("Some");
                let index = sval::Index::new(1);
                stream.tagged_begin(tag, Some(&label), Some(&index))?;
                stream.value(&**v)?;
                stream.tagged_end(tag, Some(&label), Some(&index))
            }
            Tree::Uvar(l) => {
                let label = sval::Label::new_computed(l);
                let index = sval::Index::new(0);
                stream.enum_begin(None, Some(&ENUM_LABEL), None)?;
                stream.tag(None, Some(&label), Some(&index))?;
                stream.enum_end(None, Some(&ENUM_LABEL), None)
            }
            Tree::Nvar(l, v) => {
                let label = sval::Label::new_computed(l);
                let index = sval::Index::new(0);
                stream.enum_begin(None, Some(&ENUM_LABEL), None)?;
                stream.tagged_begin(None, Some(&label), Some(&index))?;
                stream.value(&**v)?;
                stream.tagged_end(None, Some(&label), Some(&index))?;
                stream.enum_end(None, Some(&ENUM_LABEL), None)
            }
            Tree::Svar(l, fs) => {
                let label = sval::Label::new_computed(l);
                let index = sval::Index::new(0);
                stream.enum_begin(None, Some(&ENUM_LABEL), None)?;
                stream_record(stream, Some(&label), Some(&index), fs)?;
                stream.enum_end(None, Some(&ENUM_LABEL), None)
            }
            Tree::Tvar(l, xs) => {
                let label = sval::Label::new_computed(l);
                let index = sval::Index::new(0);
                stream.enum_begin(None, Some(&ENUM_LABEL), None)?;
                stream_tuple(stream, Some(&label), Some(&index), xs)?;
                stream.enum_end(None, Some(&ENUM_LABEL), None)
            }
        }
    }
}

fn stream_record<'sval, S: sval::Stream<'sval> + ?Sized>(
    stream: &mut S,
    label: Option<&sval::Label>,
    index: Option<&sval::Index>,
    fs: &'sval [(String, Tree)],
) -> sval::Result {
    stream.record_begin(None, label, index, Some(fs.len()))?;
    for (l, v) in fs {
        let fl = sval::Label::new_computed(l);
        stream.record_value_begin(None, &fl)?;
        stream.value(v)?;
        stream.record_value_end(None, &fl)?;
    }
    stream.record_end(None, label, index)
}

fn stream_tuple<'sval, S: sval::Stream<'sval> + ?Sized>(
    stream: &mut S,
    label: Option<&sval::Label>,
    index: Option<&sval::Index>,
    xs: &'sval [Tree],
) -> sval::Result {
    stream.tuple_begin(None, label, index, Some(xs.len()))?;
    for (i, x) in xs.iter().enumerate() {
        let ix = sval::Index::new(i);
        stream.tuple_value_begin(None, &ix)?;
        stream.value(x)?;
        stream.tuple_value_end(None, &ix)?;
    }
    stream.tuple_end(None, label, index)
}

impl Tree {
    pub fn to_sexp(&self) -> Sexp {
        let fields = |fs: &[(String, Tree)]| -> Vec<Sexp> {
            fs.iter().map(|(l, v)| Sexp::list(vec![Sexp::str(l), v.to_sexp()])).collect()
        };
        match self {
            Tree::Null => Sexp::atom("null"),
            Tree::None_ => Sexp::atom("none"),
            Tree::Unit => Sexp::atom("unit"),
            Tree::Bool(b) => Sexp::tagged("bool", vec![Sexp::bool(*b)]),
            Tree::Int(i) => i.to_sexp(),
            Tree::F64(x) => f64_to_sexp(*x),
            Tree::F32(x) => Sexp::tagged(
                "f32",
                vec![
                    Sexp::num(x.to_bits()),
                    Sexp::num((*x as f64).to_bits()),
                    Sexp::str(&json_tok_f32(*x)),
                    Sexp::str(&format!("{}", *x as f64)),
                ],
            ),
            Tree::Text(s) => Sexp::tagged("text", vec![Sexp::str(s)]),
            Tree::Bin(b) => Sexp::tagged("bin", vec![Sexp::bytes(b)]),
            Tree::Seq(xs) => Sexp::tagged("seq", xs.iter().map(Tree::to_sexp).collect()),
            Tree::Tup(xs) => Sexp::tagged("tup", xs.iter().map(Tree::to_sexp).collect()),
            Tree::Map(kvs) => Sexp::tagged(
                "map",
                kvs.iter().map(|(k, v)| Sexp::list(vec![k.to_sexp(), v.to_sexp()])).collect(),
            ),
            Tree::Rec(fs) => Sexp::tagged("rec", fields(fs)),
            Tree::Some(v) => Sexp::tagged("some", vec![v.to_sexp()]),
            Tree::Uvar(l) => Sexp::tagged("uvar", vec![Sexp::str(l)]),
            Tree::Nvar(l, v) => Sexp::tagged("nvar", vec![Sexp::str(l), v.to_sexp()]),
            Tree::Svar(l, fs) => {
                let mut a = vec![Sexp::str(l)];
                a.extend(fields(fs));
                Sexp::tagged("svar", a)
            }
            Tree::Tvar(l, xs) => {
                let mut a = vec![Sexp::str(l)];
                a.extend(xs.iter().map(Tree::to_sexp));
                Sexp::tagged("tvar", a)
            }
        }
    }

    pub fn parse(s: &Sexp) -> Option<Tree> {
        if let Some(a) = s.as_atom() {
            return match a {
                "null" => Some(Tree::Null),
                "none" => Some(Tree::None_),
                "unit" => Some(Tree::Unit),
                _ => None,
            };
        }
        let fields = |fs: &[Sexp]| -> Option<Vec<(String, Tree)>> {
            fs.iter()
                .map(|f| {
                    let l = f.as_list()?;
                    if l.len() != 2 {
                        return None;
                    }
                    Some((l[0].as_string()?, Tree::parse(&l[1])?))
                })
                .collect()
        };
        let (tag, args) = s.as_tagged()?;
        match (tag, args.len()) {
            ("bool", 1) => Some(Tree::Bool(args[0].as_bool()?)),
            ("int", 2) => Some(Tree::Int(Int::parse(&args[0], &args[1])?)),
            ("f64", 3) => Some(Tree::F64(f64_parse(args)?)),
            ("f32", 4) => {
                let x = f32::from_bits(u32::try_from(args[0].as_u64()?).ok()?);
                if !loose()
                    && (args[1].as_u64()? != (x as f64).to_bits()
                        || args[2].as_string()? != json_tok_f32(x)
                        || args[3].as_string()? != format!("{}", x as f64))
                {
                    return None;
                }
                Some(Tree::F32(x))
            }
            ("text", 1) => Some(Tree::Text(args[0].as_string()?)),
            ("bin", 1) => Some(Tree::Bin(args[0].as_bytes()?)),
            ("seq", _) => Some(Tree::Seq(args.iter().map(Tree::parse).collect::<Option<_>>()?)),
            ("tup", _) => Some(Tree::Tup(args.iter().map(Tree::parse).collect::<Option<_>>()?)),
            ("map", _) => Some(Tree::Map(
                args.iter()
                    .map(|kv| {
                        let l = kv.as_list()?;
                        if l.len() != 2 {
                            return None;
                        }
                        Some((Tree::parse(&l[0])?, Tree::parse(&l[1])?))
                    })
                    .collect::<Option<_>>()?,
            )),
            ("rec", _) => Some(Tree::Rec(fields(args)?)),
            ("some", 1) => Some(Tree::Some(Box::new(Tree::parse(&args[0])?))),
            ("uvar", 1) => Some(Tree::Uvar(args[0].as_string()?)),
            ("nvar", 2) => Some(Tree::Nvar(args[0].as_string()?, Box::new(Tree::parse(&args[1])?))),
            ("svar", n) if n >= 1 => Some(Tree::Svar(args[0].as_string()?, fields(&args[1..])?)),
            ("tvar", n) if n >= 1 => Some(Tree::Tvar(
                args[0].as_string()?,
                args[1..].iter().map(Tree::parse).collect::<Option<_>>()?,
            )),
            _ => None,
        }
    }

    /// every finite float token in the tree obeys the JSON number grammar (the assumption of
    /// `file_line_is_json` about the opaque tokens)
    pub fn float_tokens_ok(&self) -> bool {
        match self {
            Tree::F64(x) => !x.is_finite() || is_json_number(&json_tok_f64(*x)),
            Tree::F32(x) => !x.is_finite() || is_json_number(&json_tok_f32(*x)),
            Tree::Seq(xs) | Tree::Tup(xs) | Tree::Tvar(_, xs) => xs.iter().all(Tree::float_tokens_ok),
            Tree::Map(kvs) => kvs.iter().all(|(k, v)| k.float_tokens_ok() && v.float_tokens_ok()),
            Tree::Rec(fs) | Tree::Svar(_, fs) => fs.iter().all(|(_, v)| v.float_tokens_ok()),
            Tree::Some(v) | Tree::Nvar(_, v) => v.float_tokens_ok(),
            _ => true,
        }
    }
}

// ------------------------------------------------------------------------------------------ simple captures

/// Something whose `Debug` prints the string as is.
#[derive(Clone, PartialEq)]
pub struct RawDebug(pub String);
impl fmt::Debug for RawDebug {
    fn fmt(&self, f: &mut fmt::Formatter) -> fmt::Result {
        f.write_str(&self.0)
    }
}

/// A value whose formatting code emits: `Display` runs the thread's re-emit hook (if one is installed and no hook
/// is already running on this thread), then prints the text. The hook is cloned out of the thread-local cell
/// before it is called — no borrow of harness state is held while user-visible code runs.
#[derive(Clone, PartialEq)]
pub struct Reemit(pub String);

thread_local! {
    static REEMIT_HOOK: std::cell::RefCell<Option<std::rc::Rc<dyn Fn()>>> = const { std::cell::RefCell::new(None) };
    static REEMIT_DEPTH: std::cell::Cell<u32> = const { std::cell::Cell::new(0) };
    static REEMIT_FIRED: std::cell::Cell<u32> = const { std::cell::Cell::new(0) };
}

impl fmt::Display for Reemit {
    fn fmt(&self, f: &mut fmt::Formatter) -> fmt::Result {
        if REEMIT_DEPTH.with(|d| d.get()) == 0 {
            let hook = REEMIT_HOOK.with(|h| h.borrow().clone());
            if let Some(hook) = hook {
                struct Depth;
                impl Drop for Depth {
                    fn drop(&mut self) {
                        REEMIT_DEPTH.with(|d| d.set(d.get() - 1));
                    }
                }
                REEMIT_DEPTH.with(|d| d.set(d.get() + 1));
                let _depth = Depth;
                REEMIT_FIRED.with(|n| n.set(n.get() + 1));
                hook();
            }
        }
        f.write_str(&self.0)
    }
}

/// Run `body` with `hook` installed as this thread's re-emit hook; returns the result and how many times the hook
/// was run (= how many times a `Reemit` value was formatted).
pub fn with_reemit_hook<R>(hook: std::rc::Rc<dyn Fn()>, body: impl FnOnce() -> R) -> (R, u32) {
    struct Uninstall;
    impl Drop for Uninstall {
        fn drop(&mut self) {
            REEMIT_HOOK.with(|h| *h.borrow_mut() = None);
        }
    }
    REEMIT_FIRED.with(|n| n.set(0));
    REEMIT_HOOK.with(|h| *h.borrow_mut() = Some(hook));
    let _u = Uninstall;
    let r = body();
    (r, REEMIT_FIRED.with(|n| n.get()))
}

/// An error with a `source()` chain.
#[derive(Debug, Clone, PartialEq)]
pub struct Chain(pub String, pub Option<Box<Chain>>);
impl fmt::Display for Chain {
    fn fmt(&self, f: &mut fmt::Formatter) -> fmt::Result {
        f.write_str(&self.0)
    }
}
impl std::error::Error for Chain {
    fn source(&self) -> Option<&(dyn std::error::Error + 'static)> {
        self.1.as_ref().map(|b| &**b as &(dyn std::error::Error + 'static))
    }
}
impl Chain {
    pub fn from_msgs(msgs: &[String]) -> Option<Chain> {
        let (first, rest) = msgs.split_first()?;
        Some(Chain(first.clone(), Chain::from_msgs(rest).map(Box::new)))
    }
    pub fn msgs(&self) -> Vec<String> {
        let mut v = vec![self.0.clone()];
        let mut cur = &self.1;
        while let Some(c) = cur {
            v.push(c.0.clone());
            cur = &c.1;
        }
        v
    }
}

#[derive(Clone, Debug, PartialEq)]
pub enum Val {
    Null,
    Bool(bool),
    Int(Int),
    F64(f64),
    Str(String),
    Disp(String),
    /// `Value::from_display` of a value whose `Display` impl first runs the thread's re-emit hook (stream
    /// c13_otlp, `otlp-re` cases: it emits another event through the emitter that is formatting it) and then
    /// prints the text. Without a hook it is a plain `Display` value.
    Reemit(String),
    Dbg(String),
    Err(Vec<String>),
    Lvl(emit::Level),
    Tid(u128),
    Sid(u64),
    Kind(emit::Kind),
    /// `Value::from(&[i64; N])` / `Value::from(&[f64; N])`, N ≤ 6 (value_bag's own sequence capture, the form
    /// `#[emit::as_value]` arrays take)
    ArrI64(Vec<i64>),
    ArrF64(Vec<f64>),
    Sv(Tree),
    /// a harness type with derived `sval::Value` / `serde::Serialize`, or a std collection, captured through
    /// `Value::from_sval` or `Value::from_serde`
    Fx(Via, Fx),
}

macro_rules! arr_value {
    ($v:expr, $t:ty) => {
        match $v.len() {
            0 => Value::from(<&[$t; 0]>::try_from(&$v[..]).unwrap()),
            1 => Value::from(<&[$t; 1]>::try_from(&$v[..]).unwrap()),
            2 => Value::from(<&[$t; 2]>::try_from(&$v[..]).unwrap()),
            3 => Value::from(<&[$t; 3]>::try_from(&$v[..]).unwrap()),
            4 => Value::from(<&[$t; 4]>::try_from(&$v[..]).unwrap()),
            5 => Value::from(<&[$t; 5]>::try_from(&$v[..]).unwrap()),
            _ => Value::from(<&[$t; 6]>::try_from(&$v[..6]).unwrap()),
        }
    };
}

/// The realised form of a `Val`: owns whatever the borrowed `emit::Value` points into.
pub enum Real {
    Plain(Val),
    Re(Reemit),
    Dbg(RawDebug),
    Err(Chain),
    Tid(emit::TraceId),
    Sid(emit::SpanId),
}

impl Real {
    pub fn new(v: &Val) -> Option<Real> {
        Some(match v {
            Val::Dbg(s) => Real::Dbg(RawDebug(s.clone())),
            Val::Reemit(s) => Real::Re(Reemit(s.clone())),
            Val::Err(msgs) => Real::Err(Chain::from_msgs(msgs)?),
            Val::Tid(n) => Real::Tid(emit::TraceId::from_u128(*n)?),
            Val::Sid(n) => Real::Sid(emit::SpanId::from_u64(*n)?),
            other => Real::Plain(other.clone()),
        })
    }

    pub fn to_value(&self) -> Value<'_> {
        match self {
            Real::Plain(Val::Null) => Value::null(),
            Real::Plain(Val::Bool(b)) => Value::from(*b),
            Real::Plain(Val::Int(i)) => i.to_value(),
            Real::Plain(Val::F64(x)) => Value::from(*x),
            Real::Plain(Val::Str(s)) => Value::from(s.as_str()),
            Real::Plain(Val::Disp(s)) => Value::from_display(s),
            Real::Plain(Val::Lvl(l)) => emit::value::ToValue::to_value(l),
            Real::Plain(Val::Kind(k)) => emit::value::ToValue::to_value(k),
            Real::Plain(Val::Sv(t)) => Value::from_sval(t),
            Real::Plain(Val::Fx(via, fx)) => fx.to_value(*via),
            Real::Plain(Val::ArrI64(v)) => arr_value!(v, i64),
            Real::Plain(Val::ArrF64(v)) => arr_value!(v, f64),
            Real::Dbg(d) => Value::from_debug(d),
            Real::Re(r) => Value::from_display(r),
            Real::Err(c) => Value::capture_error(c),
            Real::Tid(t) => emit::value::ToValue::to_value(t),
            Real::Sid(s) => emit::value::ToValue::to_value(s),
            Real::Plain(_) => Value::null(), // unreachable: the remaining variants are realised above
        }
    }
}

pub fn level_name(l: emit::Level) -> &'static str {
    match l {
        emit::Level::Debug => "debug",
        emit::Level::Info => "info",
        emit::Level::Warn => "warn",
        emit::Level::Error => "error",
    }
}

impl Val {
    pub fn to_sexp(&self) -> Sexp {
        match self {
            Val::Null => Sexp::atom("null"),
            Val::Bool(b) => Sexp::tagged("bool", vec![Sexp::bool(*b)]),
            Val::Int(i) => i.to_sexp(),
            Val::F64(x) => f64_to_sexp(*x),
            Val::Str(s) => Sexp::tagged("str", vec![Sexp::str(s)]),
            Val::Disp(s) => Sexp::tagged("disp", vec![Sexp::str(s)]),
            Val::Dbg(s) => Sexp::tagged("dbg", vec![Sexp::str(s)]),
            Val::Reemit(s) => Sexp::tagged("reemit", vec![Sexp::str(s)]),
            Val::Err(msgs) => Sexp::tagged("err", msgs.iter().map(|m| Sexp::str(m)).collect()),
            Val::Lvl(l) => Sexp::tagged("lvl", vec![Sexp::atom(level_name(*l))]),
            Val::Tid(n) => Sexp::tagged("tid", vec![Sexp::num(n)]),
            Val::Sid(n) => Sexp::tagged("sid", vec![Sexp::num(n)]),
            Val::Kind(k) => Sexp::tagged("kind", vec![Sexp::atom(if *k == emit::Kind::Span { "span" } else { "metric" })]),
            Val::Sv(t) => {
                let disp = Value::from_sval(t).to_string();
                Sexp::tagged("sv", vec![t.to_sexp(), Sexp::str(&disp)])
            }
            Val::Fx(via, fx) => {
                let mut a = vec![Sexp::atom(if *via == Via::Sval { "sval" } else { "serde" })];
                a.extend(fx.to_sexp_args());
                a.push(Sexp::str(&fx.to_value(*via).to_string()));
                Sexp::tagged("fx", a)
            }
            Val::ArrI64(v) => Sexp::tagged(
                "arr-i64",
                vec![Sexp::list(v.iter().map(Sexp::num).collect()), Sexp::str(&arr_value!(v, i64).to_string())],
            ),
            Val::ArrF64(v) => Sexp::tagged(
                "arr-f64",
                vec![
                    Sexp::list(v.iter().map(|x| Sexp::list(f64_to_sexp(*x).as_list().unwrap()[1..].to_vec())).collect()),
                    Sexp::str(&arr_value!(v, f64).to_string()),
                ],
            ),
        }
    }

    pub fn parse(s: &Sexp) -> Option<Val> {
        if s.as_atom() == Some("null") {
            return Some(Val::Null);
        }
        let (tag, args) = s.as_tagged()?;
        match (tag, args.len()) {
            ("bool", 1) => Some(Val::Bool(args[0].as_bool()?)),
            ("int", 2) => Some(Val::Int(Int::parse(&args[0], &args[1])?)),
            ("f64", 3) => Some(Val::F64(f64_parse(args)?)),
            ("str", 1) => Some(Val::Str(args[0].as_string()?)),
            ("disp", 1) => Some(Val::Disp(args[0].as_string()?)),
            ("dbg", 1) => Some(Val::Dbg(args[0].as_string()?)),
            ("reemit", 1) => Some(Val::Reemit(args[0].as_string()?)),
            ("err", n) if n >= 1 => Some(Val::Err(args.iter().map(|a| a.as_string()).collect::<Option<_>>()?)),
            ("lvl", 1) => Some(Val::Lvl(match args[0].as_atom()? {
                "debug" => emit::Level::Debug,
                "info" => emit::Level::Info,
                "warn" => emit::Level::Warn,
                "error" => emit::Level::Error,
                _ => return None,
            })),
            ("tid", 1) => {
                let n = args[0].as_u128()?;
                if n == 0 {
                    return None;
                }
                Some(Val::Tid(n))
            }
            ("sid", 1) => {
                let n = args[0].as_u64()?;
                if n == 0 {
                    return None;
                }
                Some(Val::Sid(n))
            }
            ("kind", 1) => Some(Val::Kind(match args[0].as_atom()? {
                "span" => emit::Kind::Span,
                "metric" => emit::Kind::Metric,
                _ => return None,
            })),
            ("fx", n) if n >= 3 => {
                let via = match args[0].as_atom()? {
                    "sval" => Via::Sval,
                    "serde" => Via::Serde,
                    _ => return None,
                };
                let fx = Fx::parse(&args[1..n - 1])?;
                if !loose() && args[n - 1].as_string()? != fx.to_value(via).to_string() {
                    return None;
                }
                Some(Val::Fx(via, fx))
            }
            ("arr-i64", 2) => {
                let v: Vec<i64> = args[0].as_list()?.iter().map(|x| x.as_i64()).collect::<Option<_>>()?;
                if v.len() > 6 || (!loose() && args[1].as_string()? != arr_value!(v, i64).to_string()) {
                    return None;
                }
                Some(Val::ArrI64(v))
            }
            ("arr-f64", 2) => {
                let v: Vec<f64> =
                    args[0].as_list()?.iter().map(|x| f64_parse(x.as_list()?)).collect::<Option<_>>()?;
                if v.len() > 6 || (!loose() && args[1].as_string()? != arr_value!(v, f64).to_string()) {
                    return None;
                }
                Some(Val::ArrF64(v))
            }
            ("sv", 2) => {
                let t = Tree::parse(&args[0])?;
                // the Display text is an output of sval_fmt; the case must carry the real one
                if !loose() && args[1].as_string()? != Value::from_sval(&t).to_string() {
                    return None;
                }
                Some(Val::Sv(t))
            }
            _ => None,
        }
    }

    pub fn float_tokens_ok(&self) -> bool {
        match self {
            Val::F64(x) => !x.is_finite() || is_json_number(&json_tok_f64(*x)),
            Val::ArrF64(v) => v.iter().all(|x| !x.is_finite() || is_json_number(&json_tok_f64(*x))),
            Val::Sv(t) => t.float_tokens_ok(),
            _ => true,
        }
    }
}

// ------------------------------------------------------------------------------------------ events

#[derive(Clone, Debug, PartialEq)]
pub enum PartD {
    Text(String),
    Hole(String),
}

#[derive(Clone, Copy, Debug, PartialEq)]
pub struct TsD {
    pub secs: u64,
    pub nanos: u32,
}

impl TsD {
    pub fn to_ts(&self) -> Option<emit::Timestamp> {
        if self.nanos >= 1_000_000_000 {
            return None;
        }
        emit::Timestamp::from_unix(Duration::new(self.secs, self.nanos))
    }
    pub fn unix_nanos(&self) -> u128 {
        self.secs as u128 * 1_000_000_000 + self.nanos as u128
    }
    pub fn to_sexp(&self) -> Option<Sexp> {
        let ts = self.to_ts()?;
        Some(Sexp::list(vec![Sexp::num(self.secs), Sexp::num(self.nanos), Sexp::str(&ts.to_string())]))
    }
    pub fn parse(s: &Sexp) -> Option<TsD> {
        let l = s.as_list()?;
        if l.len() != 3 {
            return None;
        }
        let t = TsD { secs: l[0].as_u64()?, nanos: u32::try_from(l[1].as_u64()?).ok()? };
        // the RFC 3339 text is an output of the timestamp formatter (C15); the case must carry the real one
        if !loose() && l[2].as_string()? != t.to_ts()?.to_string() {
            return None;
        }
        Some(t)
    }
}

#[derive(Clone, Copy, Debug, PartialEq)]
pub enum ExtentD {
    None,
    Point(TsD),
    Range(TsD, TsD),
}

#[derive(Clone, Debug, PartialEq)]
pub struct EventD {
    pub mdl: String,
    pub tpl: Vec<PartD>,
    pub extent: ExtentD,
    pub unique: bool,
    pub props: Vec<(String, Val)>,
}

impl EventD {
    pub fn to_sexp(&self) -> Option<Sexp> {
        let mut tpl = vec![Sexp::atom("tpl")];
        for p in &self.tpl {
            tpl.push(match p {
                PartD::Text(s) => Sexp::tagged("t", vec![Sexp::str(s)]),
                PartD::Hole(s) => Sexp::tagged("h", vec![Sexp::str(s)]),
            });
        }
        let ext = match &self.extent {
            ExtentD::None => Sexp::atom("none"),
            ExtentD::Point(t) => Sexp::tagged("point", vec![t.to_sexp()?]),
            ExtentD::Range(a, b) => Sexp::tagged("range", vec![a.to_sexp()?, b.to_sexp()?]),
        };
        let mut props = vec![Sexp::atom("props")];
        for (k, v) in &self.props {
            props.push(Sexp::list(vec![Sexp::str(k), v.to_sexp()]));
        }
        Some(Sexp::tagged(
            "evt",
            vec![Sexp::str(&self.mdl), Sexp::list(tpl), ext, Sexp::bool(self.unique), Sexp::list(props)],
        ))
    }

    pub fn parse(s: &Sexp) -> Option<EventD> {
        let (tag, a) = s.as_tagged()?;
        if tag != "evt" || a.len() != 5 {
            return None;
        }
        let mdl = a[0].as_string()?;
        let (tt, parts) = a[1].as_tagged()?;
        if tt != "tpl" {
            return None;
        }
        let mut tpl = Vec::new();
        for p in parts {
            let (pt, pa) = p.as_tagged()?;
            if pa.len() != 1 {
                return None;
            }
            tpl.push(match pt {
                "t" => PartD::Text(pa[0].as_string()?),
                "h" => PartD::Hole(pa[0].as_string()?),
                _ => return None,
            });
        }
        let extent = if a[2].as_atom() == Some("none") {
            ExtentD::None
        } else {
            let (et, ea) = a[2].as_tagged()?;
            match (et, ea.len()) {
                ("point", 1) => ExtentD::Point(TsD::parse(&ea[0])?),
                ("range", 2) => ExtentD::Range(TsD::parse(&ea[0])?, TsD::parse(&ea[1])?),
                _ => return None,
            }
        };
        let unique = a[3].as_bool()?;
        let (pt, ps) = a[4].as_tagged()?;
        if pt != "props" {
            return None;
        }
        let mut props = Vec::new();
        for kv in ps {
            let l = kv.as_list()?;
            if l.len() != 2 {
                return None;
            }
            props.push((l[0].as_string()?, Val::parse(&l[1])?));
        }
        // a collection may only claim `is_unique()` when its keys are distinct
        if unique {
            let mut keys: Vec<&str> = props.iter().map(|(k, _)| k.as_str()).collect();
            keys.sort();
            if keys.windows(2).any(|w| w[0] == w[1]) {
                return None;
            }
        }
        Some(EventD { mdl, tpl, extent, unique, props })
    }

    /// distinct keys in first-occurrence order
    pub fn distinct_keys(&self) -> Vec<&str> {
        let mut out: Vec<&str> = Vec::new();
        for (k, _) in &self.props {
            if !out.contains(&k.as_str()) {
                out.push(k);
            }
        }
        out
    }

    pub fn float_tokens_ok(&self) -> bool {
        self.props.iter().all(|(_, v)| v.float_tokens_ok())
    }
}

/// The property collection handed to the emitters: enumeration in list order, default `get`,
/// `is_unique()` as the case says.
pub struct PropsV<'a> {
    pub items: Vec<(&'a str, &'a Real)>,
    pub unique: bool,
}

impl<'a> Props for PropsV<'a> {
    fn for_each<'kv, F: FnMut(Str<'kv>, Value<'kv>) -> ControlFlow<()>>(&'kv self, mut f: F) -> ControlFlow<()> {
        for (k, v) in &self.items {
            f(Str::new_ref(k), v.to_value())?;
        }
        ControlFlow::Continue(())
    }
    fn is_unique(&self) -> bool {
        self.unique
    }
}

/// Build the real event of a case and hand it to `f`.
pub fn with_event<R>(d: &EventD, f: impl FnOnce(&emit::Event<PropsV>) -> R) -> Option<R> {
    let reals: Vec<Real> = d.props.iter().map(|(_, v)| Real::new(v)).collect::<Option<_>>()?;
    let props = PropsV {
        items: d.props.iter().zip(reals.iter()).map(|((k, _), r)| (k.as_str(), r)).collect(),
        unique: d.unique,
    };
    let parts: Vec<emit::template::Part> = d
        .tpl
        .iter()
        .map(|p| match p {
            PartD::Text(s) => emit::template::Part::text_ref(s),
            PartD::Hole(s) => emit::template::Part::hole_ref(s),
        })
        .collect();
    let extent: Option<emit::Extent> = match &d.extent {
        ExtentD::None => None,
        ExtentD::Point(t) => Some(emit::Extent::point(t.to_ts()?)),
        ExtentD::Range(a, b) => Some(emit::Extent::range(a.to_ts()?..b.to_ts()?)),
    };
    let evt = emit::Event::new(
        emit::Path::new_ref_raw(&d.mdl),
        emit::Template::new_ref(&parts),
        extent,
        props,
    );
    Some(f(&evt))
}
