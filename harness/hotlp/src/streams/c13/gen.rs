//! Generators of the C13 streams: events over the value grammar (extremes of every primitive, control and
//! non-ASCII characters in strings and keys, nested maps / sequences / records / enum variants, bytes, error
//! chains, duplicate keys, well-known keys with well-formed and malformed values).
//!
//! Regions with a KNOWN FINDING are kept out of the generated cases explicitly (`Avoid`); their reproducers
//! live in harness/corpus/c13_*.txt and are run first on every check.

use hcommon::{Rng, Tier};

use super::case::*;

/// What a generator must stay away from (each flag names a known finding / documented exclusion).
#[derive(Clone, Copy)]
pub struct Avoid {
    /// a property named like a fixed field of the file record (was F2, repaired: no longer avoided anywhere)
    pub fixed_field_names: bool,
    /// file: a map key that is a *labelled tag* (`Some(k)`, unit variant): sval_json 2.22 leaves the object
    /// unbalanced when the entry's value is tagged too (third-party defect, known finding)
    pub tagged_keys: bool,
    /// otlp: bytes / sequence / map / record / tuple in map-key position still reach `todo!()` (D7 remainder)
    pub nested_keys: bool,
    /// `null` inside a sequence (was dropped by protobuf / bare null in JSON; repaired, no longer avoided)
    pub null_in_seq: bool,
    /// otlp: NaN / ±inf (JSON writes `null`)
    pub nonfinite: bool,
    /// otlp: byte strings (JSON writes an array of numbers, not base64)
    pub bytes: bool,
    /// otlp: a user property `exception.message` / `exception.stacktrace` next to `err` (F5)
    pub exception_keys: bool,
    /// otlp: instants at or after 2^64 ns (F6)
    pub far_future: bool,
}

pub const AVOID_FILE: Avoid = Avoid {
    fixed_field_names: false,
    tagged_keys: true,
    nested_keys: false,
    null_in_seq: false,
    nonfinite: false,
    bytes: false,
    exception_keys: false,
    far_future: false,
};

pub const AVOID_OTLP: Avoid = Avoid {
    fixed_field_names: false,
    tagged_keys: false,
    nested_keys: true,
    null_in_seq: false,
    nonfinite: true,
    bytes: true,
    exception_keys: true,
    far_future: true,
};

const STRINGS: [&str; 26] = [
    "",
    "a",
    "b",
    "user",
    "Rust",
    "hello world",
    "with \"quotes\"",
    "back\\slash",
    "line\nbreak",
    "tab\tcr\r",
    "\u{0}nul",
    "\u{1}\u{1f}ctl",
    "\u{8}\u{c}bs-ff",
    "del\u{7f}",
    "caf\u{e9}",
    "\u{65e5}\u{672c}\u{8a9e}",
    "\u{1f600} emoji",
    "\u{2028}ls\u{2029}",
    "{braces}",
    "a::b",
    "/slash",
    "0",
    "-1",
    "true",
    "null",
    "1e5",
];

const KEYS: [&str; 14] =
    ["a", "b", "c", "user", "id", "", "k\"q", "k\nn", "k\u{1}", "cl\u{e9}", "\u{1f600}", "a.b", "A", "count"];

const WELL_KNOWN: [&str; 12] = [
    "lvl",
    "trace_id",
    "span_id",
    "span_parent",
    "err",
    "evt_kind",
    "span_name",
    "metric_name",
    "metric_agg",
    "metric_value",
    "metric_unit",
    "exception.message",
];

const FIXED: [&str; 5] = ["ts_start", "ts", "mdl", "msg", "tpl"];

fn string(rng: &mut Rng) -> String {
    if rng.chance(1, 8) {
        // random short string over a small alphabet incl. control / non-ASCII characters
        let alpha = ['a', 'Z', '0', ' ', '"', '\\', '\n', '\u{1}', '\u{7f}', '\u{e9}', '\u{4e2d}', '\u{1f600}', '{', '}'];
        let n = rng.range(0, 6);
        (0..n).map(|_| *rng.pick(&alpha)).collect()
    } else {
        rng.pick(&STRINGS).to_string()
    }
}

fn int(rng: &mut Rng) -> Int {
    let ty = *rng.pick(&TYS);
    let b = ty.bits();
    if ty.signed() {
        let min = if b == 128 { i128::MIN } else { -(1i128 << (b - 1)) };
        let max = if b == 128 { i128::MAX } else { (1i128 << (b - 1)) - 1 };
        let v = match rng.below(8) {
            0 => min,
            1 => max,
            2 => 0,
            3 => -1,
            4 => min + 1,
            5 => (rng.next() as i64 as i128).clamp(min, max),
            _ => rng.range(0, 200) as i128 - 100,
        };
        Int::signed(ty, v.clamp(min, max))
    } else {
        let max = if b == 128 { u128::MAX } else { (1u128 << b) - 1 };
        let v = match rng.below(8) {
            0 => max,
            1 => 0,
            2 => max - 1,
            3 => (i64::MAX as u128).min(max),
            4 => (i64::MAX as u128 + 1).min(max),
            5 => (rng.next() as u128).min(max),
            _ => rng.range(0, 200) as u128,
        };
        Int::unsigned(ty, v.min(max))
    }
}

const FLOATS: [f64; 18] = [
    0.0,
    -0.0,
    1.0,
    -1.0,
    1.5,
    0.1,
    -2.25,
    1e21,
    1e-7,
    123456789.125,
    f64::MAX,
    f64::MIN,
    f64::MIN_POSITIVE,
    5e-324,
    9007199254740993.0,
    f64::NAN,
    f64::INFINITY,
    f64::NEG_INFINITY,
];

fn float(rng: &mut Rng, av: Avoid) -> f64 {
    loop {
        let x = if rng.chance(1, 5) { f64::from_bits(rng.next()) } else { *rng.pick(&FLOATS) };
        if av.nonfinite && !x.is_finite() {
            continue;
        }
        return x;
    }
}

fn float32(rng: &mut Rng, av: Avoid) -> f32 {
    loop {
        let x = match rng.below(8) {
            0 => 0.0,
            1 => 1.1,
            2 => -3.5,
            3 => f32::MAX,
            4 => f32::MIN_POSITIVE,
            5 => f32::NAN,
            6 => f32::INFINITY,
            _ => f32::from_bits(rng.next() as u32),
        };
        if av.nonfinite && !x.is_finite() {
            continue;
        }
        return x;
    }
}

fn label(rng: &mut Rng) -> String {
    rng.pick(&["A", "B", "Some", "x", "field", "snake_case", "with space", "\u{e9}", "q\"", ""]).to_string()
}

fn scalar_tree(rng: &mut Rng, av: Avoid) -> Tree {
    match rng.below(10) {
        0 => rng.pick(&[Tree::Null, Tree::None_, Tree::Unit]).clone(),
        1 => Tree::Bool(rng.bool()),
        2 | 3 => Tree::Int(int(rng)),
        4 => Tree::F64(float(rng, av)),
        5 => Tree::F32(float32(rng, av)),
        6 => Tree::Uvar(label(rng)),
        _ => Tree::Text(string(rng)),
    }
}

fn is_nullish(t: &Tree) -> bool {
    match t {
        Tree::Null | Tree::None_ | Tree::Unit => true,
        Tree::Some(v) | Tree::Nvar(_, v) => is_nullish(v),
        _ => false,
    }
}

fn key_tree(rng: &mut Rng, av: Avoid, depth: usize) -> Tree {
    loop {
        let k = match rng.below(12) {
            0..=5 => Tree::Text(if rng.chance(2, 3) { rng.pick(&KEYS).to_string() } else { string(rng) }),
            6 => Tree::Int(int(rng)),
            7 => Tree::Bool(rng.bool()),
            8 => Tree::F64(float(rng, av)),
            9 => rng.pick(&[Tree::Null, Tree::None_, Tree::Unit]).clone(),
            10 => match rng.below(3) {
                0 => Tree::Some(Box::new(Tree::Text(string(rng)))),
                1 => Tree::Uvar(label(rng)),
                _ => Tree::F32(float32(rng, av)),
            },
            _ => tree(rng, av, depth.min(1)),
        };
        if av.tagged_keys && matches!(k, Tree::Some(_) | Tree::Uvar(_)) {
            continue;
        }
        if av.nested_keys && nested_key(&k) {
            continue;
        }
        return k;
    }
}

/// bytes / sequences / maps / records / tuples / data-carrying struct or tuple variants in key position
fn nested_key(k: &Tree) -> bool {
    match k {
        Tree::Bin(_) | Tree::Seq(_) | Tree::Map(_) | Tree::Rec(_) | Tree::Tup(_) | Tree::Svar(..) | Tree::Tvar(..) => true,
        Tree::Some(v) | Tree::Nvar(_, v) => nested_key(v),
        _ => false,
    }
}

pub fn tree(rng: &mut Rng, av: Avoid, depth: usize) -> Tree {
    if depth == 0 || rng.chance(2, 5) {
        return scalar_tree(rng, av);
    }
    let n = rng.range(0, 3) as usize;
    let fields = |rng: &mut Rng| -> Vec<(String, Tree)> { (0..n).map(|_| (label(rng), tree(rng, av, depth - 1))).collect() };
    match rng.below(11) {
        0 | 1 => {
            let mut xs: Vec<Tree> = (0..n).map(|_| tree(rng, av, depth - 1)).collect();
            if av.null_in_seq {
                xs.retain(|x| !is_nullish(x));
            }
            Tree::Seq(xs)
        }
        2 | 3 => Tree::Map((0..n).map(|_| (key_tree(rng, av, depth - 1), tree(rng, av, depth - 1))).collect()),
        4 => Tree::Rec(fields(rng)),
        5 => {
            let mut xs: Vec<Tree> = (0..n).map(|_| tree(rng, av, depth - 1)).collect();
            if av.null_in_seq {
                xs.retain(|x| !is_nullish(x));
            }
            Tree::Tup(xs)
        }
        6 => Tree::Some(Box::new(tree(rng, av, depth - 1))),
        7 => Tree::Nvar(label(rng), Box::new(tree(rng, av, depth - 1))),
        8 => Tree::Svar(label(rng), fields(rng)),
        9 => {
            let mut xs: Vec<Tree> = (0..n).map(|_| tree(rng, av, depth - 1)).collect();
            if av.null_in_seq {
                xs.retain(|x| !is_nullish(x));
            }
            Tree::Tvar(label(rng), xs)
        }
        _ => {
            if av.bytes {
                Tree::Text(string(rng))
            } else {
                let n = rng.range(0, 5) as usize;
                Tree::Bin((0..n).map(|_| *rng.pick(&[0u8, 1, 0x7f, 0x80, 0xff, b'a'])).collect())
            }
        }
    }
}

fn err_chain(rng: &mut Rng) -> Val {
    let n = rng.range(1, 4) as usize;
    Val::Err((0..n).map(|_| rng.pick(&["outer", "mid", "root", "", "io \"failed\"\n", "\u{e9}chec"]).to_string()).collect())
}

fn fixture(rng: &mut Rng) -> Val {
    use super::fixtures::*;
    let via = if rng.bool() { Via::Sval } else { Via::Serde };
    let small = |rng: &mut Rng| -> i32 { *rng.pick(&[0, 1, -1, 42, i32::MAX, i32::MIN]) };
    let fx = match rng.below(10) {
        0 => Fx::Enum(FxEnum::Unit),
        1 => Fx::Enum(FxEnum::Newtype(small(rng))),
        2 => Fx::Enum(FxEnum::Tuple(small(rng), rng.bool())),
        3 => Fx::Enum(FxEnum::Struct { a: small(rng), b: string(rng) }),
        4 | 5 => Fx::Struct(FxStruct {
            id: *rng.pick(&[0, 7, u64::MAX, i64::MAX as u64 + 1]),
            name: string(rng),
            opt: *rng.pick(&[None, Some(0), Some(-5), Some(i64::MIN)]),
            tags: (0..rng.range(0, 3)).map(|_| string(rng)).collect(),
            nested: FxEnum::Newtype(small(rng)),
            pair: (*rng.pick(&[0i8, -128, 127]), 1.5),
        }),
        6 => {
            if rng.bool() {
                Fx::Newtype(FxNewtype(*rng.pick(&[0u16, 9, u16::MAX])))
            } else {
                Fx::Unit(FxUnit)
            }
        }
        7 => Fx::StrMap((0..rng.range(0, 3)).map(|_| (string(rng), rng.next() as i64 >> rng.range(0, 60))).collect()),
        8 => Fx::IntMap((0..rng.range(0, 3)).map(|_| (small(rng), string(rng))).collect()),
        _ => Fx::OptVec((0..rng.range(0, 4)).map(|_| *rng.pick(&[None, Some(true), Some(false)])).collect()),
    };
    Val::Fx(via, fx)
}

fn any_val(rng: &mut Rng, av: Avoid, depth: usize) -> Val {
    if depth > 0 && rng.chance(1, 12) {
        return fixture(rng);
    }
    match rng.below(16) {
        0 => Val::Null,
        1 => Val::Bool(rng.bool()),
        2 | 3 => Val::Int(int(rng)),
        4 => Val::F64(float(rng, av)),
        5 | 6 => Val::Str(string(rng)),
        7 => Val::Disp(string(rng)),
        8 => Val::Dbg(string(rng)),
        9 => err_chain(rng),
        10 => Val::Lvl(*rng.pick(&[emit::Level::Debug, emit::Level::Info, emit::Level::Warn, emit::Level::Error])),
        11 => {
            if rng.bool() {
                Val::Tid(rng.next() as u128 * 0x1_0000_0001 + 1)
            } else {
                Val::Sid(rng.next() | 1)
            }
        }
        _ => Val::Sv(tree(rng, av, depth)),
    }
}

/// a value for a well-known key: mostly of the expected form, sometimes malformed, sometimes anything
fn well_known_val(rng: &mut Rng, key: &str, av: Avoid, depth: usize) -> Val {
    if rng.chance(1, 6) {
        loop {
            let v = any_val(rng, av, depth);
            // how value_bag's integer cast looks through wrappers differs between the sval and the serde capture
            // of a derived type; the id keys get no fixture values (recorded in `rule`)
            if matches!(key, "trace_id" | "span_id" | "span_parent") && matches!(v, Val::Fx(..)) {
                continue;
            }
            return v;
        }
    }
    match key {
        "lvl" => match rng.below(6) {
            0 => Val::Lvl(*rng.pick(&[emit::Level::Debug, emit::Level::Info, emit::Level::Warn, emit::Level::Error])),
            1 => Val::Str(rng.pick(&["debug", "info", "warn", "error"]).to_string()),
            2 => Val::Str(rng.pick(&["DEBUG", "Information", " warning ", "ERR", "dbg", "W", "e!"]).to_string()),
            3 => Val::Str(rng.pick(&["", "nonsense", "inf0", "warnx", "\u{e9}rror"]).to_string()),
            4 => Val::Disp(rng.pick(&["warn", "error", "x"]).to_string()),
            _ => Val::Int(int(rng)),
        },
        "trace_id" => match rng.below(6) {
            0 => Val::Tid(rng.next() as u128 * 0x1_0000_0000_0000_0001 + 1),
            1 => Val::Str("4bf92f3577b34da6a3ce929d0e0e4736".into()),
            2 => Val::Str(rng.pick(&["4BF92F3577B34DA6A3CE929D0E0E4736", "00000000000000000000000000000000", "4bf92f3577b34da6a3ce929d0e0e473", "zz", ""]).to_string()),
            3 => Val::Int(Int::unsigned(Ty::U128, rng.next() as u128 * 3)),
            4 => Val::Int(int(rng)),
            _ => Val::Sid(rng.next() | 1),
        },
        "span_id" | "span_parent" => match rng.below(6) {
            0 => Val::Sid(rng.next() | 1),
            1 => Val::Str("00f067aa0ba902b7".into()),
            2 => Val::Str(rng.pick(&["00F067AA0BA902B7", "0000000000000000", "00f067aa0ba902b", "xyz", "1234567890123456"]).to_string()),
            3 => Val::Int(Int::unsigned(Ty::U64, rng.next() as u128)),
            4 => Val::Int(int(rng)),
            _ => Val::Tid(rng.next() as u128 + 1),
        },
        "err" => match rng.below(4) {
            0 | 1 => err_chain(rng),
            2 => Val::Str(string(rng)),
            _ => any_val(rng, av, depth),
        },
        "evt_kind" => Val::Str(rng.pick(&["span", "metric", "other", ""]).to_string()),
        "metric_agg" => match rng.below(3) {
            0 => Val::Str(rng.pick(&["count", "sum", "min", "max", "last", ""]).to_string()),
            1 => Val::Disp(rng.pick(&["count", "sum"]).to_string()),
            _ => any_val(rng, av, depth),
        },
        "metric_value" => match rng.below(4) {
            0 => Val::Int(int(rng)),
            1 => Val::F64(float(rng, av)),
            _ => any_val(rng, av, depth),
        },
        _ => match rng.below(3) {
            0 => Val::Str(string(rng)),
            _ => any_val(rng, av, depth),
        },
    }
}

fn ts(rng: &mut Rng, av: Avoid) -> TsD {
    const MAX_SECS: u64 = 253_402_300_799; // 9999-12-31T23:59:59Z
    const U64_SECS: u64 = 18_446_744_073; // 2^64 ns
    let hi = if av.far_future { U64_SECS - 1 } else { MAX_SECS };
    // calendar edges: 29 February (1972, 2000, 2024, 2096, 2400, 9996), the last day of a leap and of a common year,
    // the days around the missing 29 February 2100
    const DAYS: [u64; 12] = [
        68_169_600, 951_782_400, 1_709_164_800, 3_981_312_000, 13_574_563_200, 253_281_168_000, 1_735_603_200, 1_703_980_800, 4_107_456_000,
        4_107_542_400, 1_709_251_200, 31_449_600,
    ];
    let secs = match rng.below(9) {
        8 => {
            let d = *rng.pick(&DAYS);
            if d + 86_399 <= hi { d + rng.below(86_400) } else { 1_709_164_800 + rng.below(86_400) }
        }
        0 => 0,
        1 => hi,
        2 => 1,
        3 => 1_700_000_000,
        4 => U64_SECS.min(hi),
        5 => rng.range(0, hi),
        _ => rng.range(1_600_000_000, 1_800_000_000),
    };
    let nanos = match rng.below(5) {
        0 => 0,
        1 => 999_999_999,
        2 => 1,
        3 => 123_000_000,
        _ => rng.below(1_000_000_000) as u32,
    };
    TsD { secs, nanos }
}

pub fn event(rng: &mut Rng, av: Avoid, tier: Tier) -> EventD {
    let depth = if tier == Tier::Thorough { 4 } else { 3 };
    let max_props = if tier == Tier::Thorough { 9 } else { 6 };
    let n = match rng.below(10) {
        0 => 0,
        1 => 1,
        _ => rng.range(1, max_props) as usize,
    };
    let mut props: Vec<(String, Val)> = Vec::new();
    for _ in 0..n {
        let (k, v) = match rng.below(10) {
            0..=2 => {
                let k = rng.pick(&WELL_KNOWN).to_string();
                let v = well_known_val(rng, &k, av, depth);
                (k, v)
            }
            3 if !props.is_empty() => {
                // duplicate an existing key with a fresh value
                let k = props[rng.usize(props.len())].0.clone();
                let v = if WELL_KNOWN.contains(&k.as_str()) { well_known_val(rng, &k, av, depth) } else { any_val(rng, av, depth) };
                (k, v)
            }
            4 if !av.fixed_field_names => (rng.pick(&FIXED).to_string(), any_val(rng, av, depth)),
            5 => (string(rng), any_val(rng, av, depth)),
            _ => (rng.pick(&KEYS).to_string(), any_val(rng, av, depth)),
        };
        if av.fixed_field_names && FIXED.contains(&k.as_str()) {
            continue;
        }
        props.push((k, v));
    }
    if av.exception_keys && props.iter().any(|(k, _)| k == "err") {
        props.retain(|(k, _)| k != "exception.message" && k != "exception.stacktrace");
    }
    let distinct = {
        let mut ks: Vec<&str> = props.iter().map(|(k, _)| k.as_str()).collect();
        ks.sort();
        !ks.windows(2).any(|w| w[0] == w[1])
    };
    let unique = distinct && rng.chance(1, 3);
    // template: text and holes naming present keys, absent keys, well-known keys
    let parts = rng.range(0, 4) as usize;
    let mut tpl = Vec::new();
    for _ in 0..parts {
        tpl.push(match rng.below(5) {
            0 | 1 => PartD::Text(string(rng)),
            2 if !props.is_empty() => PartD::Hole(props[rng.usize(props.len())].0.clone()),
            3 => PartD::Hole(rng.pick(&["missing", "", "lvl", "err", "a"]).to_string()),
            _ => PartD::Text(rng.pick(&["event ", "x=", " done", "{", "}}"]).to_string()),
        });
    }
    let extent = match rng.below(4) {
        0 => ExtentD::None,
        1 | 2 => ExtentD::Point(ts(rng, av)),
        _ => {
            let a = ts(rng, av);
            let b = ts(rng, av);
            // mostly ordered, sometimes reversed (the encoders must not care)
            if rng.chance(4, 5) && (b.secs, b.nanos) < (a.secs, a.nanos) {
                ExtentD::Range(b, a)
            } else {
                ExtentD::Range(a, b)
            }
        }
    };
    let mdl = rng.pick(&["app", "a::b", "my_crate::module::sub", "", "m\"q\n", "\u{e9}::\u{4e2d}"]).to_string();
    EventD { mdl, tpl, extent, unique, props }
}

fn edge_events() -> Vec<EventD> {
    let t0 = TsD { secs: 1_700_000_000, nanos: 123_456_789 };
    let base = |props: Vec<(String, Val)>| EventD {
        mdl: "a::b".into(),
        tpl: vec![PartD::Text("hello ".into()), PartD::Hole("a".into())],
        extent: ExtentD::Point(t0),
        unique: false,
        props,
    };
    let mut v = vec![
        EventD { mdl: "m".into(), tpl: vec![], extent: ExtentD::None, unique: false, props: vec![] },
        base(vec![]),
        base(vec![("a".into(), Val::Int(Int::unsigned(Ty::U8, 1))), ("a".into(), Val::Int(Int::unsigned(Ty::U8, 2)))]),
        base(vec![("b".into(), Val::Str("x".into())), ("a".into(), Val::Bool(true))]),
    ];
    for ty in TYS {
        let b = ty.bits();
        let (lo, hi) = if ty.signed() {
            let min = if b == 128 { i128::MIN } else { -(1i128 << (b - 1)) };
            let max = if b == 128 { i128::MAX } else { (1i128 << (b - 1)) - 1 };
            (Int::signed(ty, min), Int::signed(ty, max))
        } else {
            (Int::unsigned(ty, 0), Int::unsigned(ty, if b == 128 { u128::MAX } else { (1u128 << b) - 1 }))
        };
        v.push(base(vec![("lo".into(), Val::Int(lo)), ("hi".into(), Val::Int(hi)), ("a".into(), Val::Sv(Tree::Seq(vec![Tree::Int(lo), Tree::Int(hi)])))]));
    }
    v
}

fn gen_stream(rng: &mut Rng, tier: Tier, n: usize, av: Avoid, wrap: impl Fn(&mut Rng, &EventD) -> Option<String>) -> Vec<String> {
    let mut out = Vec::new();
    for e in edge_events() {
        if let Some(l) = wrap(rng, &e) {
            out.push(l);
        }
    }
    while out.len() < n {
        let e = event(rng, av, tier);
        if let Some(l) = wrap(rng, &e) {
            out.push(l);
        }
    }
    out.truncate(n.max(1));
    out
}

pub fn gen_file(rng: &mut Rng, tier: Tier, n: usize) -> Vec<String> {
    gen_stream(rng, tier, n, AVOID_FILE, |_, e| Some(format!("(file {})", e.to_sexp()?)))
}

fn set_first(props: &mut Vec<(String, Val)>, key: &str, v: Val) {
    // put the value in front so that it is the first (= effective) one, keeping later duplicates
    props.insert(0, (key.to_string(), v));
}

fn kind_val(rng: &mut Rng, k: emit::Kind) -> Val {
    let name = if k == emit::Kind::Span { "span" } else { "metric" };
    match rng.below(6) {
        0 => Val::Kind(k),
        1 => Val::Str(name.to_uppercase()),
        2 => Val::Str(format!(" {}\t", name)),
        3 => Val::Disp(name.to_string()),
        _ => Val::Str(name.to_string()),
    }
}

const METRIC_FLOATS: [f64; 9] = [0.0, -0.0, 1.0, 1.5, -2.25, 0.1, 1e15, 123456789.125, 5e-324];

fn metric_number(rng: &mut Rng) -> Tree {
    match rng.below(6) {
        0 | 1 => Tree::Int(Int::signed(Ty::I64, rng.range(0, 2000) as i128 - 1000)),
        2 => Tree::Int(Int::unsigned(*rng.pick(&[Ty::U8, Ty::U16, Ty::U32, Ty::U64]), rng.range(0, 255) as u128)),
        3 => Tree::Int(Int::signed(Ty::I64, *rng.pick(&[i64::MAX as i128 / 4, i64::MIN as i128 / 4, 1 << 53, (1 << 53) + 1]))),
        4 => Tree::F32(*rng.pick(&[0.5f32, 1.1, -3.5])),
        _ => Tree::F64(*rng.pick(&METRIC_FLOATS)),
    }
}

fn metric_value(rng: &mut Rng, av: Avoid) -> Val {
    match rng.below(14) {
        0 | 1 => Val::Int(Int::signed(Ty::I64, rng.range(0, 2000) as i128 - 1000)),
        2 => Val::Int(int(rng)),
        3 => Val::F64(*rng.pick(&METRIC_FLOATS)),
        4..=7 => {
            let n = rng.range(0, 6) as usize;
            Val::Sv(Tree::Seq((0..n).map(|_| metric_number(rng)).collect()))
        }
        8 => Val::Sv(Tree::Tup(vec![metric_number(rng), metric_number(rng)])),
        9 => Val::Sv(Tree::Bin((0..rng.range(0, 4)).map(|_| rng.next() as u8).collect())),
        10 => Val::Sv(Tree::Seq(vec![metric_number(rng), Tree::Seq(vec![metric_number(rng)])])),
        11 => Val::Sv(Tree::Some(Box::new(metric_number(rng)))),
        12 => Val::Sv(rng.pick(&[Tree::Map(vec![]), Tree::Rec(vec![]), Tree::Seq(vec![Tree::Text("x".into())]), Tree::Seq(vec![Tree::None_])]).clone()),
        _ => any_val(rng, av, 2),
    }
}

/// bend a generic event towards the signal under test (most of the time)
fn shape(rng: &mut Rng, e: &mut EventD, signal: &str, av: Avoid) {
    if rng.chance(1, 8) {
        return;
    }
    match signal {
        "traces" => {
            e.props.retain(|(k, _)| k != "evt_kind");
            set_first(&mut e.props, "evt_kind", kind_val(rng, emit::Kind::Span));
            if !matches!(e.extent, ExtentD::Range(..)) && rng.chance(9, 10) {
                let a = ts(rng, av);
                let b = ts(rng, av);
                e.extent = if (b.secs, b.nanos) < (a.secs, a.nanos) { ExtentD::Range(b, a) } else { ExtentD::Range(a, b) };
            }
            for k in ["trace_id", "span_id", "span_parent", "span_name", "lvl", "err"] {
                if rng.chance(1, 3) {
                    let v = well_known_val(rng, k, av, 2);
                    let at = rng.usize(e.props.len() + 1);
                    e.props.insert(at, (k.to_string(), v));
                }
            }
        }
        "metrics" => {
            e.props.retain(|(k, _)| k != "evt_kind");
            set_first(&mut e.props, "evt_kind", kind_val(rng, emit::Kind::Metric));
            if rng.chance(9, 10) {
                e.props.retain(|(k, _)| k != "metric_value");
                let v = metric_value(rng, av);
                let at = rng.usize(e.props.len() + 1);
                e.props.insert(at, ("metric_value".to_string(), v));
            }
            if rng.chance(2, 3) {
                let v = match rng.below(6) {
                    0 | 1 => Val::Str("count".into()),
                    2 | 3 => Val::Str("sum".into()),
                    4 => Val::Sv(Tree::Text(rng.pick(&["sum", "count", "last"]).to_string())),
                    _ => well_known_val(rng, "metric_agg", av, 2),
                };
                let at = rng.usize(e.props.len() + 1);
                e.props.insert(at, ("metric_agg".to_string(), v));
            }
            for k in ["metric_name", "metric_unit", "metric_unit"] {
                if rng.chance(1, 3) {
                    let v = if rng.chance(3, 4) { Val::Str(rng.pick(&["requests", "ms", "By", "", "http.server.duration"]).to_string()) } else { any_val(rng, av, 2) };
                    let at = rng.usize(e.props.len() + 1);
                    e.props.insert(at, (k.to_string(), v));
                }
            }
        }
        _ => {}
    }
    if av.exception_keys && e.props.iter().any(|(k, _)| k == "err") {
        e.props.retain(|(k, _)| k != "exception.message" && k != "exception.stacktrace");
    }
    // the collection may only claim uniqueness when its keys are distinct
    let mut ks: Vec<&str> = e.props.iter().map(|(k, _)| k.as_str()).collect();
    ks.sort();
    if ks.windows(2).any(|w| w[0] == w[1]) {
        e.unique = false;
    }
}

/// a sum that overflows to +inf or adds up to a non-finite double hits the JSON non-finite finding
fn metric_sum_nonfinite(e: &EventD) -> bool {
    // conservative: any metric whose integer samples could overflow an i64 when added
    fn big(t: &Tree) -> bool {
        match t {
            Tree::Int(i) => i.mag > (i64::MAX as u128) / 16,
            Tree::Seq(xs) | Tree::Tup(xs) | Tree::Tvar(_, xs) => xs.iter().filter(|x| big(x)).count() >= 2,
            Tree::Some(v) | Tree::Nvar(_, v) => big(v),
            _ => false,
        }
    }
    e.props.iter().any(|(k, v)| k == "metric_value" && matches!(v, Val::Sv(t) if matches!(t, Tree::Seq(_) | Tree::Tup(_) | Tree::Tvar(..)) && big(t)))
}

/// keys a re-emitting value is put under: ordinary attribute keys no signal lifts (`RE_RESERVED` in mod.rs)
const RE_KEYS: [&str; 6] = ["v", "value", "fmt", "re\nemit", "r\u{e9}", "x.y"];

/// `(otlp-re SIGNAL OUTER INNER)`: OUTER carries one or two values whose `Display` code emits INNER through the
/// emitter that is formatting them — as attributes, and half of the time also named by a hole of the template
/// (the message is formatted inside the record encoder: log body, span name, metric name).
fn otlp_re_case(rng: &mut Rng, tier: Tier, signal: &str, outer: &EventD) -> Option<String> {
    let mut outer = outer.clone();
    let n = if rng.chance(1, 4) { 2 } else { 1 };
    for _ in 0..n {
        let free: Vec<&str> = RE_KEYS.iter().copied().filter(|k| !outer.props.iter().any(|(k2, _)| k2 == k)).collect();
        let key = rng.pick(&free).to_string();
        let at = rng.usize(outer.props.len() + 1);
        outer.props.insert(at, (key.clone(), Val::Reemit(string(rng))));
        if rng.bool() {
            let at = rng.usize(outer.tpl.len() + 1);
            outer.tpl.insert(at, PartD::Hole(key));
        }
    }
    // the nested event: mostly one the signal takes, simple or generic
    let mut inner = if rng.chance(1, 3) {
        event(rng, AVOID_OTLP, tier)
    } else {
        EventD {
            mdl: "fmt".into(),
            tpl: vec![PartD::Text("formatting a value".into())],
            extent: ExtentD::None,
            unique: false,
            props: vec![("depth".into(), Val::Int(Int::signed(Ty::I32, rng.range(0, 9) as i128)))],
        }
    };
    shape(rng, &mut inner, signal, AVOID_OTLP);
    if inner.mdl == outer.mdl {
        inner.mdl.push_str("::fmt");
    }
    if signal == "metrics" && (metric_sum_nonfinite(&outer) || metric_sum_nonfinite(&inner)) {
        return None;
    }
    Some(format!("(otlp-re {} {} {})", signal, outer.to_sexp()?, inner.to_sexp()?))
}

pub fn gen_otlp(rng: &mut Rng, tier: Tier, n: usize) -> Vec<String> {
    gen_stream(rng, tier, n, AVOID_OTLP, |rng, e| {
        let signal = *rng.pick(&["logs", "logs", "traces", "traces", "metrics", "metrics", "metrics"]);
        let mut e = e.clone();
        shape(rng, &mut e, signal, AVOID_OTLP);
        if signal == "metrics" && metric_sum_nonfinite(&e) {
            return None;
        }
        // re-entrancy: a value of the event emits through the same emitter while it is being formatted
        if rng.chance(1, 8) {
            return otlp_re_case(rng, tier, signal, &e);
        }
        Some(format!("(otlp {} {})", signal, e.to_sexp()?))
    })
}

// ------------------------------------------------------------------------------------------ c13_term

/// values a template hole / the well-known keys of the terminal writer are given in the term stream: simple
/// captures only (a tree's token rendering is sval_fmt's business and not modelled)
fn term_simple(rng: &mut Rng) -> Val {
    loop {
        let v = any_val(rng, AVOID_FILE, 0);
        if !is_complex(&v) {
            return v;
        }
    }
}

fn is_complex(v: &Val) -> bool {
    matches!(v, Val::Sv(_) | Val::Fx(..) | Val::ArrI64(_) | Val::ArrF64(_))
}

fn term_scalar_elem(rng: &mut Rng) -> Tree {
    match rng.below(9) {
        0 | 1 | 2 => Tree::Int(Int::signed(Ty::I32, rng.range(0, 40) as i128 - 20)),
        3 => Tree::Int(Int::signed(Ty::I64, *rng.pick(&[i32::MIN as i128, i32::MAX as i128, i64::MAX as i128, i64::MIN as i128, 1 << 40]))),
        4 | 5 => Tree::F64(float(rng, AVOID_FILE)),
        6 => Tree::F32(float32(rng, AVOID_FILE)),
        7 => rng.pick(&[Tree::Null, Tree::None_, Tree::Bool(true), Tree::Text("x".into())]).clone(),
        _ => Tree::F64(*rng.pick(&[1.0, 2.0, 3.0, 1e300, -1e300, f64::MAX, f64::MIN, 0.3, 0.1])),
    }
}

fn term_metric_value(rng: &mut Rng) -> Val {
    match rng.below(8) {
        0 => term_simple(rng),
        1 | 2 => Val::ArrI64((0..rng.range(0, 6)).map(|_| rng.range(0, 50) as i64 - 10).collect()),
        3 | 4 => Val::ArrF64((0..rng.range(0, 6)).map(|_| float(rng, AVOID_FILE)).collect()),
        _ => {
            let n = match rng.below(4) {
                0 => 0,
                1 => 1,
                _ => rng.range(2, 12) as usize,
            };
            // often a constant or near-constant series (max - min = 0 or tiny)
            if rng.chance(1, 5) {
                let x = term_scalar_elem(rng);
                Val::Sv(Tree::Seq((0..n).map(|_| x.clone()).collect()))
            } else {
                Val::Sv(Tree::Seq((0..n).map(|_| term_scalar_elem(rng)).collect()))
            }
        }
    }
}

pub fn gen_term(rng: &mut Rng, tier: Tier, n: usize) -> Vec<String> {
    let mut out = Vec::new();
    while out.len() < n.max(1) {
        let mut e = event(rng, AVOID_FILE, tier);
        // holes and the keys the writer reads get simple values (first occurrence wins)
        let holes: Vec<String> = e.tpl.iter().filter_map(|p| if let PartD::Hole(h) = p { Some(h.clone()) } else { None }).collect();
        let read = ["span_id", "trace_id", "lvl", "evt_kind", "err", "metric_value"];
        let mut seen: Vec<String> = Vec::new();
        for (k, v) in e.props.iter_mut() {
            if seen.contains(k) {
                continue;
            }
            seen.push(k.clone());
            if k == "metric_value" {
                // a sequence in a hole is rendered through sval_fmt tokens (not modelled): simple values only there
                *v = if holes.contains(k) { term_simple(rng) } else { term_metric_value(rng) };
            } else if (holes.contains(k) || read.contains(&k.as_str())) && is_complex(v) {
                *v = term_simple(rng);
            }
        }
        if rng.chance(1, 3) && !e.props.iter().any(|(k, _)| k == "metric_value") && !holes.iter().any(|h| h == "metric_value") {
            e.props.push(("metric_value".into(), term_metric_value(rng)));
        }
        if rng.chance(1, 4) {
            let at = rng.usize(e.props.len() + 1);
            let v = well_known_val(rng, "span_id", AVOID_FILE, 0);
            if !is_complex(&v) && !e.props.iter().any(|(k, _)| k == "span_id") {
                e.props.insert(at, ("span_id".into(), v));
                e.unique = false;
            }
        }
        let mut ks: Vec<&str> = e.props.iter().map(|(k, _)| k.as_str()).collect();
        ks.sort();
        if ks.windows(2).any(|w| w[0] == w[1]) {
            e.unique = false;
        }
        if let Some(s) = e.to_sexp() {
            out.push(format!("(term {})", s));
        }
    }
    out
}
