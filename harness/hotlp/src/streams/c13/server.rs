//! A minimal request-capturing HTTP/1.1 collector for the C13 streams (std only).
//!
//! Listens on 127.0.0.1:0, accepts any number of keep-alive connections, and for every request records
//! `(path, content-type, body)` *before* answering `200 OK` with an empty body — so once the client's
//! `blocking_flush` has returned `true` every request of the flushed batch is in the capture list.

use std::io::{BufRead, BufReader, Read, Write};
use std::net::{TcpListener, TcpStream};
use std::sync::{Arc, Mutex};

#[derive(Clone, Debug)]
pub struct Captured {
    pub path: String,
    pub content_type: String,
    pub body: Vec<u8>,
}

pub struct Server {
    pub port: u16,
    captured: Arc<Mutex<Vec<Captured>>>,
}

impl Server {
    pub fn start() -> Server {
        let listener = TcpListener::bind("127.0.0.1:0").expect("bind");
        let port = listener.local_addr().unwrap().port();
        let captured = Arc::new(Mutex::new(Vec::new()));
        let cap = captured.clone();
        std::thread::Builder::new()
            .name("c13_collector".into())
            .spawn(move || {
                for conn in listener.incoming() {
                    let Ok(conn) = conn else { continue };
                    let cap = cap.clone();
                    let _ = std::thread::Builder::new().name("c13_conn".into()).spawn(move || {
                        let _ = serve(conn, cap);
                    });
                }
            })
            .expect("spawn collector");
        Server { port, captured }
    }

    /// Take every request captured so far whose path is `path`.
    pub fn take(&self, path: &str) -> Vec<Captured> {
        let mut g = self.captured.lock().unwrap();
        let (mine, rest): (Vec<_>, Vec<_>) = g.drain(..).partition(|c| c.path == path);
        *g = rest;
        mine
    }
}

fn serve(conn: TcpStream, cap: Arc<Mutex<Vec<Captured>>>) -> std::io::Result<()> {
    conn.set_nodelay(true)?;
    let mut w = conn.try_clone()?;
    let mut r = BufReader::new(conn);
    loop {
        // request line
        let mut line = String::new();
        if r.read_line(&mut line)? == 0 {
            return Ok(());
        }
        let mut parts = line.split_whitespace();
        let _method = parts.next().unwrap_or("");
        let target = parts.next().unwrap_or("");
        // hyper's client may send the absolute form (`http://host:port/path`); keep the path only
        let path = match target.find("://") {
            Some(i) => match target[i + 3..].find('/') {
                Some(j) => target[i + 3 + j..].to_string(),
                None => "/".to_string(),
            },
            None => target.to_string(),
        };
        // headers
        let mut content_length = 0usize;
        let mut content_type = String::new();
        loop {
            let mut h = String::new();
            if r.read_line(&mut h)? == 0 {
                return Ok(());
            }
            let h = h.trim_end();
            if h.is_empty() {
                break;
            }
            if let Some((k, v)) = h.split_once(':') {
                let k = k.trim().to_ascii_lowercase();
                let v = v.trim();
                if k == "content-length" {
                    content_length = v.parse().unwrap_or(0);
                } else if k == "content-type" {
                    content_type = v.to_string();
                }
            }
        }
        let mut body = vec![0u8; content_length];
        r.read_exact(&mut body)?;
        cap.lock().unwrap().push(Captured { path, content_type, body });
        w.write_all(b"HTTP/1.1 200 OK\r\ncontent-length: 0\r\n\r\n")?;
        w.flush()?;
    }
}
