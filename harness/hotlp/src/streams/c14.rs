//! C14 — each event goes to exactly one OTLP signal, chosen by kind, logs as fallback.
//! Drives the REAL `emit_otlp::Otlp` (public builders, HTTP+protobuf, gzip on) against the local collector.
//!
//! case format (see lean/EmitModel/Driver/C14.lean):
//!   (c14 (sig LOGS TRACES METRICS) E (props (xKEY V)…))          E, V: see evt.rs
//! output: `<logs|traces|metrics|none> discard=<delta of event_discarded>`
//! Only the ROUTING is observed (which signal's endpoint received the record, the discard counter) - never the
//! recorded time value (instants past 2^64 ns wrap: C13's known finding c13-f6-time-wraps).

use crate::collector::{Collector, Signal};
use crate::evt::{self, Ext, D, V};
use emit::Emitter as _;
use hcommon::{Rng, Sexp, Stream, Tier};
use std::collections::HashMap;
use std::sync::atomic::{AtomicI64, Ordering};
use std::sync::{Mutex, OnceLock};
use std::time::Duration;

pub fn streams() -> Vec<Stream> {
    vec![Stream { name: "c14", gen: gen_c14, run: run_c14 }]
}

// ------------------------------------------------------------------ the real emitters, one per signal subset

struct World {
    collector: Collector,
    otlps: Mutex<HashMap<u8, &'static emit_otlp::Otlp>>,
}

fn world() -> &'static World {
    static W: OnceLock<World> = OnceLock::new();
    W.get_or_init(|| World { collector: Collector::start(), otlps: Mutex::new(HashMap::new()) })
}

fn otlp_for(sig: (bool, bool, bool)) -> &'static emit_otlp::Otlp {
    let w = world();
    let key = (sig.0 as u8) | (sig.1 as u8) << 1 | (sig.2 as u8) << 2;
    let mut m = w.otlps.lock().unwrap();
    *m.entry(key).or_insert_with(|| {
        let mut b = emit_otlp::new();
        if sig.0 {
            b = b.logs(emit_otlp::logs_http_proto(w.collector.http_url(Signal::Logs)));
        }
        if sig.1 {
            b = b.traces(emit_otlp::traces_http_proto(w.collector.http_url(Signal::Traces)));
        }
        if sig.2 {
            b = b.metrics(emit_otlp::metrics_http_proto(w.collector.http_url(Signal::Metrics)));
        }
        Box::leak(Box::new(b.spawn()))
    })
}

static NEXT_ID: AtomicI64 = AtomicI64::new(1);

/// `(c14mt (sig false TRACES METRICS) THREADS N)`: THREADS threads emit N un-kinded events each at the same time into an
/// emitter without the logs signal: every one of them is dropped, and counted — the counter moves by exactly
/// THREADS × N (one per discard, also when discards race).
fn run_c14mt(args: &[Sexp]) -> Option<String> {
    let (st, sa) = args[0].as_tagged()?;
    if st != "sig" || sa.len() != 3 {
        return None;
    }
    let sig = (sa[0].as_bool()?, sa[1].as_bool()?, sa[2].as_bool()?);
    let (threads, n) = (args[1].as_usize()?, args[2].as_usize()?);
    if sig.0 || threads == 0 || threads > 16 || n > 200_000 {
        return None;
    }
    let otlp = otlp_for(sig);
    let before = otlp.metric_source().event_discarded();
    let barrier = std::sync::Barrier::new(threads);
    std::thread::scope(|sc| {
        for _ in 0..threads {
            sc.spawn(|| {
                barrier.wait();
                for _ in 0..n {
                    otlp.emit(emit::Event::new(emit::Path::new_raw("hotlp::c14mt"), emit::Template::literal("e"), emit::Empty, emit::Empty));
                }
            });
        }
    });
    let discarded = otlp.metric_source().event_discarded() - before;
    Some(format!("discard={}", discarded))
}

fn run_c14(line: &str) -> String {
    (|| -> Option<String> {
        let s = Sexp::parse(line)?;
        let (tag, args) = s.as_tagged()?;
        if tag == "c14mt" && args.len() == 3 {
            return run_c14mt(args);
        }
        if tag != "c14" || args.len() != 3 {
            return None;
        }
        let (st, sa) = args[0].as_tagged()?;
        if st != "sig" || sa.len() != 3 {
            return None;
        }
        let sig = (sa[0].as_bool()?, sa[1].as_bool()?, sa[2].as_bool()?);
        let ext = Ext::parse(&args[1])?;
        let mut props = evt::parse_props(&args[2])?;
        if props.iter().any(|(k, _)| k == "id") {
            return None;
        }
        let id = NEXT_ID.fetch_add(1, Ordering::Relaxed);
        props.push(("id".to_string(), V::I64(id)));

        let w = world();
        let otlp = otlp_for(sig);
        let _ = w.collector.take_log();
        let before = otlp.metric_source().event_discarded();
        evt::with_event("hotlp::c14", &ext, &props, |e| otlp.emit(e));
        let flushed = otlp.blocking_flush(Duration::from_secs(20));
        let after = otlp.metric_source().event_discarded();
        let discarded = after - before;
        let log = w.collector.take_log();

        let mut hits: Vec<Signal> = Vec::new();
        let mut fail: Option<String> = None;
        // the discard counter is a running total for every reader: a periodic reporter sampling the metric source must
        // see it, and must not take it away from the accessor (or from the next sample)
        {
            use emit::metric::Source;
            let sampled = |otlp: &emit_otlp::Otlp| {
                let cell = std::cell::Cell::new(None);
                otlp.metric_source().sample_metrics(emit::metric::sampler::from_fn(|m| {
                    if m.name().get() == "event_discarded" {
                        cell.set(m.value().by_ref().cast::<u64>());
                    }
                }));
                cell.get()
            };
            let (s1, s2, a2) = (sampled(&otlp), sampled(&otlp), otlp.metric_source().event_discarded());
            if s1 != Some(after as u64) || s2 != Some(after as u64) || a2 != after {
                fail.get_or_insert(format!("sampling-the-metric-source-changed-event_discarded({:?},{:?},{}!={})", s1, s2, a2, after));
            }
        }
        for r in &log {
            if let Some(m) = &r.malformed {
                fail.get_or_insert(format!("malformed-request({})", m));
            }
            if !r.resp.is_ack(r.grpc) {
                fail.get_or_insert("collector-did-not-ack".into());
            }
            for rec in r.records.iter().flatten() {
                if rec.id == Some(id) {
                    hits.push(r.signal);
                } else {
                    fail.get_or_insert(format!("foreign-record({:?})", rec.id));
                }
            }
        }
        if !flushed {
            fail.get_or_insert("flush-timeout".into());
        }
        // the property on the real observations alone: exactly one export or exactly one counted discard
        if hits.len() > 1 {
            fail.get_or_insert(format!("exported-{}-times", hits.len()));
        }
        if hits.len() + discarded != 1 {
            fail.get_or_insert(format!("exports({})+discards({})!=1", hits.len(), discarded));
        }
        // "everything else ... through the logs signal": logs takes every event, so with logs configured nothing
        // is ever dropped - whatever the kind, the properties or the instants of the extent
        if sig.0 && discarded != 0 {
            fail.get_or_insert(format!("discarded({})-although-the-logs-signal-is-configured", discarded));
        }
        if let Some(h) = hits.first() {
            let configured = match h {
                Signal::Logs => sig.0,
                Signal::Traces => sig.1,
                Signal::Metrics => sig.2,
            };
            if !configured {
                fail.get_or_insert("exported-through-unconfigured-signal".into());
            }
        }
        let out = format!("{} discard={}", hits.first().map(|s| s.name()).unwrap_or("none"), discarded);
        Some(match fail {
            None => out,
            Some(f) => format!("{}\tFAIL:{}", out, f),
        })
    })()
    .unwrap_or_else(|| "bad-case".into())
}

// ------------------------------------------------------------------ generator: the shape grammar, exhaustively

fn s(x: &str) -> V {
    V::Str(x.to_string())
}
fn seq(xs: Vec<V>) -> V {
    V::Seq(xs, false)
}
fn sseq(xs: Vec<V>) -> V {
    V::Seq(xs, true)
}

/// concrete realisations of each kind class: lists of `evt_kind` properties (first wins)
fn kind_variants() -> Vec<(&'static str, Vec<Vec<V>>)> {
    let span = emit::Kind::Span;
    let metric = emit::Kind::Metric;
    vec![
        ("none", vec![vec![]]),
        (
            "span",
            vec![
                vec![V::Kind(span)],
                vec![s("span")],
                vec![s("SPAN")],
                vec![s(" Span\t")],
                vec![s("\u{2003}sPaN\u{a0}\n")],
                vec![V::Disp(D("span".into()))],
                vec![s("span"), V::Kind(metric)],
                vec![V::Kind(span), s("nonsense")],
            ],
        ),
        (
            "metric",
            vec![
                vec![V::Kind(metric)],
                vec![s("metric")],
                vec![s("METRIC")],
                vec![s("\tmEtRiC  ")],
                vec![V::Disp(D(" Metric".into()))],
                vec![s("metric"), V::Kind(span)],
                vec![V::Kind(metric), s("span")],
            ],
        ),
        (
            "unknown",
            vec![
                vec![s("spanx")],
                vec![s("")],
                vec![s("sp an")],
                vec![s("metrics")],
                vec![s("\u{17f}pan")],
                vec![s("spa\u{212a}")],
                vec![V::I64(1)],
                vec![V::Bool(true)],
                vec![V::Null],
                vec![seq(vec![s("span")])],
                vec![s("log"), V::Kind(span)],
                vec![V::Disp(D("x".into())), V::Kind(metric)],
            ],
        ),
    ]
}

/// first instant (nanoseconds since the epoch) that does not fit OTLP's 64-bit `*_unix_nano` fields: 2554-07-21T23:34:33.709551616Z
const FAR: u128 = 1 << 64;
/// 3000-01-01T00:00:00Z
const Y3000: u128 = 32_503_680_000 * 1_000_000_000;

/// `Timestamp::MAX` (9999-12-31T23:59:59.999999999Z) in nanoseconds
fn ts_max() -> u128 {
    emit::Timestamp::MAX.to_unix().as_nanos()
}

/// The `-far` classes hold an instant at or after 2^64 ns: what such an instant is *recorded as* is C13's subject
/// (known finding c13-f6-time-wraps); here only the routing is observed — the logs signal is the catch-all and
/// takes the event whatever its instants, a qualifying span / metric sample stays on its own signal.
fn extent_variants() -> Vec<(&'static str, Vec<Ext>)> {
    let max = ts_max();
    vec![
        ("none", vec![Ext::None]),
        ("point", vec![Ext::Point(0), Ext::Point(1_700_000_000_123_456_789), Ext::Point(FAR - 1)]),
        ("point-far", vec![Ext::Point(FAR), Ext::Point(Y3000), Ext::Point(max)]),
        (
            "range",
            vec![Ext::Range(1_000, 2_000), Ext::Range(5_000_000_000, 5_000_000_000), Ext::Range(9_000_000_000, 3), Ext::Range(1_000, FAR - 1)],
        ),
        (
            "range-far",
            vec![
                Ext::Range(1_000, Y3000),
                Ext::Range(0, FAR),
                Ext::Range(FAR, FAR),
                Ext::Range(Y3000, max),
                Ext::Range(max, max),
                Ext::Range(1_700_000_000_000_000_000, max),
                // reversed: only the start is out of the 64-bit range
                Ext::Range(Y3000, 5),
            ],
        ),
    ]
}

fn value_variants() -> Vec<(&'static str, Vec<Option<V>>)> {
    let big = 1u128 << 100;
    vec![
        ("missing", vec![None]),
        (
            "num",
            vec![
                Some(V::I64(42)),
                Some(V::I64(i64::MIN)),
                Some(V::I64(i64::MAX)),
                Some(V::U64(7)),
                Some(V::U64(i64::MAX as u64)),
                Some(V::I128(-5)),
                Some(V::U128(12)),
                Some(V::F64(1.5)),
                Some(V::F64(f64::NAN)),
                Some(V::F64(f64::INFINITY)),
                Some(V::F64(-0.0)),
            ],
        ),
        ("seq-empty", vec![Some(seq(vec![])), Some(sseq(vec![]))]),
        (
            "seq-nums",
            vec![
                Some(seq(vec![V::I64(1)])),
                Some(seq(vec![V::I64(1), V::I64(2), V::I64(3)])),
                Some(sseq(vec![V::F64(1.5), V::F64(2.5)])),
                Some(seq(vec![V::I64(1), V::F64(2.0), V::U64(3)])),
                Some(sseq(vec![V::U128(5), V::I128(-5), V::U64(i64::MAX as u64)])),
                // running sums that leave i64 (upwards, downwards): still a metric sample, still the metrics signal
                Some(seq(vec![V::I64(i64::MAX), V::I64(1)])),
                Some(seq(vec![V::I64(i64::MIN), V::I64(-1), V::I64(5)])),
                Some(sseq(vec![V::I64(i64::MAX), V::I64(i64::MAX), V::I64(i64::MAX)])),
            ],
        ),
        (
            "nested",
            vec![
                Some(seq(vec![seq(vec![])])),
                Some(seq(vec![V::I64(1), seq(vec![V::I64(2)])])),
                Some(sseq(vec![sseq(vec![V::I64(1), V::I64(2)])])),
                Some(seq(vec![seq(vec![V::I64(1)]), V::I64(2)])),
                Some(sseq(vec![s("a"), sseq(vec![])])),
            ],
        ),
        (
            "non-numeric",
            vec![
                Some(s("12")),
                Some(s("")),
                Some(V::Bool(true)),
                Some(V::Null),
                Some(V::Disp(D("1".into()))),
                Some(V::Kind(emit::Kind::Metric)),
                Some(V::U64(u64::MAX)),
                Some(V::U64(i64::MAX as u64 + 1)),
                Some(V::I128(i64::MIN as i128 - 1)),
                Some(V::U128(big)),
                Some(seq(vec![V::I64(1), s("a")])),
                Some(seq(vec![V::Bool(false)])),
                Some(sseq(vec![V::Null])),
                Some(seq(vec![V::I64(1), V::U64(u64::MAX)])),
            ],
        ),
    ]
}

fn agg_variants() -> Vec<(&'static str, Vec<Option<V>>)> {
    vec![
        ("missing", vec![None]),
        ("count", vec![Some(s("count"))]),
        ("sum", vec![Some(s("sum"))]),
        ("min", vec![Some(s("min"))]),
        ("max", vec![Some(s("max"))]),
        ("last", vec![Some(s("last"))]),
        (
            "unknown",
            vec![Some(s("p99")), Some(s("SUM")), Some(s(" sum")), Some(s("Count")), Some(V::I64(1)), Some(V::Disp(D("sum".into()))), Some(V::Null), Some(V::Bool(true))],
        ),
    ]
}

fn case_line(sig: u8, kinds: &[V], ext: &Ext, value: &Option<V>, agg: &Option<V>, name: bool, rng: &mut Rng) -> String {
    let mut props: Vec<(String, V)> = Vec::new();
    if let Some(v) = value {
        props.push(("metric_value".into(), v.clone()));
    }
    if let Some(a) = agg {
        props.push(("metric_agg".into(), a.clone()));
    }
    if name {
        props.push(("metric_name".into(), s("m")));
    }
    if rng.chance(1, 3) {
        props.push(("user".into(), s("x")));
    }
    // interleave the evt_kind properties at random positions, keeping their relative order (first wins)
    let mut pos: Vec<usize> = kinds.iter().map(|_| rng.usize(props.len() + 1)).collect();
    pos.sort();
    for (i, (p, k)) in pos.iter().zip(kinds).enumerate() {
        props.insert(p + i, ("evt_kind".into(), k.clone()));
    }
    Sexp::tagged(
        "c14",
        vec![
            Sexp::tagged("sig", vec![Sexp::bool(sig & 1 != 0), Sexp::bool(sig & 2 != 0), Sexp::bool(sig & 4 != 0)]),
            ext.to_sexp(),
            evt::props_sexp(&props),
        ],
    )
    .to_string()
}

/// Exhaustive over (signal subset × kind class × extent class × value class × agg class) = 8·4·5·6·7 = 6720
/// shape cells (the extent classes none / point / range of the model, the latter two also with instants past
/// the 64-bit nanosecond range) (× metric_name present/absent in the thorough tier); the concrete realisation of each class is
/// drawn from the variant lists with the seeded PRNG (`reps` draws per cell). Cases are ordered by signal
/// subset so that consecutive cases reuse the same live emitter.
fn gen_c14(rng: &mut Rng, tier: Tier, n: usize) -> Vec<String> {
    let kinds = kind_variants();
    let extents = extent_variants();
    let values = value_variants();
    let aggs = agg_variants();
    let cells = 8 * kinds.len() * extents.len() * values.len() * aggs.len();
    let names: &[Option<bool>] = if tier == Tier::Thorough { &[Some(false), Some(true)] } else { &[None] };
    let reps = std::cmp::max(1, n / (cells * names.len()));
    let mut out = Vec::new();
    // racing discards first (no network involved)
    out.push("(c14mt (sig false true false) 8 20000)".to_string());
    out.push("(c14mt (sig false false false) 4 30000)".to_string());
    if tier == Tier::Thorough {
        for _ in 0..6 {
            out.push(format!("(c14mt (sig false {} {}) {} {})", rng.bool(), rng.bool(), 2 + rng.usize(10), 20_000 + rng.usize(80_000)));
        }
    }
    for sig in 0u8..8 {
        for (_, kv) in &kinds {
            for (_, ev) in &extents {
                for (_, vv) in &values {
                    for (_, av) in &aggs {
                        for name in names {
                            for _ in 0..reps {
                                let name = name.unwrap_or_else(|| rng.bool());
                                let k = rng.pick(&kv[..]).clone();
                                let e = *rng.pick(&ev[..]);
                                let v = rng.pick(&vv[..]).clone();
                                let a = rng.pick(&av[..]).clone();
                                out.push(case_line(sig, &k, &e, &v, &a, name, rng));
                            }
                        }
                    }
                }
            }
        }
    }
    out
}
