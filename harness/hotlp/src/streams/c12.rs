//! C12 — OTLP export delivers every accepted event however batches are split.
//! Drives the REAL `emit_otlp::Otlp` (public builders; HTTP/JSON, HTTP/protobuf, gRPC framing; gzip on/off; any
//! subset of signals; dead endpoints) against the scripted local collector.
//!
//! case format (see lean/EmitModel/Driver/C12.lean):
//!   (c12 (cfg http|grpc proto|json GZIP LIMIT) (sig LOGS TRACES METRICS) (dead SIGNAL…)
//!        (events (ev ID log|span|metric xMDL PAD SIZE)…)            PAD ::= N | (rnd N)
//!        (script (logs R…) (traces R…) (metrics R…)) (end flush|drop))
//!   R ::= ack | ackbody | (status N) | (grpc N) | (grpch N) | stall | stallh | rsth | drph | rstb | rsta
//!   PAD N = `pad` property of N times 'a'; (rnd N) = N chars of pseudo-random hex text seeded by the id (poorly
//!   compressible: exercises multi-call gzip output). stallh (gRPC only) = response HEADERS, then silence.
//!   rsth (gRPC only) = response HEADERS (`:status 200`, no grpc-status), then RST_STREAM before any trailers.
//!   drph = response HEADERS (200; HTTP: content-length 64 and 10 bytes of body), then the CONNECTION is dropped:
//!   gRPC - a failure (no trailers ever came); HTTP - acknowledged by the status line (the body is never read);
//!   either way the client has pooled a sender whose connection is gone: its next attempt fails without
//!   reaching the collector and uses up one retry.
//!   LIMIT = request size limit (hook H4), PAD = length of the `pad` text property, SIZE = length of the encoded
//!   event payload (measured by the generator on the real encoder; re-checked on the wire by the runner).
//!   end: `flush` = call `blocking_flush`; `drop` = drop the emitter instead and wait for its worker thread to end.
//! output:
//!   logs=[E…] traces=[E…] metrics=[E…] flush=B|dropped       E ::= <ids joined by , | ? | !>:<resp>:<n|r>
//!   `!` = the body did not validate (inflated length / framing / full decode with the generated types)
//!   one E per request the endpoint saw, in arrival order; n = arrived on a new connection, r = reused.
//!
//! Protocol of one case (deterministic batch composition): per configured live signal a *primer* event is emitted
//! first and its request is parked by the collector; while every worker is thus busy the case's events are emitted
//! (they all land in each signal's next batch), then the primers are acknowledged and `blocking_flush` is called.

use crate::collector::{Collector, Recorded, Resp, Signal};
use crate::evt::{self, Ext, V};
use emit::Emitter as _;
use hcommon::{Rng, Sexp, Stream, Tier};
use std::collections::{HashMap, VecDeque};
use std::sync::OnceLock;
use std::time::Duration;

pub fn streams() -> Vec<Stream> {
    vec![Stream { name: "c12", gen: gen_c12, run: run_c12 }]
}

// ------------------------------------------------------------------ case

#[derive(Clone, Copy, PartialEq, Eq, Debug, Hash)]
enum Transport {
    Http,
    Grpc,
}
#[derive(Clone, Copy, PartialEq, Eq, Debug, Hash)]
enum Enc {
    Proto,
    Json,
    /// a different encoding per signal (HTTP only): logs protobuf, traces JSON, metrics protobuf — whatever the signals
    /// share (the resource) has to be encoded for each of them
    MixedPjp,
    /// logs JSON, traces protobuf, metrics JSON
    MixedJpj,
}

impl Enc {
    fn json_for(self, s: Signal) -> bool {
        match self {
            Enc::Proto => false,
            Enc::Json => true,
            Enc::MixedPjp => s == Signal::Traces,
            Enc::MixedJpj => s != Signal::Traces,
        }
    }
    fn name(self) -> &'static str {
        match self {
            Enc::Proto => "proto",
            Enc::Json => "json",
            Enc::MixedPjp => "mixedpjp",
            Enc::MixedJpj => "mixedjpj",
        }
    }
}
#[derive(Clone, Copy, PartialEq, Eq, Debug)]
enum Kind {
    Log,
    Span,
    Metric,
}

#[derive(Clone, Copy, Debug, PartialEq, Eq)]
enum Pad {
    /// n times 'a'
    Rep(usize),
    /// n chars of pseudo-random hex text (SplitMix64 seeded by the event id)
    Rnd(usize),
    /// n times "é日✓" (2-, 3- and 3-byte characters): text whose length in bytes is not its length in characters
    Uni(usize),
}

impl Pad {
    fn text(self, id: i64) -> String {
        match self {
            Pad::Rep(n) => "a".repeat(n),
            Pad::Uni(n) => "é日✓".repeat(n),
            Pad::Rnd(n) => {
                let mut rng = Rng::new(id as u64 ^ 0x5eed);
                let mut s = String::with_capacity(n + 16);
                while s.len() < n {
                    s.push_str(&format!("{:016x}", rng.next()));
                }
                s.truncate(n);
                s
            }
        }
    }
    fn to_sexp(self) -> Sexp {
        match self {
            Pad::Rep(n) => Sexp::num(n),
            Pad::Rnd(n) => Sexp::tagged("rnd", vec![Sexp::num(n)]),
            Pad::Uni(n) => Sexp::tagged("uni", vec![Sexp::num(n)]),
        }
    }
    fn parse(s: &Sexp) -> Option<Pad> {
        if let Some(n) = s.as_usize() {
            return Some(Pad::Rep(n));
        }
        let (t, a) = s.as_tagged()?;
        if t == "rnd" && a.len() == 1 {
            return Some(Pad::Rnd(a[0].as_usize()?));
        }
        if t == "uni" && a.len() == 1 {
            return Some(Pad::Uni(a[0].as_usize()?));
        }
        None
    }
}

#[derive(Clone, Debug)]
struct Ev {
    id: i64,
    kind: Kind,
    mdl: String,
    pad: Pad,
    size: usize,
}

#[derive(Clone, Debug)]
struct Case {
    transport: Transport,
    enc: Enc,
    gzip: bool,
    limit: usize,
    sig: [bool; 3],
    dead: [bool; 3],
    events: Vec<Ev>,
    script: [Vec<Resp>; 3],
    drop: bool,
}

fn sig_index(s: Signal) -> usize {
    match s {
        Signal::Logs => 0,
        Signal::Traces => 1,
        Signal::Metrics => 2,
    }
}

fn resp_sexp(r: Resp) -> Sexp {
    match r {
        Resp::Ack => Sexp::atom("ack"),
        Resp::AckBody => Sexp::atom("ackbody"),
        Resp::Status(n) => Sexp::tagged("status", vec![Sexp::num(n)]),
        Resp::GrpcStatus(n) => Sexp::tagged("grpc", vec![Sexp::num(n)]),
        Resp::GrpcStatusHeaders(n) => Sexp::tagged("grpch", vec![Sexp::num(n)]),
        Resp::Stall => Sexp::atom("stall"),
        Resp::StallAfterHeaders => Sexp::atom("stallh"),
        Resp::ResetAfterHeaders => Sexp::atom("rsth"),
        Resp::DropAfterHeaders => Sexp::atom("drph"),
        Resp::ResetBefore => Sexp::atom("rstb"),
        Resp::ResetAfter => Sexp::atom("rsta"),
        Resp::Hold => Sexp::atom("hold"),
    }
}

fn resp_parse(s: &Sexp) -> Option<Resp> {
    if let Some(a) = s.as_atom() {
        return Some(match a {
            "ack" => Resp::Ack,
            "ackbody" => Resp::AckBody,
            "stall" => Resp::Stall,
            "stallh" => Resp::StallAfterHeaders,
            "rsth" => Resp::ResetAfterHeaders,
            "drph" => Resp::DropAfterHeaders,
            "rstb" => Resp::ResetBefore,
            "rsta" => Resp::ResetAfter,
            _ => return None,
        });
    }
    let (t, a) = s.as_tagged()?;
    if a.len() != 1 {
        return None;
    }
    match t {
        "status" => {
            let n = a[0].as_u64()?;
            // hyper refuses to build other status codes; 1xx are interim responses, not answers
            if !(200..=599).contains(&n) {
                return None;
            }
            Some(Resp::Status(n as u16))
        }
        "grpc" => Some(Resp::GrpcStatus(u32::try_from(a[0].as_u64()?).ok()?)),
        "grpch" => Some(Resp::GrpcStatusHeaders(u32::try_from(a[0].as_u64()?).ok()?)),
        _ => None,
    }
}

fn resp_show(r: Resp) -> String {
    match r {
        Resp::Ack => "ack".into(),
        Resp::AckBody => "ackbody".into(),
        Resp::Status(n) => format!("status{}", n),
        Resp::GrpcStatus(n) => format!("grpc{}", n),
        Resp::GrpcStatusHeaders(n) => format!("grpch{}", n),
        Resp::Stall => "stall".into(),
        Resp::StallAfterHeaders => "stallh".into(),
        Resp::ResetAfterHeaders => "rsth".into(),
        Resp::DropAfterHeaders => "drph".into(),
        Resp::ResetBefore => "rstb".into(),
        Resp::ResetAfter => "rsta".into(),
        Resp::Hold => "hold".into(),
    }
}

impl Case {
    fn to_line(&self) -> String {
        let sig_names = ["logs", "traces", "metrics"];
        Sexp::tagged(
            "c12",
            vec![
                Sexp::tagged(
                    "cfg",
                    vec![
                        Sexp::atom(if self.transport == Transport::Http { "http" } else { "grpc" }),
                        Sexp::atom(self.enc.name()),
                        Sexp::bool(self.gzip),
                        Sexp::num(self.limit),
                    ],
                ),
                Sexp::tagged("sig", self.sig.iter().map(|b| Sexp::bool(*b)).collect()),
                Sexp::tagged("dead", (0..3).filter(|i| self.dead[*i]).map(|i| Sexp::atom(sig_names[i])).collect()),
                Sexp::tagged(
                    "events",
                    self.events
                        .iter()
                        .map(|e| {
                            Sexp::tagged(
                                "ev",
                                vec![
                                    Sexp::num(e.id),
                                    Sexp::atom(match e.kind {
                                        Kind::Log => "log",
                                        Kind::Span => "span",
                                        Kind::Metric => "metric",
                                    }),
                                    Sexp::str(&e.mdl),
                                    e.pad.to_sexp(),
                                    Sexp::num(e.size),
                                ],
                            )
                        })
                        .collect(),
                ),
                Sexp::tagged(
                    "script",
                    (0..3).map(|i| Sexp::tagged(sig_names[i], self.script[i].iter().map(|r| resp_sexp(*r)).collect())).collect(),
                ),
                Sexp::tagged("end", vec![Sexp::atom(if self.drop { "drop" } else { "flush" })]),
            ],
        )
        .to_string()
    }

    fn parse(line: &str) -> Option<Case> {
        let s = Sexp::parse(line)?;
        let (tag, a) = s.as_tagged()?;
        if tag != "c12" || a.len() != 6 {
            return None;
        }
        let (t, e) = a[5].as_tagged()?;
        if t != "end" || e.len() != 1 {
            return None;
        }
        let drop = match e[0].as_atom()? {
            "flush" => false,
            "drop" => true,
            _ => return None,
        };
        let (t, c) = a[0].as_tagged()?;
        if t != "cfg" || c.len() != 4 {
            return None;
        }
        let transport = match c[0].as_atom()? {
            "http" => Transport::Http,
            "grpc" => Transport::Grpc,
            _ => return None,
        };
        let enc = match c[1].as_atom()? {
            "proto" => Enc::Proto,
            "json" => Enc::Json,
            "mixedpjp" => Enc::MixedPjp,
            "mixedjpj" => Enc::MixedJpj,
            _ => return None,
        };
        if transport == Transport::Grpc && enc != Enc::Proto {
            return None; // not a configuration emit_otlp supports (the request hook rejects the content type)
        }
        let gzip = c[2].as_bool()?;
        let limit = c[3].as_usize()?;
        let (t, g) = a[1].as_tagged()?;
        if t != "sig" || g.len() != 3 {
            return None;
        }
        let sig = [g[0].as_bool()?, g[1].as_bool()?, g[2].as_bool()?];
        let (t, d) = a[2].as_tagged()?;
        if t != "dead" {
            return None;
        }
        let mut dead = [false; 3];
        for x in d {
            match x.as_atom()? {
                "logs" => dead[0] = true,
                "traces" => dead[1] = true,
                "metrics" => dead[2] = true,
                _ => return None,
            }
        }
        let (t, evs) = a[3].as_tagged()?;
        if t != "events" {
            return None;
        }
        let mut events = Vec::new();
        for e in evs {
            let (t, f) = e.as_tagged()?;
            if t != "ev" || f.len() != 5 {
                return None;
            }
            let id = f[0].as_i64()?;
            if id <= 0 || events.iter().any(|x: &Ev| x.id == id) {
                return None; // ids are positive and unique (primers use negative ids)
            }
            events.push(Ev {
                id,
                kind: match f[1].as_atom()? {
                    "log" => Kind::Log,
                    "span" => Kind::Span,
                    "metric" => Kind::Metric,
                    _ => return None,
                },
                mdl: f[2].as_string()?,
                pad: Pad::parse(&f[3])?,
                size: f[4].as_usize()?,
            });
        }
        let (t, sc) = a[4].as_tagged()?;
        if t != "script" || sc.len() != 3 {
            return None;
        }
        let mut script: [Vec<Resp>; 3] = Default::default();
        for (i, name) in ["logs", "traces", "metrics"].iter().enumerate() {
            let (t, rs) = sc[i].as_tagged()?;
            if t != *name {
                return None;
            }
            script[i] = rs.iter().map(resp_parse).collect::<Option<Vec<_>>>()?;
        }
        if transport == Transport::Http && script.iter().flatten().any(|r| matches!(r, Resp::GrpcStatus(_) | Resp::GrpcStatusHeaders(_) | Resp::StallAfterHeaders | Resp::ResetAfterHeaders)) {
            return None; // an OTLP/HTTP endpoint does not speak grpc-status; the HTTP path never reads the response body
        }
        Some(Case { transport, enc, gzip, limit, sig, dead, events, script, drop })
    }

    /// Where `OtlpInner::emit` sends a well-formed event of this kind (C14): its own signal when configured,
    /// else logs when configured, else nowhere.
    fn routed(&self, k: Kind) -> Option<usize> {
        let own = match k {
            Kind::Log => 0,
            Kind::Span => 1,
            Kind::Metric => 2,
        };
        if self.sig[own] {
            Some(own)
        } else if self.sig[0] {
            Some(0)
        } else {
            None
        }
    }
}

// ------------------------------------------------------------------ the real emitter

fn collector() -> &'static Collector {
    static C: OnceLock<Collector> = OnceLock::new();
    C.get_or_init(Collector::start)
}

fn build_otlp(c: &Collector, transport: Transport, enc: Enc, gzip: bool, sig: [bool; 3], dead: [bool; 3]) -> emit_otlp::Otlp {
    let t = |s: Signal| {
        let d = dead[sig_index(s)];
        let t = match transport {
            Transport::Http => emit_otlp::http(if d { c.dead_http_url(s) } else { c.http_url(s) }),
            Transport::Grpc => emit_otlp::grpc(if d { c.dead_grpc_url() } else { c.grpc_url() }),
        };
        // a configured header must reach the collector on every request, compressed or not, HTTP or gRPC
        t.allow_compression(gzip).headers([("x-hotlp-key", "k1")])
    };
    c.expect_header(Some(("x-hotlp-key", "k1")));
    let mut b = emit_otlp::new().resource([("service.name", "hotlp")]);
    if sig[0] {
        b = b.logs(if enc.json_for(Signal::Logs) { emit_otlp::logs_json(t(Signal::Logs)) } else { emit_otlp::logs_proto(t(Signal::Logs)) });
    }
    if sig[1] {
        b = b.traces(if enc.json_for(Signal::Traces) { emit_otlp::traces_json(t(Signal::Traces)) } else { emit_otlp::traces_proto(t(Signal::Traces)) });
    }
    if sig[2] {
        b = b.metrics(if enc.json_for(Signal::Metrics) { emit_otlp::metrics_json(t(Signal::Metrics)) } else { emit_otlp::metrics_proto(t(Signal::Metrics)) });
    }
    b.spawn()
}

fn emit_event(otlp: &emit_otlp::Otlp, id: i64, kind: Kind, mdl: &str, pad: Pad) {
    let mut props: Vec<(String, V)> = Vec::new();
    let ext;
    match kind {
        Kind::Log => {
            ext = Ext::Point(1_000_000 + id.unsigned_abs() as u128);
        }
        Kind::Span => {
            ext = Ext::Range(1_000_000, 2_000_000 + id.unsigned_abs() as u128);
            props.push(("evt_kind".into(), V::Kind(emit::Kind::Span)));
        }
        Kind::Metric => {
            ext = Ext::Point(1_000_000 + id.unsigned_abs() as u128);
            props.push(("evt_kind".into(), V::Kind(emit::Kind::Metric)));
            props.push(("metric_name".into(), V::Str("m".into())));
            props.push(("metric_agg".into(), V::Str("count".into())));
            props.push(("metric_value".into(), V::I64(1)));
        }
    }
    props.push(("id".into(), V::I64(id)));
    props.push(("pad".into(), V::Str(pad.text(id))));
    evt::with_event(mdl, &ext, &props, |e| otlp.emit(e));
}

fn set_hooks(limit: usize, timeout: Duration) {
    emit_otlp::verif::set_max_request_size(limit);
    emit_otlp::verif::set_request_timeout(timeout);
    emit_otlp::verif::set_wait_divisor(1000);
}

const REQUEST_TIMEOUT: Duration = Duration::from_millis(400);
const LONG: Duration = Duration::from_secs(30);
/// Set once a case of this process did not finish in its budget: the emitter under test can hang, and every
/// further hang should cost little (a check run over a hanging emitter, shrinking included, must stay feasible).
static SEEN_HANG: std::sync::atomic::AtomicBool = std::sync::atomic::AtomicBool::new(false);

/// How long a case may take to flush / wind down. A healthy case needs milliseconds plus the request timeout per
/// scripted stall; the base is generous (machine load) until a first hang was seen in this process.
fn flush_budget(case: &Case) -> Duration {
    let stalls = case.script.iter().flatten().filter(|r| matches!(r, Resp::Stall | Resp::StallAfterHeaders)).count() as u32;
    let base = if SEEN_HANG.load(std::sync::atomic::Ordering::Relaxed) { Duration::from_millis(700) } else { Duration::from_secs(8) };
    base + (REQUEST_TIMEOUT + Duration::from_millis(100)) * stalls
}

// ------------------------------------------------------------------ runner

/// Number of threads of this process (`Threads:` of /proc/self/status — one atomic counter, unlike a scan of
/// /proc/self/task, which can skip entries while other threads exit).
fn thread_count() -> Option<usize> {
    let s = std::fs::read_to_string("/proc/self/status").ok()?;
    s.lines().find_map(|l| l.strip_prefix("Threads:")).and_then(|v| v.trim().parse().ok())
}

/// Threads that exist when no emitter is alive: this one and the collector's.
fn baseline_threads() -> usize {
    static B: OnceLock<usize> = OnceLock::new();
    *B.get_or_init(|| {
        let _ = collector();
        thread_count().expect("/proc/self/status")
    })
}

/// Wait until every `emit_otlp_worker` thread has ended (the `Otlp` handle does not expose its worker): the
/// process is back to its baseline thread count. The worker runtimes are current-thread and connect to literal
/// IP addresses, so they never start helper threads.
fn wait_workers_gone(timeout: Duration) -> bool {
    let base = baseline_threads();
    let deadline = std::time::Instant::now() + timeout;
    loop {
        if thread_count().map(|n| n <= base).unwrap_or(false) {
            return true;
        }
        if std::time::Instant::now() >= deadline {
            return false;
        }
        std::thread::sleep(Duration::from_micros(500));
    }
}

fn show_entry(r: &Recorded, fresh: bool) -> String {
    let ids = match &r.records {
        _ if r.malformed.is_some() => "!".to_string(),
        None => "?".to_string(),
        Some(recs) => {
            let mut ids: Vec<i64> = recs.iter().map(|x| x.id.unwrap_or(0)).collect();
            ids.sort();
            ids.iter().map(|i| i.to_string()).collect::<Vec<_>>().join(",")
        }
    };
    format!("{}:{}:{}", ids, resp_show(r.resp), if fresh { "n" } else { "r" })
}

fn run_c12(line: &str) -> String {
    let Some(case) = Case::parse(line) else { return "bad-case".into() };
    let c = collector();
    let _ = baseline_threads();
    c.kill_connections(); // nothing of an earlier case may linger
    // phase 1: park every live worker on a primer request
    set_hooks(usize::MAX, LONG);
    let mut scripts: HashMap<Signal, VecDeque<Resp>> = HashMap::new();
    for s in Signal::ALL {
        scripts.insert(s, case.script[sig_index(s)].iter().copied().collect());
    }
    c.reset(scripts, true);
    let otlp = build_otlp(c, case.transport, case.enc, case.gzip, case.sig, case.dead);
    let discarded0 = otlp.metric_source().event_discarded();
    let mut primers = 0;
    for (i, k) in [Kind::Log, Kind::Span, Kind::Metric].into_iter().enumerate() {
        if case.sig[i] && !case.dead[i] {
            emit_event(&otlp, -(i as i64) - 1, k, "hotlp::primer", Pad::Rep(0));
            primers += 1;
        }
    }
    if !c.wait_holding(primers, LONG) {
        c.release();
        return "harness-error:primers-not-parked".into();
    }
    // phase 2: the case's events pile up behind the primers
    set_hooks(case.limit, REQUEST_TIMEOUT);
    for e in &case.events {
        emit_event(&otlp, e.id, e.kind, &e.mdl, e.pad);
    }
    let discarded = otlp.metric_source().event_discarded() - discarded0;
    let m = otlp.metric_source();
    let flushed;
    let budget = flush_budget(&case);
    if case.drop {
        // the emitter goes away with everything still queued; its worker must finish the work on its own
        drop(otlp);
        c.release();
        flushed = wait_workers_gone(budget);
    } else {
        c.release();
        flushed = otlp.blocking_flush(budget);
        drop(otlp);
    }
    let log = c.take_log();
    if !flushed {
        // a worker is stuck: cut its connections so that it winds down before the next case starts
        SEEN_HANG.store(true, std::sync::atomic::Ordering::Relaxed);
        c.reset(HashMap::new(), false);
        c.kill_connections();
        wait_workers_gone(Duration::from_secs(2));
        c.kill_connections();
        if case.drop {
            set_hooks(usize::MAX, LONG);
            return "worker-thread-did-not-end".into();
        }
    }
    let client_failures = m.transport_request_failed() + m.transport_conn_failed() + m.http_batch_failed() + m.grpc_batch_failed();
    set_hooks(usize::MAX, LONG);

    // ---- canonical output + the property evaluated on the observations alone
    let mut fail: Option<String> = None;
    if !flushed {
        // "flush reports success only after all of this has happened" - and it must happen: every failure mode,
        // a stall at any point of the exchange included, ends in a timeout, a retry and finally a delivery
        fail = Some("flush-did-not-return-within-budget(some-request-never-completed-or-timed-out)".into());
    }
    let mut out = String::new();
    let by_id: HashMap<i64, &Ev> = case.events.iter().map(|e| (e.id, e)).collect();
    for s in Signal::ALL {
        let i = sig_index(s);
        let entries: Vec<&Recorded> = log.iter().filter(|r| r.signal == s).collect();
        let mut shown = Vec::new();
        let mut prev_conn: Option<usize> = None;
        let mut failures = 0usize;
        let mut acked: HashMap<i64, usize> = HashMap::new();
        let mut prev_failed: Option<Option<Vec<i64>>> = None; // ids of the previous request when it was not acknowledged
        for r in &entries {
            let fresh = prev_conn != Some(r.conn);
            prev_conn = Some(r.conn);
            if let Some(m) = &r.malformed {
                fail.get_or_insert(format!("malformed-request({})", m));
            }
            if r.grpc != (case.transport == Transport::Grpc) || r.json != case.enc.json_for(s) && r.records.is_some() || r.gzip != case.gzip && r.records.is_some() {
                fail.get_or_insert("transport-configuration-not-honoured".into());
            }
            if r.held {
                continue; // the primer
            }
            shown.push(show_entry(r, fresh));
            let ids: Option<Vec<i64>> = r.records.as_ref().map(|recs| {
                let mut v: Vec<i64> = recs.iter().map(|x| x.id.unwrap_or(0)).collect();
                v.sort();
                v
            });
            for rec in r.records.iter().flatten() {
                match rec.id.and_then(|id| by_id.get(&id)) {
                    None => {
                        fail.get_or_insert(format!("record-without-known-id({:?})", rec.id));
                    }
                    Some(e) => {
                        if rec.wire_size != e.size {
                            return "bad-case".into(); // the SIZE in the case line is not what the encoder produces
                        }
                        if rec.scope != e.mdl {
                            fail.get_or_insert("record-under-wrong-scope".into());
                        }
                        if case.routed(e.kind) != Some(i) {
                            fail.get_or_insert("record-on-wrong-signal".into());
                        }
                    }
                }
            }
            // "a request that fails is sent again with the same events"
            if let Some(Some(prev)) = &prev_failed {
                if let Some(now) = &ids {
                    if prev != now {
                        fail.get_or_insert("failed-request-not-resent-with-the-same-events".into());
                    }
                }
            }
            // "a broken connection is replaced by a fresh one"
            if r.resp.is_ack(r.grpc) {
                for id in ids.iter().flatten() {
                    *acked.entry(*id).or_insert(0) += 1;
                }
                prev_failed = None;
            } else {
                failures += 1;
                prev_failed = Some(ids);
            }
            if r.resp.leaves_stale_sender() {
                failures += 1; // the client's next attempt fails on the pooled sender (an upper bound: there may be none)
            }
        }
        // delivery: every id routed here is acknowledged at least once unless the retries were exhausted or the
        // endpoint is dead; exactly once when nothing failed
        if flushed && case.sig[i] && !case.dead[i] {
            for e in case.events.iter().filter(|e| case.routed(e.kind) == Some(i)) {
                let n = acked.get(&e.id).copied().unwrap_or(0);
                if n == 0 && failures <= 10 {
                    fail.get_or_insert(format!("{}-but-id-{}-never-acknowledged", if case.drop { "emitter-dropped-and-worker-ended" } else { "flushed" }, e.id));
                }
                if n > 1 && failures == 0 && client_failures == 0 {
                    fail.get_or_insert(format!("id-{}-acknowledged-{}-times-without-any-failure", e.id, n));
                }
            }
        }
        if !out.is_empty() {
            out.push(' ');
        }
        out.push_str(&format!("{}=[{}]", s.name(), shown.join(" ")));
    }
    if case.drop {
        out.push_str(" flush=dropped");
    } else {
        out.push_str(&format!(" flush={}", flushed));
    }
    let expect_discards = case.events.iter().filter(|e| case.routed(e.kind).is_none()).count();
    if discarded != expect_discards {
        fail.get_or_insert(format!("discarded-{}-expected-{}", discarded, expect_discards));
    }
    match fail {
        None => out,
        Some(f) => format!("{}\tFAIL:{}", out, f),
    }
}

// ------------------------------------------------------------------ generator

/// Encoded payload sizes of the events of a case, measured on the real encoders: the events are emitted through a
/// real `Otlp` with the default (1 MiB) limit and the collector reports the length of every record on the wire.
fn measure(case: &mut Case) -> bool {
    let c = collector();
    set_hooks(usize::MAX, LONG);
    c.reset(HashMap::new(), false);
    let otlp = build_otlp(c, Transport::Http, case.enc, false, case.sig, [false; 3]);
    for e in &case.events {
        emit_event(&otlp, e.id, e.kind, &e.mdl, e.pad);
    }
    let ok = otlp.blocking_flush(LONG);
    let log = c.take_log();
    drop(otlp);
    let mut sizes: HashMap<i64, usize> = HashMap::new();
    for r in &log {
        for rec in r.records.iter().flatten() {
            if let Some(id) = rec.id {
                sizes.insert(id, rec.wire_size);
            }
        }
    }
    for e in case.events.iter_mut() {
        e.size = sizes.get(&e.id).copied().unwrap_or(0);
    }
    ok
}

fn gen_resp(rng: &mut Rng, transport: Transport, tier: Tier) -> Resp {
    // failures are drawn from what the property lists: non-2xx status, non-zero gRPC status, reset before/after
    // reading or after the response headers, timeout (stall; rare — each costs the request timeout)
    let stall_den = if tier == Tier::Thorough { 6 } else { 12 };
    if rng.chance(1, stall_den) {
        // a stall at any point of the exchange is a timeout: before any answer, or (gRPC) after the headers
        return if transport == Transport::Grpc && rng.bool() { Resp::StallAfterHeaders } else { Resp::Stall };
    }
    match transport {
        Transport::Http => match rng.below(7) {
            0 => Resp::Status(*rng.pick(&[500u16, 503, 429, 400, 404, 301, 599])),
            1 => Resp::Status(*rng.pick(&[300u16, 299, 204, 201])),
            2 => Resp::ResetBefore,
            3 => Resp::ResetAfter,
            4 => Resp::AckBody,
            // a 200 whose body breaks mid-way with the connection: acknowledged by its status line (the HTTP
            // transport never reads the body), but the pooled connection is gone
            5 => Resp::DropAfterHeaders,
            _ => Resp::Ack,
        },
        Transport::Grpc => match rng.below(10) {
            0 => Resp::GrpcStatus(*rng.pick(&[14u32, 2, 8, 13, 16, 1])),
            1 => Resp::GrpcStatus(0),
            2 => Resp::ResetBefore,
            3 => Resp::ResetAfter,
            4 => Resp::AckBody,
            // errors as real gRPC servers and proxies in front of them report them: a Trailers-Only response
            // (grpc-status in the headers) and a plain HTTP error without any grpc-status
            5 => Resp::GrpcStatusHeaders(*rng.pick(&[14u32, 8, 4, 0])),
            6 => Resp::Status(*rng.pick(&[503u16, 502, 429, 404, 204])),
            // a response that breaks between its `:status 200` headers and its trailers - the stream is reset, or
            // the whole connection goes: no grpc-status was ever received, so it is not an acknowledgement
            7 => Resp::ResetAfterHeaders,
            8 => Resp::DropAfterHeaders,
            _ => Resp::Ack,
        },
    }
}

fn gen_case(rng: &mut Rng, tier: Tier, next_id: &mut i64) -> Case {
    let (transport, enc) = *rng.pick(&[
        (Transport::Http, Enc::Proto),
        (Transport::Http, Enc::Json),
        (Transport::Grpc, Enc::Proto),
        (Transport::Http, Enc::Proto),
        (Transport::Http, Enc::Json),
        (Transport::Grpc, Enc::Proto),
        (Transport::Http, Enc::MixedPjp),
        (Transport::Http, Enc::MixedJpj),
    ]);
    let gzip = rng.bool();
    // signal subsets: mostly non-empty
    let sigbits = if rng.chance(1, 50) { 0 } else { rng.range(1, 7) as u8 };
    let sig = [sigbits & 1 != 0, sigbits & 2 != 0, sigbits & 4 != 0];
    let mut dead = [false; 3];
    if rng.chance(1, 6) {
        let live: Vec<usize> = (0..3).filter(|i| sig[*i]).collect();
        // "an outage of one signal's endpoint does not stop the others": mostly with other signals configured
        if live.len() >= 2 || (live.len() == 1 && rng.chance(1, 4)) {
            dead[*rng.pick(&live)] = true;
        }
    }
    let n_events = match rng.below(30) {
        0 => 0,
        1 | 2 => 1,
        _ => rng.range(2, if tier == Tier::Thorough { 40 } else { 14 }) as usize,
    };
    // kinds: mostly ones some configured signal takes (the others are discarded and only counted)
    let routable: Vec<Kind> = [Kind::Log, Kind::Span, Kind::Metric]
        .into_iter()
        .filter(|k| {
            let own = match k {
                Kind::Log => 0,
                Kind::Span => 1,
                Kind::Metric => 2,
            };
            sig[own] || sig[0]
        })
        .collect();
    let mdls = ["hotlp::a", "hotlp::b::c"];
    let mut events = Vec::new();
    for _ in 0..n_events {
        let id = *next_id;
        *next_id += 1;
        events.push(Ev {
            id,
            kind: if !routable.is_empty() && rng.chance(5, 6) { *rng.pick(&routable) } else { *rng.pick(&[Kind::Log, Kind::Span, Kind::Metric]) },
            mdl: if rng.chance(3, 4) { mdls[0].to_string() } else { mdls[1].to_string() },
            pad: match rng.below(5) {
                4 => Pad::Uni(rng.range(1, 60) as usize),
                0 => Pad::Rep(0),
                1 => Pad::Rep(rng.range(1, 40) as usize),
                2 => Pad::Rep(rng.range(100, 400) as usize),
                _ => Pad::Rep(rng.range(1, 1500) as usize),
            },
            size: 0,
        });
    }
    // large, poorly compressible payloads (64-512 KiB of pseudo-random hex text): request bodies whose gzip
    // form spans many compressor output buffers, with gzip on and off
    if !events.is_empty() && rng.chance(1, 10) {
        for _ in 0..rng.range(1, 2) {
            let i = rng.usize(events.len());
            events[i].pad = Pad::Rnd(rng.range(64 * 1024, 512 * 1024) as usize);
        }
    }
    let mut script: [Vec<Resp>; 3] = Default::default();
    let failing = rng.chance(1, 3);
    if failing {
        for i in 0..3 {
            if sig[i] && !dead[i] && rng.chance(2, 3) {
                let n = match rng.below(8) {
                    0 => rng.range(9, 13) as usize, // around the retry budget
                    _ => rng.range(1, 4) as usize,
                };
                for _ in 0..n {
                    script[i].push(gen_resp(rng, transport, tier));
                }
            }
        }
    }
    let drop = rng.chance(1, 8);
    let mut case = Case { transport, enc, gzip, limit: 0, sig, dead, events, script, drop };
    measure(&mut case);
    // the limit: chosen relative to the measured sizes so that batches span 1..5+ requests, including limits
    // that sit exactly on a running sum (the `>=` of the size rule)
    let sizes: Vec<usize> = case.events.iter().map(|e| e.size).filter(|s| *s > 0).collect();
    let total: usize = sizes.iter().sum();
    case.limit = match rng.below(8) {
        0 => 0,
        1 => 1,
        2 => 1024 * 1024,
        3 if !sizes.is_empty() => {
            // exactly the sum of a prefix of some signal's sizes
            let k = rng.range(1, sizes.len() as u64) as usize;
            sizes[..k].iter().sum::<usize>().min(total)
        }
        4 if !sizes.is_empty() => *rng.pick(&sizes),
        5 if !sizes.is_empty() => *rng.pick(&sizes) + 1,
        _ => {
            let parts = rng.range(1, 5) as usize;
            std::cmp::max(1, total / std::cmp::max(1, parts * rng.range(1, 3) as usize))
        }
    };
    case
}

fn gen_c12(rng: &mut Rng, tier: Tier, n: usize) -> Vec<String> {
    let mut next_id = 1i64;
    let mut out = Vec::new();
    for _ in 0..n {
        // ids restart regularly so that their encoded width (varint / decimal digits) varies but stays small
        if next_id > 300 {
            next_id = 1;
        }
        out.push(gen_case(rng, tier, &mut next_id).to_line());
    }
    out
}
