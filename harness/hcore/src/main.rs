mod streams;

fn main() {
    hcommon::cli_main(&streams::all());
}
