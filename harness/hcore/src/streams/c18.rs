//! C18 — a sampling decision is made once per trace and governs everything inside it.
//! Drives the REAL `emit_traceparent::{TraceparentCtxt, TraceparentFilter, InSampledTraceFilter, Traceparent}`
//! over `emit::span::SpanGuard::new` (what the span macros expand to) with a counter rng, a scripted sampler,
//! bodies moved to fresh threads, pushed incoming headers (`Traceparent::push`), tracestates (`Tracestate::push`), both at
//! once (`emit_traceparent::push`) and frames carried with `Frame::current`; events also observe `Tracestate::current()`
//! and that `emit_traceparent::current()` agrees with the two single accessors.
//! Case format: see lean/EmitModel/Driver/C18.lean.

use std::sync::atomic::{AtomicU64, AtomicUsize, Ordering};
use std::sync::{Arc, Mutex};

use emit::span::{SpanCtxt, SpanGuard, SpanId, TraceId};
use emit::{Filter, Props};
use emit_traceparent::{in_sampled_trace_filter, TraceFlags, Traceparent, TraceparentCtxt, TraceparentFilter};
use hcommon::{Rng, Sexp, Stream, Tier};

pub fn streams() -> Vec<Stream> {
    vec![Stream { name: "c18", gen, run }]
}

type Log = Arc<Mutex<Vec<String>>>;

struct CounterRng(AtomicU64);
impl emit::Rng for CounterRng {
    fn fill<A: AsMut<[u8]>>(&self, mut arr: A) -> Option<A> {
        let v = self.0.fetch_add(1, Ordering::SeqCst) + 1;
        let bytes = v.to_le_bytes();
        for (i, b) in arr.as_mut().iter_mut().enumerate() {
            *b = if i < 8 { bytes[i] } else { 0 };
        }
        Some(arr)
    }
    fn gen_u64(&self) -> Option<u64> {
        Some(self.0.fetch_add(1, Ordering::SeqCst) + 1)
    }
    fn gen_u128(&self) -> Option<u128> {
        Some((self.0.fetch_add(1, Ordering::SeqCst) + 1) as u128)
    }
}

fn tid(t: Option<&TraceId>) -> String {
    t.map(|t| t.to_u128().to_string()).unwrap_or_else(|| "none".into())
}
fn sid(s: Option<&SpanId>) -> String {
    s.map(|s| s.to_u64().to_string()).unwrap_or_else(|| "none".into())
}
fn ids_of_props<P: Props>(p: P) -> String {
    let t = p.pull::<TraceId, _>("trace_id");
    let sp = p.pull::<SpanId, _>("span_parent");
    let s = p.pull::<SpanId, _>("span_id");
    format!("({} {} {})", tid(t.as_ref()), sid(sp.as_ref()), sid(s.as_ref()))
}
fn show_tp(t: &Traceparent) -> String {
    format!("({} {} {})", tid(t.trace_id()), sid(t.span_id()), t.trace_flags().to_u8())
}

type Ctx = TraceparentCtxt<emit::platform::thread_local_ctxt::ThreadLocalCtxt>;

/// what the streams need of the way the ctxt is held
trait Held: emit::Ctxt + Sync {}
impl<C: emit::Ctxt + Sync> Held for C {}

struct World<C> {
    ctxt: C,
    has_sampler: bool,
    rng: CounterRng,
    log: Log,
    outside: bool,
    sampler: Arc<dyn Fn(&SpanCtxt) -> bool + Send + Sync>,
    /// VARIANT = setup: the filter `emit_traceparent::setup()` / `setup_with_sampler(..)` installed in the runtime
    rt_filter: Option<&'static (dyn emit::filter::ErasedFilter + Send + Sync)>,
    /// spans opened so far (selects how each guard is finished)
    spans: AtomicUsize,
}

/// The runtime filter, wrapped so that the span's own ids and the verdict are recorded.
/// `TraceparentFilter` with the scripted sampler, or the sampler-less one
fn tp_matches<C, E: emit::event::ToEvent>(w: &World<C>, evt: E) -> bool {
    if let Some(f) = w.rt_filter {
        return f.matches(evt);
    }
    if w.has_sampler {
        TraceparentFilter::new_with_sampler(|c: &SpanCtxt| (w.sampler)(c)).matches(evt)
    } else {
        TraceparentFilter::new().matches(evt)
    }
}

struct RecFilter<'a, C>(&'a World<C>);
impl<'a, C> Filter for RecFilter<'a, C> {
    fn matches<E: emit::event::ToEvent>(&self, evt: E) -> bool {
        let evt = evt.to_event();
        let ids = ids_of_props(evt.props());
        let v = tp_matches(self.0, &evt);
        self.0.log.lock().unwrap().push(format!("(open {} {})", v, ids));
        v
    }
}

/// The runtime filter a MANUAL span (a span-kind event that already carries an extent, emitted through
/// `Runtime::emit`) goes through: records the ids the filter sees (the event's own props first, then the ambient
/// ctxt `emit_core::emit` appended) and the verdicts of both `TraceparentFilter` and `InSampledTraceFilter`, evaluated
/// at the very point the runtime evaluates its filter. The event is emitted iff `TraceparentFilter` matched.
struct EvtFilter<'a, C>(&'a World<C>);
impl<'a, C> Filter for EvtFilter<'a, C> {
    fn matches<E: emit::event::ToEvent>(&self, evt: E) -> bool {
        let evt = evt.to_event();
        let ids = ids_of_props(evt.props());
        if evt.extent().map(|e| e.is_range()) != Some(true) {
            self.0.log.lock().unwrap().push("!spanevt-without-range-extent".into());
        }
        let v = tp_matches(self.0, &evt);
        let p2 = in_sampled_trace_filter(self.0.outside).matches(&evt);
        self.0.log.lock().unwrap().push(format!("(spanevt {} {} {})", ids, v, p2));
        v
    }
}

/// `spanevt*`: a completed span emitted as an EVENT (no `SpanGuard`): the ids of a new child of the current span
/// context, a range extent, `evt_kind: "span"`; nothing is pushed onto the ambient context.
fn span_event<C: Held>(w: &World<C>, how: &str) -> Option<()> {
    let emitted = Arc::new(AtomicUsize::new(0));
    let e2 = emitted.clone();
    let emitter = emit::emitter::from_fn(move |_| {
        e2.fetch_add(1, Ordering::SeqCst);
    });
    let rt = emit::runtime::Runtime::build(emitter, EvtFilter(w), &w.ctxt, emit::Empty, &w.rng);
    let before = w.log.lock().unwrap().len();
    let sc = SpanCtxt::current(rt.ctxt()).new_child(rt.rng());
    let ts = |s: u64| emit::Timestamp::from_unix(std::time::Duration::from_secs(s)).unwrap();
    let extent = ts(1)..ts(2);
    match how {
        // the book's "creating spans without a SpanGuard": the ids as ordinary properties of an `emit!` event
        "spanevt" => emit::emit!(
            rt: &rt,
            extent: extent,
            "s",
            evt_kind: "span",
            #[emit::optional]
            trace_id: sc.trace_id(),
            #[emit::optional]
            span_parent: sc.span_parent(),
            #[emit::optional]
            span_id: sc.span_id(),
        ),
        // … with the ids as TEXT (ids that arrive from outside: a bridge, a log line being replayed): an id is an id
        // whatever it was captured as
        "spanevtx" => {
            let (t, p, i) = (sc.trace_id().map(|x| x.to_string()), sc.span_parent().map(|x| x.to_string()), sc.span_id().map(|x| x.to_string()));
            emit::emit!(
                rt: &rt,
                extent: extent,
                "s",
                evt_kind: "span",
                #[emit::optional]
                trace_id: t.as_deref(),
                #[emit::optional]
                span_parent: p.as_deref(),
                #[emit::optional]
                span_id: i.as_deref(),
            )
        }
        // a typed `Span` carrying its `SpanCtxt`, emitted through the runtime
        "spanevts" => rt.emit(emit::Span::new(emit::Path::new_raw("c18"), "s", extent, sc)),
        // … or through the macro's `evt:` argument
        "spanevte" => emit::emit!(rt: &rt, evt: emit::Span::new(emit::Path::new_raw("c18"), "s", extent, sc)),
        // the `SpanCtxt` as the base props of an `emit!` event
        "spanevtp" => emit::emit!(rt: &rt, extent: extent, props: sc, "s", evt_kind: "span"),
        _ => return None,
    }
    // the runtime consulted its filter exactly once and emitted the span iff `TraceparentFilter` matched
    let mut log = w.log.lock().unwrap();
    let verdicts: Vec<bool> = log[before..]
        .iter()
        .filter(|l| l.starts_with("(spanevt "))
        .map(|l| l.split(' ').rev().nth(1) == Some("true"))
        .collect();
    if verdicts.len() != 1 || (emitted.load(Ordering::SeqCst) == 1) != verdicts[0] || emitted.load(Ordering::SeqCst) > 1 {
        log.push("!spanevt-emitted-disagrees-with-filter".into());
    }
    Some(())
}

fn run_prog<C: Held>(w: &World<C>, p: &Sexp) -> Option<()>
where
    C::Frame: Send,
{
    match p {
        Sexp::Atom(a) if a == "event" => {
            let cur = Traceparent::current();
            let ids = SpanCtxt::current(&w.ctxt);
            let evt = emit::Event::new(emit::Path::new_raw("c18"), emit::Template::literal("e"), emit::Empty, emit::Empty);
            let p1 = tp_matches(w, &evt);
            let p2 = in_sampled_trace_filter(w.outside).matches(&evt);
            let state = emit_traceparent::Tracestate::current();
            // the combined accessor must agree with the two single ones
            let (cur2, state2) = emit_traceparent::current();
            if show_tp(&cur2) != show_tp(&cur) || state2 != state {
                w.log.lock().unwrap().push("!current-pair-disagrees".into());
            }
            w.log.lock().unwrap().push(format!(
                "(event {} {} ({} {} {}) {} {})",
                show_tp(&cur),
                show_state(&state),
                tid(ids.trace_id()),
                sid(ids.span_parent()),
                sid(ids.span_id()),
                p1,
                p2
            ));
            Some(())
        }
        Sexp::Atom(a) if a.starts_with("spanevt") => span_event(w, a),
        Sexp::List(_) => {
            let (tag, args) = p.as_tagged()?;
            match tag {
                "span" | "spant" | "spana" | "spanp" => {
                    let n = w.spans.fetch_add(1, Ordering::SeqCst);
                    // how the guard is finished rotates with the span count: dropped, `complete()`, or
                    // `complete_with(..)` an explicit completion — a disabled guard must stay silent in all three
                    let style = n % 3;
                    let log = w.log.clone();
                    let emitter = emit::emitter::from_fn(move |evt| {
                        log.lock().unwrap().push(format!("(done {})", ids_of_props(evt.props())));
                    });
                    // … and so does how it is CREATED: `SpanGuard::new` directly, or the `emit::new_span!` macro on a
                    // runtime assembled from the same parts (the macro must consult the runtime's filter — there is
                    // no call-site `when:` — and build the same guard)
                    if n % 2 == 0 {
                        let completion = emit::span::completion::default(emitter, &w.ctxt);
                        let (guard, frame) = SpanGuard::new(
                            RecFilter(w),
                            &w.ctxt,
                            emit::Empty,
                            &w.rng,
                            completion,
                            emit::Empty,
                            emit::Path::new_raw("c18"),
                            "s",
                            emit::Empty,
                        );
                        drive_span(w, tag, args, guard, frame, style)
                    } else {
                        let rt = emit::runtime::Runtime::build(emitter, RecFilter(w), &w.ctxt, emit::Empty, &w.rng);
                        let (guard, frame) = emit::new_span!(rt: &rt, "s");
                        drive_span(w, tag, args, guard, frame, style)
                    }
                }
                "sspan" => {
                    // a sync `#[emit::span(setup: ..)]` handler whose `setup` makes the incoming traceparent current:
                    // the setup runs BEFORE the span is created, so the span continues the header's trace
                    let (tp, cs) = args.split_first()?;
                    let tp = parse_tp(tp)?;
                    w.spans.fetch_add(1, Ordering::SeqCst);
                    let log = w.log.clone();
                    let emitter = emit::emitter::from_fn(move |evt| {
                        log.lock().unwrap().push(format!("(done {})", ids_of_props(evt.props())));
                    });
                    let rt = emit::runtime::Runtime::build(emitter, RecFilter(w), &w.ctxt, emit::Empty, &w.rng);
                    let mut ok = Some(());
                    let mut body = || {
                        for c in cs {
                            if run_prog(w, c).is_none() {
                                ok = None;
                                return;
                            }
                        }
                    };
                    setup_span(&rt, tp, &mut body);
                    ok
                }
                "carry" => {
                    let frame = emit::Frame::current(&w.ctxt);
                    std::thread::scope(|s| {
                        s.spawn(move || {
                            frame.call(|| -> Option<()> {
                                for c in args {
                                    run_prog(w, c)?;
                                }
                                Some(())
                            })
                        })
                        .join()
                        .ok()
                        .flatten()
                    })
                }
                "root" => {
                    // `Frame::root(ctxt, Empty)` → `TraceparentCtxt::open_root`: detaches the ambient PROPERTIES; the
                    // props start no span, so the frame is inactive and the thread's traceparent stays in force
                    emit::Frame::root(&w.ctxt, emit::Empty).call(|| -> Option<()> {
                        for c in args {
                            run_prog(w, c)?;
                        }
                        Some(())
                    })
                }
                "push" => {
                    let (tp, cs) = args.split_first()?;
                    let tp = parse_tp(tp)?;
                    tp.push().call(|| -> Option<()> {
                        for c in cs {
                            run_prog(w, c)?;
                        }
                        Some(())
                    })
                }
                "pushp" => {
                    let (tp, cs) = args.split_first()?;
                    let tp = parse_tp(tp)?;
                    let r = std::panic::catch_unwind(std::panic::AssertUnwindSafe(|| {
                        tp.push().call(|| -> Option<()> {
                            for c in cs {
                                run_prog(w, c)?;
                            }
                            panic!("scripted")
                        })
                    }));
                    match r {
                        Err(_) => Some(()),
                        Ok(x) => x,
                    }
                }
                "pushs" => {
                    let (ts, cs) = args.split_first()?;
                    let ts = make_state(ts.as_u64()?);
                    ts.push().call(|| -> Option<()> {
                        for c in cs {
                            run_prog(w, c)?;
                        }
                        Some(())
                    })
                }
                "pushb" => {
                    if args.len() < 2 {
                        return None;
                    }
                    let tp = parse_tp(&args[0])?;
                    let ts = make_state(args[1].as_u64()?);
                    emit_traceparent::push(tp, ts).call(|| -> Option<()> {
                        for c in &args[2..] {
                            run_prog(w, c)?;
                        }
                        Some(())
                    })
                }
                _ => None,
            }
        }
        _ => None,
    }
}

/// run the body of a span (children, then finishing the guard in the given style) inside its frame: on this thread,
/// on a fresh thread, as a future polled once per child, or leaving by a panic
fn drive_span<'g, C, H, T, P, F>(
    w: &World<C>,
    tag: &str,
    args: &[Sexp],
    mut guard: SpanGuard<'g, T, P, F>,
    frame: emit::Frame<H>,
    style: usize,
) -> Option<()>
where
    C: Held,
    C::Frame: Send,
    H: emit::Ctxt + Send,
    H::Frame: Send,
    T: emit::Clock + Send,
    P: Props + Send,
    F: emit::span::completion::Completion + Send,
{
    let log3 = w.log.clone();
    let ctxt3 = &w.ctxt;
    let finish = move |guard: SpanGuard<'g, T, P, F>| match style {
        0 => drop(guard),
        1 => {
            guard.complete();
        }
        _ => {
            let emitter = emit::emitter::from_fn(move |evt| {
                log3.lock().unwrap().push(format!("(done {})", ids_of_props(evt.props())));
            });
            guard.complete_with(emit::span::completion::default(emitter, ctxt3));
        }
    };
    if tag == "spana" {
        // an async span: the body yields after every child, so the frame is exited and
        // re-entered between children (FrameFuture enters and exits around every poll)
        let fut = frame.in_future(async move {
            guard.start();
            for c in args {
                if run_prog(w, c).is_none() {
                    return None;
                }
                YieldOnce(false).await;
            }
            finish(guard);
            Some(())
        });
        return block_on(fut);
    }
    if tag == "spanp" {
        // the body panics after its children; the unwinding drops the guard inside the frame (one
        // completion iff enabled) and leaves the frame: afterwards the thread's traceparent is back
        let r = std::panic::catch_unwind(std::panic::AssertUnwindSafe(|| {
            frame.call(move || -> Option<()> {
                guard.start();
                for c in args {
                    run_prog(w, c)?;
                }
                let _keep = &guard;
                panic!("scripted")
            })
        }));
        return match r {
            Err(_) => Some(()),
            Ok(x) => x,
        };
    }
    let body = move || -> Option<()> {
        guard.start();
        for c in args {
            run_prog(w, c)?;
        }
        finish(guard);
        Some(())
    };
    if tag == "span" {
        frame.call(body)
    } else {
        std::thread::scope(|s| s.spawn(move || frame.call(body)).join().ok().flatten())
    }
}

/// what the `setup:` of `setup_span` returns: the pushed traceparent, entered; left again when it is dropped (after
/// the span completed)
struct TpScope(TraceparentCtxt, Option<<TraceparentCtxt as emit::Ctxt>::Frame>);
impl Drop for TpScope {
    fn drop(&mut self) {
        use emit::Ctxt;
        if let Some(mut f) = self.1.take() {
            self.0.exit(&mut f);
            self.0.close(f);
        }
    }
}
fn enter_tp(tp: Traceparent) -> TpScope {
    use emit::Ctxt;
    let (ctxt, mut frame) = tp.push().into_parts();
    ctxt.enter(&mut frame);
    TpScope(ctxt, Some(frame))
}

#[emit::span(rt: rt, setup: move || enter_tp(tp), "s")]
fn setup_span<E: emit::Emitter, F: Filter, C: emit::Ctxt, T: emit::Clock, R: emit::Rng>(
    rt: &emit::runtime::Runtime<E, F, C, T, R>,
    tp: Traceparent,
    body: &mut dyn FnMut(),
) {
    body()
}

fn parse_tp(tp: &Sexp) -> Option<Traceparent> {
    let l = tp.as_list()?;
    if l.len() != 3 {
        return None;
    }
    let id = |s: &Sexp| -> Option<Option<u64>> {
        if s.as_atom()? == "none" {
            Some(None)
        } else {
            let n = s.as_u64()?;
            if n >= 1_000_000 { Some(Some(n)) } else { None }
        }
    };
    let t = id(&l[0])?.and_then(|n| TraceId::from_u128(n as u128));
    let s = id(&l[1])?.and_then(SpanId::from_u64);
    let f = l[2].as_u64()?;
    if f > 255 {
        return None;
    }
    Some(Traceparent::new(t, s, TraceFlags::from_u8(f as u8)))
}

/// tracestate N is the text "sN"; 0 is the empty tracestate
fn make_state(n: u64) -> emit_traceparent::Tracestate {
    if n == 0 {
        emit_traceparent::Tracestate::new_raw("")
    } else {
        emit_traceparent::Tracestate::new_owned_raw(format!("s{}", n))
    }
}

fn show_state(s: &emit_traceparent::Tracestate) -> String {
    match s.get() {
        "" => "0".into(),
        t => t.strip_prefix('s').map(|n| n.to_string()).unwrap_or_else(|| format!("?{}", t)),
    }
}

struct YieldOnce(bool);
impl std::future::Future for YieldOnce {
    type Output = ();
    fn poll(mut self: std::pin::Pin<&mut Self>, _: &mut std::task::Context<'_>) -> std::task::Poll<()> {
        if self.0 {
            std::task::Poll::Ready(())
        } else {
            self.0 = true;
            std::task::Poll::Pending
        }
    }
}

fn block_on<F: std::future::Future>(f: F) -> F::Output {
    use std::task::{Context, Poll, RawWaker, RawWakerVTable, Waker};
    fn raw() -> RawWaker {
        fn no(_: *const ()) {}
        fn clone(_: *const ()) -> RawWaker {
            raw()
        }
        static VT: RawWakerVTable = RawWakerVTable::new(clone, no, no, no);
        RawWaker::new(std::ptr::null(), &VT)
    }
    let waker = unsafe { Waker::from_raw(raw()) };
    let mut cx = Context::from_waker(&waker);
    let mut f = std::pin::pin!(f);
    loop {
        if let Poll::Ready(v) = f.as_mut().poll(&mut cx) {
            return v;
        }
    }
}

fn run(line: &str) -> String {
    (|| -> Option<String> {
        let s = Sexp::parse(line)?;
        let (tag, a) = s.as_tagged()?;
        if tag != "c18" || a.len() < 4 {
            return None;
        }
        let variant = a[0].as_atom()?.to_string();
        let has_sampler = a[1].as_bool()?;
        let (dt, ds) = a[2].as_tagged()?;
        if dt != "decisions" {
            return None;
        }
        let decisions: Vec<bool> = ds.iter().map(|d| d.as_bool()).collect::<Option<_>>()?;
        let outside = a[3].as_bool()?;
        let progs = &a[4..];
        let concrete: Ctx = TraceparentCtxt::new(emit::platform::thread_local_ctxt::ThreadLocalCtxt::new());
        let sh = Shared::new(decisions);
        match variant.as_str() {
            "concrete" => go(concrete, None, has_sampler, sh, outside, progs),
            "boxdyn" => {
                let c: Box<dyn emit::ctxt::ErasedCtxt + Send + Sync> = Box::new(concrete);
                go(c, None, has_sampler, sh, outside, progs)
            }
            "arcdyn" => {
                let c: Arc<dyn emit::ctxt::ErasedCtxt + Send + Sync> = Arc::new(concrete);
                go(c, None, has_sampler, sh, outside, progs)
            }
            "assert" => go(emit::runtime::AssertInternal(concrete), None, has_sampler, sh, outside, progs),
            "option" => go(Some(concrete), None, has_sampler, sh, outside, progs),
            "slot" => {
                // the erased ctxt of an ambient runtime, as `emit_traceparent::setup().init()` installs it
                let slot: &'static emit::runtime::AmbientSlot = Box::leak(Box::new(emit::runtime::AmbientSlot::new()));
                let _init = emit::setup().with_ctxt(concrete).init_slot(slot);
                go(slot.get().ctxt(), None, has_sampler, sh, outside, progs)
            }
            "setup" => {
                // the documented entry points: `emit_traceparent::setup()` / `setup_with_sampler(sampler)` build the
                // filter and wrap the default ctxt; the stream then uses the runtime's own erased filter and ctxt
                let slot: &'static emit::runtime::AmbientSlot = Box::leak(Box::new(emit::runtime::AmbientSlot::new()));
                if has_sampler {
                    let s2 = sh.sampler.clone();
                    let _ = emit_traceparent::setup_with_sampler(move |c: &SpanCtxt| s2(c)).init_slot(slot);
                } else {
                    let _ = emit_traceparent::setup().init_slot(slot);
                }
                go(slot.get().ctxt(), Some(*slot.get().filter()), has_sampler, sh, outside, progs)
            }
            _ => None,
        }
    })()
    .unwrap_or_else(|| "bad-case".into())
}

/// the log, the sampler call counter and the scripted sampler of one case
struct Shared {
    log: Log,
    calls: Arc<AtomicUsize>,
    sampler: Arc<dyn Fn(&SpanCtxt) -> bool + Send + Sync>,
}

impl Shared {
    fn new(decisions: Vec<bool>) -> Shared {
        let log: Log = Arc::new(Mutex::new(Vec::new()));
        let calls = Arc::new(AtomicUsize::new(0));
        let (log2, calls2) = (log.clone(), calls.clone());
        Shared {
            log,
            calls,
            sampler: Arc::new(move |c: &SpanCtxt| {
                let i = calls2.fetch_add(1, Ordering::SeqCst);
                let d = decisions.get(i).copied().unwrap_or(false);
                log2.lock().unwrap().push(format!("(sampler {} {} {})", tid(c.trace_id()), sid(c.span_id()), d));
                // "for all sampler functions": a sampler may itself look at, and enter, trace context while it decides
                // (to keep its own work untraced, to read the incoming state) — none of which changes what it is asked
                // or what comes out; which of the three it does rotates with the call number
                match i % 3 {
                    1 => {
                        let _ = emit_traceparent::Traceparent::current();
                        let _ = emit_traceparent::Tracestate::current();
                    }
                    2 => {
                        let inner = emit_traceparent::Traceparent::new(None, None, emit_traceparent::TraceFlags::EMPTY)
                            .push()
                            .call(|| emit_traceparent::Traceparent::current());
                        let _ = inner;
                        let _ = emit_traceparent::Tracestate::current();
                    }
                    _ => {}
                }
                d
            }),
        }
    }
}

fn go<C: Held>(
    ctxt: C,
    rt_filter: Option<&'static (dyn emit::filter::ErasedFilter + Send + Sync)>,
    has_sampler: bool,
    sh: Shared,
    outside: bool,
    progs: &[Sexp],
) -> Option<String>
where
    C::Frame: Send,
{
    let Shared { log, calls, sampler } = sh;
    let w = World {
        ctxt,
        has_sampler,
        rng: CounterRng(AtomicU64::new(0)),
        log: log.clone(),
        outside,
        sampler,
        rt_filter,
        spans: AtomicUsize::new(0),
    };
    // every case runs on a fresh thread so that no active traceparent leaks in from a previous case
    let out = std::thread::scope(|sc| {
        sc.spawn(|| -> Option<String> {
            for p in progs {
                run_prog(&w, p)?;
            }
            Some(format!("{} state={}", show_tp(&Traceparent::current()), show_state(&emit_traceparent::Tracestate::current())))
        })
        .join()
        .ok()
        .flatten()
    })?;
    let n = calls.load(Ordering::SeqCst);
    let obs = log.lock().unwrap().join(" ");
    Some(format!("{} calls={} cur={}", obs, n, out))
}

// ------------------------------------------------------------------ generator

fn gen_prog(rng: &mut Rng, depth: usize, budget: &mut usize) -> Sexp {
    if *budget == 0 || depth == 0 || rng.chance(1, 4) {
        // a leaf: mostly a plain event, sometimes a span emitted as an event (no guard), in one of its four spellings
        if rng.chance(1, 4) {
            return Sexp::atom(*rng.pick(&["spanevt", "spanevts", "spanevte", "spanevtp", "spanevtx"]));
        }
        return Sexp::atom("event");
    }
    *budget -= 1;
    let n = rng.usize(4);
    let mut cs: Vec<Sexp> = (0..n).map(|_| gen_prog(rng, depth - 1, budget)).collect();
    match rng.below(12) {
        0..=3 => Sexp::tagged(if rng.chance(1, 6) { "spanp" } else { "span" }, cs),
        4 => Sexp::tagged("spana", cs),
        5 => Sexp::tagged("spant", cs),
        6 => Sexp::tagged(if rng.chance(1, 3) { "root" } else { "carry" }, cs),
        7 => {
            let mut v = vec![Sexp::num(rng.below(4))];
            v.append(&mut cs);
            Sexp::tagged("pushs", v)
        }
        8 if rng.bool() => {
            let id = |rng: &mut Rng, none_odds: u64| {
                if rng.chance(1, none_odds) { Sexp::atom("none") } else { Sexp::num(1_000_000 + rng.below(3)) }
            };
            let flags = *rng.pick(&[0u64, 1, 1, 1, 3]);
            let mut v = vec![Sexp::list(vec![id(rng, 8), id(rng, 8), Sexp::num(flags)])];
            v.append(&mut cs);
            Sexp::tagged("sspan", v)
        }
        8 => {
            let id = |rng: &mut Rng, none_odds: u64| {
                if rng.chance(1, none_odds) { Sexp::atom("none") } else { Sexp::num(1_000_000 + rng.below(3)) }
            };
            let flags = *rng.pick(&[0u64, 1, 1, 1, 2, 3, 255]);
            let mut v = vec![Sexp::list(vec![id(rng, 8), id(rng, 8), Sexp::num(flags)]), Sexp::num(rng.below(4))];
            v.append(&mut cs);
            Sexp::tagged("pushb", v)
        }
        _ => {
            let id = |rng: &mut Rng, none_odds: u64| {
                if rng.chance(1, none_odds) { Sexp::atom("none") } else { Sexp::num(1_000_000 + rng.below(3)) }
            };
            let flags = *rng.pick(&[0u64, 1, 1, 1, 2, 3, 255]);
            let mut v = vec![Sexp::list(vec![id(rng, 8), id(rng, 8), Sexp::num(flags)])];
            v.append(&mut cs);
            Sexp::tagged(if rng.chance(1, 6) { "pushp" } else { "push" }, v)
        }
    }
}

fn gen(rng: &mut Rng, tier: Tier, n: usize) -> Vec<String> {
    let (depth, size) = if tier == Tier::Thorough { (7, 30) } else { (5, 14) };
    (0..n)
        .map(|_| {
            let nd = rng.usize(5);
            let ds = (0..nd).map(|_| Sexp::bool(rng.chance(3, 5))).collect();
            let mut budget = 1 + rng.usize(size);
            let top = 1 + rng.usize(3);
            let variant = *rng.pick(&["concrete", "concrete", "boxdyn", "arcdyn", "assert", "slot", "setup", "option"]);
            let mut v = vec![Sexp::atom(variant), Sexp::bool(rng.chance(3, 4)), Sexp::tagged("decisions", ds), Sexp::bool(rng.bool())];
            for _ in 0..top {
                v.push(gen_prog(rng, depth, &mut budget));
            }
            Sexp::tagged("c18", v).to_string()
        })
        .collect()
}
