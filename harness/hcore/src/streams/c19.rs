//! C19 — captured values keep their type and structure from call site to sink.
//!
//! A case is `(c19 TYPE VALUE (KEY ATTR OPT) PATH)`:
//!   TYPE   names one of the static Rust types of the matrix below (capture attributes are macro syntax, so every
//!          (type, key, attribute, optional-form) combination that type-checks is a REAL macro call site compiled in);
//!   VALUE  is the value, built from the case line (grammar: lean/EmitModel/Driver/C19.lean);
//!   KEY    k | lvl | err | trace_id | span_id | span_parent   (well-known keys select their own capture hook)
//!   ATTR   none | display | display_i | debug | debug_i | sval | sval_i | serde | serde_i | value | value_i | error
//!          (`_i` = `inspect: true`)
//!   OPT    plain | some | none   (`#[emit::optional]` applied to `Some(&v)` / `None::<&T>`)
//!   PATH   direct | erased | event | owned | shared | owned_thread | ctxt_push | ctxt_root | ctxt_nested | ctxt_thread
//! The runner captures the value through the real macro, reads the property back along PATH and prints the
//! observations (typed pulls, Display, Debug, serde_json, sval_json, error chain, downcast) the property constrains.
//! Rust-side oracle: the same observations of the ORIGINAL value taken directly; FAIL when an observation the
//! capture mode promises to preserve differs, or when the path changed an observation that must survive.

use std::collections::BTreeMap;
use std::fmt;

use emit::props::ErasedProps;
use emit::{Ctxt, Props, Value};
use hcommon::{Rng, Sexp, Stream, Tier};

pub fn streams() -> Vec<Stream> {
    vec![Stream { name: "c19", gen: gen_c19, run: run_c19 }]
}

// ------------------------------------------------------------------ observations

#[derive(Clone, Debug, PartialEq)]
struct Obs {
    b: Option<bool>,
    i64: Option<i64>,
    u64: Option<u64>,
    i128: Option<i128>,
    u128: Option<u128>,
    i32: Option<i32>,
    u8: Option<u8>,
    f64: Option<u64>,
    s: Option<String>,
    bs: Option<String>,
    null: bool,
    disp: String,
    dbg: String,
    sj: Option<String>,
    vj: Option<String>,
    chain: Option<Vec<String>>,
    tid: &'static str,
}

/// Everything the property lets a consumer ask of the property `key` of `p` — through the public `Props` API.
fn observe<P: Props + ?Sized>(p: &P, key: &str) -> Option<Obs> {
    let v: Value = p.get(key)?;
    let chain = v.to_borrowed_error().map(|e| {
        let mut out = vec![e.to_string()];
        let mut cur = e.source();
        while let Some(s) = cur {
            out.push(s.to_string());
            cur = s.source();
        }
        out
    });
    let tid = if v.downcast_ref::<emit::Level>().is_some() {
        "level"
    } else if v.downcast_ref::<emit::span::TraceId>().is_some() {
        "trace"
    } else if v.downcast_ref::<emit::span::SpanId>().is_some() {
        "span"
    } else {
        "no"
    };
    Some(Obs {
        b: p.pull::<bool, _>(key),
        i64: p.pull::<i64, _>(key),
        u64: p.pull::<u64, _>(key),
        i128: p.pull::<i128, _>(key),
        u128: p.pull::<u128, _>(key),
        i32: p.pull::<i32, _>(key),
        u8: p.pull::<u8, _>(key),
        f64: p.pull::<f64, _>(key).map(f64::to_bits),
        s: p.pull::<String, _>(key),
        bs: p.pull::<&str, _>(key).map(|s| s.to_string()),
        null: v.is_null(),
        disp: v.to_string(),
        dbg: format!("{:?}", v),
        sj: serde_json::to_string(&v).ok(),
        vj: sval_json::stream_to_string(&v).ok(),
        chain,
        tid,
    })
}

fn show_opt<T: fmt::Display>(o: &Option<T>) -> String {
    match o {
        Some(x) => x.to_string(),
        None => "none".into(),
    }
}
fn show_str(o: &Option<String>, missing: &str) -> String {
    match o {
        Some(s) => Sexp::str(s).to_string(),
        None => missing.into(),
    }
}

/// Which observations are printed (= constrained by the property) — same rule in Driver/C19.lean `shown`.
struct Shown {
    pulls: bool,
    fmt: bool,
}

fn render(o: &Option<Obs>, sh: &Shown) -> String {
    let o = match o {
        None => return "absent".into(),
        Some(o) => o,
    };
    let mut parts = Vec::new();
    if sh.pulls {
        parts.push(format!(
            "b={} i64={} u64={} i128={} u128={} i32={} u8={} f64={} s={} bs={}",
            show_opt(&o.b),
            show_opt(&o.i64),
            show_opt(&o.u64),
            show_opt(&o.i128),
            show_opt(&o.u128),
            show_opt(&o.i32),
            show_opt(&o.u8),
            show_opt(&o.f64),
            show_str(&o.s, "none"),
            show_str(&o.bs, "none")
        ));
    }
    parts.push(format!("null={}", o.null));
    if sh.fmt {
        parts.push(format!("disp={}", Sexp::str(&o.disp)));
        if o.chain.is_none() {
            parts.push(format!("dbg={}", Sexp::str(&o.dbg)));
        }
    }
    parts.push(format!("sj={} vj={}", show_str(&o.sj, "err"), show_str(&o.vj, "err")));
    parts.push(match &o.chain {
        None => "chain=none".into(),
        Some(c) => format!("chain=({})", c.iter().map(|m| Sexp::str(m).to_string()).collect::<Vec<_>>().join(" ")),
    });
    parts.push(format!("tid={}", o.tid));
    format!("({})", parts.join(" "))
}

// ------------------------------------------------------------------ read paths

#[derive(Clone, Copy, PartialEq, Debug)]
enum Path {
    Direct,
    Erased,
    Event,
    Owned,
    Shared,
    OwnedThread,
    CtxtPush,
    CtxtRoot,
    CtxtNested,
    CtxtThread,
}

const PATHS: &[(&str, Path)] = &[
    ("direct", Path::Direct),
    ("erased", Path::Erased),
    ("event", Path::Event),
    ("owned", Path::Owned),
    ("shared", Path::Shared),
    ("owned_thread", Path::OwnedThread),
    ("ctxt_push", Path::CtxtPush),
    ("ctxt_root", Path::CtxtRoot),
    ("ctxt_nested", Path::CtxtNested),
    ("ctxt_thread", Path::CtxtThread),
];

fn read<P: Props>(props: &P, key: &'static str, path: Path) -> Option<Obs> {
    use emit::platform::thread_local_ctxt::ThreadLocalCtxt;
    match path {
        Path::Direct => observe(props, key),
        Path::Erased => {
            let e: &dyn ErasedProps = props;
            observe(&e, key)
        }
        Path::Event => {
            let evt = emit::Event::new(emit::Path::new_raw("m"), emit::Template::literal("t"), emit::Empty, props);
            let erased = evt.erase();
            observe(erased.props(), key)
        }
        Path::Owned => {
            let o = props.get(key)?.to_owned();
            observe(&(key, o), key)
        }
        Path::Shared => {
            let o = props.get(key)?.to_shared();
            observe(&(key, o), key)
        }
        Path::OwnedThread => {
            let o = props.get(key)?.to_owned();
            std::thread::spawn(move || observe(&(key, o), key)).join().unwrap()
        }
        Path::CtxtPush => {
            let c = ThreadLocalCtxt::new();
            let mut f = c.open_push(props);
            c.enter(&mut f);
            let r = c.with_current(|cur| observe(cur, key));
            c.exit(&mut f);
            c.close(f);
            r
        }
        Path::CtxtRoot => {
            let c = ThreadLocalCtxt::new();
            let mut f = c.open_root(props);
            c.enter(&mut f);
            let r = c.with_current(|cur| observe(cur, key));
            c.exit(&mut f);
            c.close(f);
            r
        }
        Path::CtxtNested => {
            // a second frame pushed on top clones the map (Arc::make_mut) — the value must survive the clone
            let c = ThreadLocalCtxt::new();
            let mut f = c.open_push(props);
            c.enter(&mut f);
            let mut g = c.open_push(("c19_other", 1));
            c.enter(&mut g);
            let r = c.with_current(|cur| observe(cur, key));
            c.exit(&mut g);
            c.close(g);
            c.exit(&mut f);
            c.close(f);
            r
        }
        Path::CtxtThread => {
            let c = ThreadLocalCtxt::new();
            let mut f = c.open_push(props);
            std::thread::spawn(move || {
                c.enter(&mut f);
                let r = c.with_current(|cur| observe(cur, key));
                c.exit(&mut f);
                c.close(f);
                r
            })
            .join()
            .unwrap()
        }
    }
}

// ------------------------------------------------------------------ the original value, observed directly

#[derive(Clone, Debug, PartialEq)]
enum Prim {
    No,
    Bool(bool),
    Int(i128),
    UInt(u128),
    /// bits of the value as an f64 (`f32` widened with `as`)
    F64(u64),
    Str(String),
    /// `Option<primitive>::None`, `()`
    Null,
}

#[derive(Clone, Debug)]
struct Orig {
    disp: Option<String>,
    dbg: Option<String>,
    sj: Option<String>,
    vj: Option<String>,
    chain: Option<Vec<String>>,
    prim: Prim,
    /// what `try_capture` / `inspect: true` sees (primitive, `String`, or an `Option` of those)
    inspectable: Prim,
    /// the well-known-key hooks map `Option::None` to an absent property without `#[emit::optional]`
    wk_none: bool,
    /// a plain primitive / string (typed pulls are part of the output also under sval/serde capture)
    leaf: bool,
}

impl Orig {
    fn new() -> Orig {
        Orig { disp: None, dbg: None, sj: None, vj: None, chain: None, prim: Prim::No, inspectable: Prim::No, wk_none: false, leaf: false }
    }
}

fn sj<T: serde::Serialize + ?Sized>(v: &T) -> Option<String> {
    serde_json::to_string(v).ok()
}
fn vj<T: sval::Value + ?Sized>(v: &T) -> Option<String> {
    sval_json::stream_to_string(v).ok()
}

/// A Rust type of the matrix: built from the case line, generated from the grammar, observed directly.
trait Build: Sized {
    /// element of value_bag's `try_capture` TypeId table (so `Option<Self>` is in it too)
    const PRIM: bool = false;
    fn build(s: &Sexp) -> Option<Self>;
    fn gen(rng: &mut Rng, depth: usize) -> Sexp;
    fn orig(&self) -> Orig;
}

fn all_display_debug_ser<T: fmt::Display + fmt::Debug + serde::Serialize + sval::Value>(v: &T) -> Orig {
    Orig { disp: Some(v.to_string()), dbg: Some(format!("{:?}", v)), sj: sj(v), vj: vj(v), ..Orig::new() }
}
/// `isize` / `usize` do not implement `sval::Value` (sval 2.22)
fn display_debug_serde<T: fmt::Display + fmt::Debug + serde::Serialize>(v: &T) -> Orig {
    Orig { disp: Some(v.to_string()), dbg: Some(format!("{:?}", v)), sj: sj(v), ..Orig::new() }
}
fn debug_ser<T: fmt::Debug + serde::Serialize + sval::Value>(v: &T) -> Orig {
    Orig { dbg: Some(format!("{:?}", v)), sj: sj(v), vj: vj(v), ..Orig::new() }
}

fn tagged<'a>(s: &'a Sexp, tag: &str, n: usize) -> Option<&'a [Sexp]> {
    let (t, a) = s.as_tagged()?;
    if t == tag && a.len() == n {
        Some(a)
    } else {
        None
    }
}

// ---- integers

const INT_EDGES: &[i128] = &[
    0,
    1,
    -1,
    2,
    7,
    -128,
    127,
    128,
    255,
    256,
    -32768,
    32767,
    65535,
    i32::MIN as i128,
    i32::MIN as i128 - 1,
    i32::MAX as i128,
    i32::MAX as i128 + 1,
    u32::MAX as i128,
    u32::MAX as i128 + 1,
    (1 << 53) - 1,
    1 << 53,
    (1 << 53) + 1,
    i64::MIN as i128,
    i64::MIN as i128 + 1,
    i64::MAX as i128,
    i64::MAX as i128 + 1,
    u64::MAX as i128,
    u64::MAX as i128 + 1,
    i128::MIN,
    i128::MIN + 1,
    i128::MAX,
    i128::MAX - 1,
];

macro_rules! build_int {
    ($($t:ident : $signed:expr, $orig:ident),*) => {$(
        impl Build for $t {
            const PRIM: bool = true;
            fn build(s: &Sexp) -> Option<Self> {
                let a = tagged(s, "int", 2)?;
                if a[0].as_atom()? != stringify!($t) { return None; }
                a[1].as_atom()?.parse().ok()
            }
            fn gen(rng: &mut Rng, _: usize) -> Sexp {
                let v: $t = match rng.below(4) {
                    0 => $t::MIN,
                    1 => $t::MAX,
                    2 => {
                        // an edge that fits, else a small number
                        let e = *rng.pick(INT_EDGES);
                        <$t>::try_from(e).unwrap_or((rng.below(100) as u8 % 100) as $t)
                    }
                    _ => {
                        let bits = rng.below(129) as u32;
                        let raw = ((rng.next() as u128) << 64 | rng.next() as u128) >> (128 - bits.max(1));
                        raw as $t
                    }
                };
                Sexp::tagged("int", vec![Sexp::atom(stringify!($t)), Sexp::num(v)])
            }
            fn orig(&self) -> Orig {
                let p = if $signed { Prim::Int(*self as i128) } else { Prim::UInt(*self as u128) };
                Orig { prim: p.clone(), inspectable: p, leaf: true, ..$orig(self) }
            }
        }
    )*};
}
build_int!(
    i8: true, all_display_debug_ser,
    i16: true, all_display_debug_ser,
    i32: true, all_display_debug_ser,
    i64: true, all_display_debug_ser,
    i128: true, all_display_debug_ser,
    isize: true, display_debug_serde,
    u8: false, all_display_debug_ser,
    u16: false, all_display_debug_ser,
    u32: false, all_display_debug_ser,
    u64: false, all_display_debug_ser,
    u128: false, all_display_debug_ser,
    usize: false, display_debug_serde
);

impl Build for bool {
    const PRIM: bool = true;
    fn build(s: &Sexp) -> Option<Self> {
        tagged(s, "bool", 1)?[0].as_bool()
    }
    fn gen(rng: &mut Rng, _: usize) -> Sexp {
        Sexp::tagged("bool", vec![Sexp::bool(rng.bool())])
    }
    fn orig(&self) -> Orig {
        Orig { prim: Prim::Bool(*self), inspectable: Prim::Bool(*self), leaf: true, ..all_display_debug_ser(self) }
    }
}

// ---- floats: Lean does not compute shortest-round-trip decimal text, so the four texts of the ORIGINAL value travel
// with it and are verified here against std / serde_json / sval_json (a mismatch makes the case `bad-case`).

fn f64_leaf(x: f64) -> Sexp {
    Sexp::tagged(
        "f64",
        vec![
            Sexp::num(x.to_bits()),
            Sexp::str(&x.to_string()),
            Sexp::str(&format!("{:?}", x)),
            Sexp::str(&sj(&x).unwrap()),
            Sexp::str(&vj(&x).unwrap()),
        ],
    )
}
fn f64_of_leaf(s: &Sexp) -> Option<f64> {
    let a = tagged(s, "f64", 5)?;
    let x = f64::from_bits(a[0].as_u64()?);
    if &f64_leaf(x) == s {
        Some(x)
    } else {
        None
    }
}

const F64_EDGES: &[f64] = &[
    0.0,
    -0.0,
    1.0,
    -1.0,
    0.1,
    0.5,
    1.5,
    -2.25,
    1e15,
    1e16,
    1e17,
    1e21,
    1e-5,
    1e-7,
    123456789.125,
    4294967295.0,
    4294967296.0,
    2147483648.0,
    9007199254740993.0,
    1e300,
    1e-300,
    f64::MAX,
    f64::MIN,
    f64::MIN_POSITIVE,
    5e-324,
    f64::EPSILON,
    f64::NAN,
    f64::INFINITY,
    f64::NEG_INFINITY,
    3.141592653589793,
];

impl Build for f64 {
    const PRIM: bool = true;
    fn build(s: &Sexp) -> Option<Self> {
        f64_of_leaf(s)
    }
    fn gen(rng: &mut Rng, _: usize) -> Sexp {
        let x = match rng.below(3) {
            0 | 1 => *rng.pick(F64_EDGES),
            _ => {
                let x = f64::from_bits(rng.next());
                if x.is_nan() {
                    f64::NAN
                } else {
                    x
                }
            }
        };
        f64_leaf(x)
    }
    fn orig(&self) -> Orig {
        let p = Prim::F64(self.to_bits());
        Orig { prim: p.clone(), inspectable: p, leaf: true, ..all_display_debug_ser(self) }
    }
}

const F32_EDGES: &[f32] = &[
    0.0,
    -0.0,
    1.0,
    -1.0,
    0.1,
    0.5,
    16777216.0,
    16777217.0,
    1e10,
    1e-10,
    3.4028235e38,
    f32::MIN_POSITIVE,
    1e-45,
    f32::EPSILON,
    f32::NAN,
    f32::INFINITY,
    f32::NEG_INFINITY,
    3.1415927,
];

fn f32_leaf(x: f32) -> Sexp {
    Sexp::tagged(
        "f32",
        vec![
            Sexp::num(x.to_bits()),
            Sexp::str(&x.to_string()),
            Sexp::str(&format!("{:?}", x)),
            Sexp::str(&sj(&x).unwrap()),
            Sexp::str(&vj(&x).unwrap()),
            f64_leaf(x as f64),
        ],
    )
}

impl Build for f32 {
    const PRIM: bool = true;
    fn build(s: &Sexp) -> Option<Self> {
        let a = tagged(s, "f32", 6)?;
        let x = f32::from_bits(u32::try_from(a[0].as_u64()?).ok()?);
        if &f32_leaf(x) == s {
            Some(x)
        } else {
            None
        }
    }
    fn gen(rng: &mut Rng, _: usize) -> Sexp {
        let x = match rng.below(3) {
            0 | 1 => *rng.pick(F32_EDGES),
            _ => {
                let x = f32::from_bits(rng.next() as u32);
                if x.is_nan() {
                    f32::NAN
                } else {
                    x
                }
            }
        };
        f32_leaf(x)
    }
    fn orig(&self) -> Orig {
        let p = Prim::F64((*self as f64).to_bits());
        Orig { prim: p.clone(), inspectable: p, leaf: true, ..all_display_debug_ser(self) }
    }
}

// ---- chars and strings (their Debug escaping depends on Unicode tables: shipped and verified like float text)

const CHAR_EDGES: &[char] = &[
    'a', 'Z', '0', ' ', '"', '\'', '\\', '\n', '\r', '\t', '\0', '\u{7}', '\u{1b}', '\u{7f}', '\u{80}', 'é', 'ß', '漢', '😀', '\u{301}',
    '\u{200b}', '\u{2028}', '\u{feff}', '\u{fffd}', '\u{10ffff}', '\u{d7ff}', '\u{e000}',
];

fn gen_char(rng: &mut Rng) -> char {
    match rng.below(4) {
        0 | 1 => *rng.pick(CHAR_EDGES),
        2 => (0x20 + rng.below(0x5f) as u8) as char,
        _ => loop {
            if let Some(c) = char::from_u32(rng.below(0x110000) as u32) {
                break c;
            }
        },
    }
}

impl Build for char {
    const PRIM: bool = true;
    fn build(s: &Sexp) -> Option<Self> {
        let a = tagged(s, "char", 2)?;
        let c = char::from_u32(u32::try_from(a[0].as_u64()?).ok()?)?;
        if a[1].as_string()? != format!("{:?}", c) {
            return None;
        }
        Some(c)
    }
    fn gen(rng: &mut Rng, _: usize) -> Sexp {
        let c = gen_char(rng);
        Sexp::tagged("char", vec![Sexp::num(c as u32), Sexp::str(&format!("{:?}", c))])
    }
    fn orig(&self) -> Orig {
        Orig { leaf: true, ..all_display_debug_ser(self) }
    }
}

const STR_EDGES: &[&str] = &[
    "",
    "a",
    "hello world",
    "42",
    "-7",
    "1.5",
    "true",
    "warn",
    "NaN",
    "null",
    "None",
    "hé \"quoted\" \\ back\nline\ttab",
    "\u{0}\u{1}\u{1f}\u{7f}",
    "漢字😀é\u{301}",
    "\u{200b}\u{2028}\u{feff}",
    "exactly-22-bytes-long!",
    "exactly-23-bytes-long!!",
    "0123456789abcdef0123456789abcdef",
    "0123456789abcdef",
];

fn gen_string(rng: &mut Rng) -> String {
    match rng.below(5) {
        0 | 1 => rng.pick(STR_EDGES).to_string(),
        2 => {
            // around the inline-buffer boundaries of value_bag (22) and its formatter (64)
            let n = *rng.pick(&[21usize, 22, 23, 24, 63, 64, 65, 66, 200]);
            let multibyte = rng.chance(1, 3);
            let mut s = String::new();
            while s.len() < n {
                if multibyte && s.len() + 2 <= n && rng.chance(1, 4) {
                    s.push('é');
                } else {
                    s.push((b'a' + rng.below(26) as u8) as char);
                }
            }
            s
        }
        _ => {
            let n = rng.below(12) as usize;
            (0..n).map(|_| gen_char(rng)).collect()
        }
    }
}

fn str_sexp(tag: &str, s: &str) -> Sexp {
    Sexp::tagged(tag, vec![Sexp::str(s), Sexp::str(&format!("{:?}", s))])
}
fn str_of(tag: &str, s: &Sexp) -> Option<String> {
    let a = tagged(s, tag, 2)?;
    let v = a[0].as_string()?;
    if a[1].as_string()? != format!("{:?}", v) {
        return None;
    }
    Some(v)
}

impl Build for String {
    const PRIM: bool = true;
    fn build(s: &Sexp) -> Option<Self> {
        str_of("string", s)
    }
    fn gen(rng: &mut Rng, _: usize) -> Sexp {
        str_sexp("string", &gen_string(rng))
    }
    fn orig(&self) -> Orig {
        let p = Prim::Str(self.clone());
        Orig { prim: p.clone(), inspectable: p, leaf: true, ..all_display_debug_ser(self) }
    }
}

/// `&str` borrowed from the case (NOT `'static`): the capture traits special-case `str`.
struct BorrowedStr(String);
impl Build for BorrowedStr {
    fn build(s: &Sexp) -> Option<Self> {
        str_of("str", s).map(BorrowedStr)
    }
    fn gen(rng: &mut Rng, _: usize) -> Sexp {
        str_sexp("str", &gen_string(rng))
    }
    fn orig(&self) -> Orig {
        let p = Prim::Str(self.0.clone());
        Orig { prim: p.clone(), inspectable: p, leaf: true, ..all_display_debug_ser(&self.0.as_str()) }
    }
}

// ------------------------------------------------------------------ capture sites (the REAL macros)

macro_rules! props_for {
    ($key:ident, none, $e:expr) => { emit::props! { $key: $e } };
    ($key:ident, display, $e:expr) => { emit::props! { #[emit::as_display] $key: $e } };
    ($key:ident, display_i, $e:expr) => { emit::props! { #[emit::as_display(inspect: true)] $key: $e } };
    ($key:ident, debug, $e:expr) => { emit::props! { #[emit::as_debug] $key: $e } };
    ($key:ident, debug_i, $e:expr) => { emit::props! { #[emit::as_debug(inspect: true)] $key: $e } };
    ($key:ident, sval, $e:expr) => { emit::props! { #[emit::as_sval] $key: $e } };
    ($key:ident, sval_i, $e:expr) => { emit::props! { #[emit::as_sval(inspect: true)] $key: $e } };
    ($key:ident, serde, $e:expr) => { emit::props! { #[emit::as_serde] $key: $e } };
    ($key:ident, serde_i, $e:expr) => { emit::props! { #[emit::as_serde(inspect: true)] $key: $e } };
    ($key:ident, value, $e:expr) => { emit::props! { #[emit::as_value] $key: $e } };
    ($key:ident, value_i, $e:expr) => { emit::props! { #[emit::as_value(inspect: true)] $key: $e } };
    ($key:ident, error, $e:expr) => { emit::props! { #[emit::as_error] $key: $e } };
}

// `#[emit::optional]` before or after the capture attribute: hooks are independent renames, both orders are used.
macro_rules! opt_props_for {
    ($key:ident, none, $e:expr) => { emit::props! { #[emit::optional] $key: $e } };
    ($key:ident, display, $e:expr) => { emit::props! { #[emit::optional] #[emit::as_display] $key: $e } };
    ($key:ident, display_i, $e:expr) => { emit::props! { #[emit::as_display(inspect: true)] #[emit::optional] $key: $e } };
    ($key:ident, debug, $e:expr) => { emit::props! { #[emit::as_debug] #[emit::optional] $key: $e } };
    ($key:ident, debug_i, $e:expr) => { emit::props! { #[emit::optional] #[emit::as_debug(inspect: true)] $key: $e } };
    ($key:ident, sval, $e:expr) => { emit::props! { #[emit::optional] #[emit::as_sval] $key: $e } };
    ($key:ident, sval_i, $e:expr) => { emit::props! { #[emit::as_sval(inspect: true)] #[emit::optional] $key: $e } };
    ($key:ident, serde, $e:expr) => { emit::props! { #[emit::as_serde] #[emit::optional] $key: $e } };
    ($key:ident, serde_i, $e:expr) => { emit::props! { #[emit::optional] #[emit::as_serde(inspect: true)] $key: $e } };
    ($key:ident, value, $e:expr) => { emit::props! { #[emit::optional] #[emit::as_value] $key: $e } };
    ($key:ident, value_i, $e:expr) => { emit::props! { #[emit::as_value(inspect: true)] #[emit::optional] $key: $e } };
    ($key:ident, error, $e:expr) => { emit::props! { #[emit::optional] #[emit::as_error] $key: $e } };
}

struct Entry {
    tag: &'static str,
    /// (key, attr) pairs that type-check for this type; each exists in the three OPT forms
    sites: &'static [(&'static str, &'static str)],
    gen: fn(&mut Rng, usize) -> Sexp,
    run: fn(&Sexp, &str, &str, &str, Path) -> Option<String>,
}

/// `entry!(tag, BuildType => |built| borrowed-expression : BorrowedType, [(key attr)…])`
macro_rules! entry {
    ($tag:literal, $T:ty => |$b:ident| $borrow:expr ; $B:ty, [$(($key:ident $attr:ident)),* $(,)?]) => {
        Entry {
            tag: $tag,
            sites: &[$((stringify!($key), stringify!($attr))),*],
            gen: |rng, d| <$T as Build>::gen(rng, d),
            run: |val, key, attr, opt, path| {
                let $b: $T = <$T as Build>::build(val)?;
                let orig = <$T as Build>::orig(&$b);
                let v: &$B = $borrow;
                $(
                    if key == stringify!($key) && attr == stringify!($attr) {
                        return match opt {
                            "plain" => {
                                let p = props_for!($key, $attr, v);
                                Some(finish(&p, stringify!($key), attr, opt, path, &orig))
                            }
                            "some" => {
                                let o: Option<&$B> = Some(v);
                                let p = opt_props_for!($key, $attr, o);
                                Some(finish(&p, stringify!($key), attr, opt, path, &orig))
                            }
                            "none" => {
                                let o: Option<&$B> = None;
                                let p = opt_props_for!($key, $attr, o);
                                Some(finish(&p, stringify!($key), attr, opt, path, &orig))
                            }
                            _ => None,
                        };
                    }
                )*
                None
            },
        }
    };
    ($tag:literal, $T:ty, [$($site:tt),* $(,)?]) => {
        entry!($tag, $T => |b| &b ; $T, [$($site),*])
    };
}

fn entries() -> Vec<Entry> {
    macro_rules! int_entry {
        ($tag:literal, $T:ty) => {
            entry!($tag, $T, [(k none), (k display), (k display_i), (k debug), (k debug_i), (k sval), (k sval_i), (k serde), (k serde_i), (k value), (k value_i)])
        };
    }
    vec![
        entry!("bool", bool, [(k none), (k display), (k display_i), (k debug), (k debug_i), (k sval), (k sval_i), (k serde), (k serde_i), (k value), (k value_i)]),
        int_entry!("i8", i8),
        int_entry!("i16", i16),
        int_entry!("i32", i32),
        int_entry!("i64", i64),
        int_entry!("i128", i128),
        entry!("isize", isize, [(k none), (k display), (k display_i), (k debug), (k debug_i), (k serde), (k serde_i), (k value), (k value_i)]),
        int_entry!("u8", u8),
        int_entry!("u16", u16),
        int_entry!("u32", u32),
        int_entry!("u64", u64),
        int_entry!("u128", u128),
        entry!("usize", usize, [(k none), (k display), (k display_i), (k debug), (k debug_i), (k serde), (k serde_i), (k value), (k value_i)]),
        entry!("f64", f64, [(k none), (k display), (k display_i), (k debug), (k debug_i), (k sval), (k sval_i), (k serde), (k serde_i), (k value), (k value_i)]),
        entry!("f32", f32, [(k none), (k display), (k display_i), (k debug), (k debug_i), (k sval), (k sval_i), (k serde), (k serde_i)]),
        entry!("char", char, [(k none), (k display), (k display_i), (k debug), (k debug_i), (k sval), (k sval_i), (k serde), (k serde_i)]),
        entry!("string", String, [(k none), (k display), (k display_i), (k debug), (k debug_i), (k sval), (k sval_i), (k serde), (k serde_i), (k value), (k value_i)]),
        entry!("str", BorrowedStr => |b| b.0.as_str() ; str, [(k none), (k display), (k display_i), (k debug), (k debug_i), (k sval), (k sval_i), (k serde), (k serde_i), (k value), (k value_i), (k error),
            (lvl none), (err none), (trace_id none), (span_id none), (span_parent none), (lvl debug), (err display)]),
    ]
}

// ------------------------------------------------------------------ one case

/// The capture hook in force: the attribute if there is one, else the hook the key name selects
/// (macros/src/capture.rs `default_fn_name`).
fn hook_of(key: &str, attr: &str) -> &'static str {
    match attr {
        "none" => match key {
            "lvl" => "level",
            "err" => "error",
            "trace_id" => "trace_id",
            "span_id" | "span_parent" => "span_id",
            _ => "default",
        },
        "display" | "display_i" => "display",
        "debug" | "debug_i" => "debug",
        "sval" | "sval_i" => "sval",
        "serde" | "serde_i" => "serde",
        "value" | "value_i" => "value",
        "error" => "error",
        _ => "?",
    }
}

fn check_prim(p: &Prim, o: &Obs) -> Result<(), String> {
    let ok = match p {
        Prim::No => true,
        Prim::Bool(b) => o.b == Some(*b),
        Prim::Int(i) => o.i128 == Some(*i) && o.i64 == i64::try_from(*i).ok() && o.i32 == i32::try_from(*i).ok(),
        Prim::UInt(u) => o.u128 == Some(*u) && o.u64 == u64::try_from(*u).ok() && o.u8 == u8::try_from(*u).ok(),
        Prim::F64(bits) => o.f64 == Some(*bits),
        Prim::Str(s) => o.s.as_deref() == Some(s.as_str()) && o.disp == *s,
        Prim::Null => o.null,
    };
    if ok {
        Ok(())
    } else {
        Err(format!("typed-pull-lost:{:?}", p))
    }
}

/// The property evaluated on the real outputs alone (no model).
fn oracle(key: &str, attr: &str, opt: &str, path: Path, orig: &Orig, direct: &Option<Obs>, got: &Option<Obs>) -> Result<(), String> {
    if opt == "none" || orig.wk_none {
        return if direct.is_none() && got.is_none() { Ok(()) } else { Err("none-contributes-a-property".into()) };
    }
    let d = direct.as_ref().ok_or("property-missing")?;
    let g = got.as_ref().ok_or("property-lost-on-path")?;
    let inspect = attr.ends_with("_i");
    let hook = hook_of(key, attr);
    match hook {
        "default" | "value" | "level" | "trace_id" | "span_id" => {
            if orig.prim != Prim::No {
                check_prim(&orig.prim, d)?;
            } else if hook == "value" && orig.inspectable != Prim::No {
                check_prim(&orig.inspectable, d)?; // Option<T: ToValue>
            } else if let Some(t) = &orig.disp {
                if &d.disp != t {
                    return Err("display-text-differs".into());
                }
            }
        }
        "display" => {
            if inspect && orig.inspectable != Prim::No {
                check_prim(&orig.inspectable, d)?;
            } else if Some(&d.disp) != orig.disp.as_ref() {
                return Err("display-text-differs".into());
            }
        }
        "debug" => {
            if inspect && orig.inspectable != Prim::No {
                check_prim(&orig.inspectable, d)?;
            } else if Some(&d.dbg) != orig.dbg.as_ref() {
                return Err("debug-text-differs".into());
            }
        }
        // `inspect: true` on a primitive captures the primitive itself (an `f32` is widened to `f64`, so its JSON
        // text is the f64's): the typed-pull clause applies instead of the same-text clause
        "sval" | "serde" if inspect && orig.inspectable != Prim::No => check_prim(&orig.inspectable, d)?,
        "sval" | "serde" => {
            if orig.sj.is_some() && d.sj != orig.sj {
                return Err(format!("serde-sees-different-structure-after-{}-capture", hook));
            }
            if orig.vj.is_some() && d.vj != orig.vj {
                return Err(format!("sval-sees-different-structure-after-{}-capture", hook));
            }
        }
        "error" => match (&orig.chain, &orig.prim) {
            (Some(c), _) => {
                if d.chain.as_ref() != Some(c) {
                    return Err("error-chain-differs".into());
                }
            }
            (None, p) => check_prim(p, d)?,
        },
        _ => return Err("unknown-hook".into()),
    }
    // read-path invariance: numbers, booleans, strings and structured values survive unchanged
    if path != Path::Direct {
        let structured = hook == "sval" || hook == "serde";
        let mut a = d.clone();
        let mut b = g.clone();
        // legitimately path-dependent: downcasting (value.rs:160), the Debug text of a buffered error, and
        // borrowing a string out of a buffered serde/sval value
        a.tid = "";
        b.tid = "";
        if a.chain.is_some() {
            a.dbg.clear();
            b.dbg.clear();
        }
        if structured {
            a.bs = None;
            b.bs = None;
            a.disp.clear();
            b.disp.clear();
            a.dbg.clear();
            b.dbg.clear();
        }
        if a != b {
            return Err(format!("path-{:?}-changed-an-observation", path));
        }
    }
    Ok(())
}

fn finish<P: Props>(props: &P, key: &'static str, attr: &str, opt: &str, path: Path, orig: &Orig) -> String {
    let direct = observe(props, key);
    let got = read(props, key, path);
    let hook = hook_of(key, attr);
    let structured = hook == "sval" || hook == "serde";
    let sh = Shown { pulls: !structured || orig.leaf, fmt: !structured };
    let out = render(&got, &sh);
    match oracle(key, attr, opt, path, orig, &direct, &got) {
        Ok(()) => out,
        Err(why) => format!("{}\tFAIL:{}", out, why),
    }
}

fn run_c19(line: &str) -> String {
    (|| -> Option<String> {
        let s = Sexp::parse(line)?;
        let a = tagged(&s, "c19", 4)?;
        let tag = a[0].as_atom()?;
        let site = a[2].as_list()?;
        if site.len() != 3 {
            return None;
        }
        let (key, attr, opt) = (site[0].as_atom()?, site[1].as_atom()?, site[2].as_atom()?);
        let path = PATHS.iter().find(|(n, _)| Some(*n) == a[3].as_atom())?.1;
        let table = entries();
        let e = table.iter().find(|e| e.tag == tag)?;
        (e.run)(&a[1], key, attr, opt, path)
    })()
    .unwrap_or_else(|| "bad-case".into())
}

fn gen_c19(rng: &mut Rng, tier: Tier, n: usize) -> Vec<String> {
    let table = entries();
    let depth = if tier == Tier::Thorough { 4 } else { 3 };
    let mut out = Vec::with_capacity(n);
    while out.len() < n {
        let e = rng.pick(&table);
        let v = (e.gen)(rng, depth);
        let (key, attr) = *rng.pick(e.sites);
        let opt = match rng.below(8) {
            0 => "none",
            1 | 2 => "some",
            _ => "plain",
        };
        let path = rng.pick(PATHS).0;
        out.push(format!("(c19 {} {} ({} {} {}) {})", e.tag, v, key, attr, opt, path));
    }
    out
}

#[allow(dead_code)]
fn unused(_: BTreeMap<String, i32>) {}
