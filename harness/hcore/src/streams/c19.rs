//! C19 — captured values keep their type and structure from call site to sink.
//!
//! A case is `(c19 TYPE VALUE (KEY ATTR OPT) PATH)`:
//!   TYPE   names one of the static Rust types of the matrix below (capture attributes are macro syntax, so every
//!          (type, key, attribute, optional-form) combination that type-checks is a REAL macro call site compiled in);
//!   VALUE  is the value, built from the case line (grammar: lean/EmitModel/Driver/C19.lean);
//!   KEY    k | lvl | err | trace_id | span_id | span_parent   (well-known keys select their own capture hook)
//!   ATTR   none | display | display_i | debug | debug_i | sval | sval_i | serde | serde_i | value | value_i | error
//!          (`_i` = `inspect: true`)
//!   OPT    plain | some | none   (`#[emit::optional]` applied to `Some(&v)` / `None::<&T>`)
//!   PATH   direct | erased | event | owned | shared | owned_thread | ctxt_push | ctxt_root | ctxt_nested | ctxt_thread
//!          | emit (OPT = plain only: the value is captured by `emit::emit!` and observed by the emitter) | emit_ctxt
//! The runner captures the value through the real macro, reads the property back along PATH and prints the
//! observations (typed pulls, Display, Debug, serde_json, sval_json, error chain, downcast) the property constrains.
//! Rust-side oracle: the same observations of the ORIGINAL value taken directly; FAIL when an observation the
//! capture mode promises to preserve differs, or when the path changed an observation that must survive.

use std::collections::BTreeMap;
use std::fmt;

use emit::props::ErasedProps;
use emit::{Ctxt, Props, Value};
use hcommon::{Rng, Sexp, Stream, Tier};

pub fn streams() -> Vec<Stream> {
    vec![Stream { name: "c19", gen: gen_c19, run: run_c19 }]
}

// ------------------------------------------------------------------ observations

#[derive(Clone, Debug, PartialEq)]
struct Obs {
    b: Option<bool>,
    i64: Option<i64>,
    u64: Option<u64>,
    i128: Option<i128>,
    u128: Option<u128>,
    i32: Option<i32>,
    u8: Option<u8>,
    f64: Option<u64>,
    s: Option<String>,
    bs: Option<String>,
    null: bool,
    disp: String,
    dbg: String,
    sj: Option<String>,
    vj: Option<String>,
    chain: Option<Vec<String>>,
    tid: &'static str,
    /// the `OwnedValue` / shared copy of the value, formatted ITSELF (not through `by_ref()`), displays like the value
    owned_disp_same: bool,
}

/// Everything the property lets a consumer ask of the property `key` of `p` — through the public `Props` API.
fn observe<P: Props + ?Sized>(p: &P, key: &str) -> Option<Obs> {
    let v: Value = p.get(key)?;
    let chain = v.to_borrowed_error().map(|e| {
        let mut out = vec![e.to_string()];
        let mut cur = e.source();
        while let Some(s) = cur {
            out.push(s.to_string());
            cur = s.source();
        }
        out
    });
    let tid = if v.downcast_ref::<emit::Level>().is_some() {
        "level"
    } else if v.downcast_ref::<emit::span::TraceId>().is_some() {
        "trace"
    } else if v.downcast_ref::<emit::span::SpanId>().is_some() {
        "span"
    } else {
        "no"
    };
    Some(Obs {
        b: p.pull::<bool, _>(key),
        i64: p.pull::<i64, _>(key),
        u64: p.pull::<u64, _>(key),
        i128: p.pull::<i128, _>(key),
        u128: p.pull::<u128, _>(key),
        i32: p.pull::<i32, _>(key),
        u8: p.pull::<u8, _>(key),
        f64: p.pull::<f64, _>(key).map(f64::to_bits),
        s: p.pull::<String, _>(key),
        bs: p.pull::<&str, _>(key).map(|s| s.to_string()),
        null: v.is_null(),
        disp: v.to_string(),
        dbg: format!("{:?}", v),
        sj: serde_json::to_string(&v).ok(),
        vj: sval_json::stream_to_string(&v).ok(),
        chain,
        tid,
        // (not promised for error values: value_bag buffers an error as its own Display text, without the root cause
        // that `Value`'s Display appends — the property lists numbers, booleans, strings and structured values)
        owned_disp_same: v.to_borrowed_error().is_some() || {
            let d = v.to_string();
            v.to_owned().to_string() == d && v.to_shared().to_string() == d && v.to_owned().by_ref().to_string() == d
        },
    })
}

fn show_opt<T: fmt::Display>(o: &Option<T>) -> String {
    match o {
        Some(x) => x.to_string(),
        None => "none".into(),
    }
}
fn show_str(o: &Option<String>, missing: &str) -> String {
    match o {
        Some(s) => Sexp::str(s).to_string(),
        None => missing.into(),
    }
}

/// Which observations are printed (= constrained by the property) — same rule in Driver/C19.lean `shown`.
struct Shown {
    pulls: bool,
    fmt: bool,
    /// the Debug text of an error value (the error's own Debug, `OwnedError {…}` once buffered) is not constrained
    dbg: bool,
}

fn render(o: &Option<Obs>, sh: &Shown) -> String {
    let o = match o {
        None => return "absent".into(),
        Some(o) => o,
    };
    let mut parts = Vec::new();
    if sh.pulls {
        parts.push(format!(
            "b={} i64={} u64={} i128={} u128={} i32={} u8={} f64={} s={} bs={}",
            show_opt(&o.b),
            show_opt(&o.i64),
            show_opt(&o.u64),
            show_opt(&o.i128),
            show_opt(&o.u128),
            show_opt(&o.i32),
            show_opt(&o.u8),
            show_opt(&o.f64),
            show_str(&o.s, "none"),
            show_str(&o.bs, "none")
        ));
    }
    parts.push(format!("null={}", o.null));
    if sh.fmt {
        parts.push(format!("disp={}", Sexp::str(&o.disp)));
        if sh.dbg {
            parts.push(format!("dbg={}", Sexp::str(&o.dbg)));
        }
    }
    parts.push(format!("sj={} vj={}", show_str(&o.sj, "err"), show_str(&o.vj, "err")));
    parts.push(match &o.chain {
        None => "chain=none".into(),
        Some(c) => format!("chain=({})", c.iter().map(|m| Sexp::str(m).to_string()).collect::<Vec<_>>().join(" ")),
    });
    parts.push(format!("tid={}", o.tid));
    format!("({})", parts.join(" "))
}

// ------------------------------------------------------------------ read paths

#[derive(Clone, Copy, PartialEq, Debug)]
enum Path {
    Direct,
    Erased,
    Event,
    Owned,
    Shared,
    OwnedThread,
    CtxtPush,
    CtxtRoot,
    CtxtNested,
    CtxtThread,
    /// captured by `emit::emit!` itself and observed by the runtime's emitter (the event a sink receives)
    Emit,
    /// pushed into the runtime's ambient context with `Frame::push`, then seen by the emitter of `emit::emit!`
    EmitCtxt,
}

const PATHS: &[(&str, Path)] = &[
    ("direct", Path::Direct),
    ("erased", Path::Erased),
    ("event", Path::Event),
    ("owned", Path::Owned),
    ("shared", Path::Shared),
    ("owned_thread", Path::OwnedThread),
    ("ctxt_push", Path::CtxtPush),
    ("ctxt_root", Path::CtxtRoot),
    ("ctxt_nested", Path::CtxtNested),
    ("ctxt_thread", Path::CtxtThread),
    ("emit", Path::Emit),
    ("emit_ctxt", Path::EmitCtxt),
];

/// The sink: records what it can observe under `key` on every event it is given (through the erased event, like
/// the real emitters).
struct Recorder<'a> {
    key: &'static str,
    seen: &'a std::cell::RefCell<Vec<Option<Obs>>>,
}
impl<'a> emit::Emitter for Recorder<'a> {
    fn emit<E: emit::event::ToEvent>(&self, evt: E) {
        let evt = evt.to_event();
        let erased = evt.erase();
        self.seen.borrow_mut().push(observe(erased.props(), self.key));
    }
    fn blocking_flush(&self, _: std::time::Duration) -> bool {
        true
    }
}
type Rt<'a> = emit::runtime::Runtime<Recorder<'a>, emit::Empty, emit::platform::thread_local_ctxt::ThreadLocalCtxt, emit::Empty, emit::Empty>;

/// Run `f` with a real runtime (recording emitter, real thread-local ambient context) and return what the emitter
/// observed under `key` on the one event it must receive.
fn with_rt(key: &'static str, f: impl FnOnce(&Rt)) -> Option<Obs> {
    let seen = std::cell::RefCell::new(Vec::new());
    {
        let rt: Rt = emit::runtime::Runtime::build(
            Recorder { key, seen: &seen },
            emit::Empty,
            emit::platform::thread_local_ctxt::ThreadLocalCtxt::new(),
            emit::Empty,
            emit::Empty,
        );
        f(&rt);
    }
    let mut seen = seen.into_inner();
    assert_eq!(seen.len(), 1, "the emitter must see exactly one event");
    seen.pop().unwrap()
}

fn read<P: Props>(props: &P, key: &'static str, path: Path) -> Option<Obs> {
    use emit::platform::thread_local_ctxt::ThreadLocalCtxt;
    match path {
        Path::Emit => unreachable!("captured by the emit! call site"),
        Path::EmitCtxt => with_rt(key, |rt| {
            emit::Frame::push(rt.ctxt(), props).call(|| {
                emit::emit!(rt: rt, "c19 ambient");
            })
        }),
        Path::Direct => observe(props, key),
        Path::Erased => {
            let e: &dyn ErasedProps = props;
            observe(&e, key)
        }
        Path::Event => {
            let evt = emit::Event::new(emit::Path::new_raw("m"), emit::Template::literal("t"), emit::Empty, props);
            let erased = evt.erase();
            observe(erased.props(), key)
        }
        Path::Owned => {
            let o = props.get(key)?.to_owned();
            observe(&(key, o), key)
        }
        Path::Shared => {
            let o = props.get(key)?.to_shared();
            observe(&(key, o), key)
        }
        Path::OwnedThread => {
            let o = props.get(key)?.to_owned();
            std::thread::spawn(move || observe(&(key, o), key)).join().unwrap()
        }
        Path::CtxtPush => {
            let c = ThreadLocalCtxt::new();
            let mut f = c.open_push(props);
            c.enter(&mut f);
            let r = c.with_current(|cur| observe(cur, key));
            c.exit(&mut f);
            c.close(f);
            r
        }
        Path::CtxtRoot => {
            let c = ThreadLocalCtxt::new();
            let mut f = c.open_root(props);
            c.enter(&mut f);
            let r = c.with_current(|cur| observe(cur, key));
            c.exit(&mut f);
            c.close(f);
            r
        }
        Path::CtxtNested => {
            // a second frame pushed on top clones the map (Arc::make_mut) — the value must survive the clone
            let c = ThreadLocalCtxt::new();
            let mut f = c.open_push(props);
            c.enter(&mut f);
            let mut g = c.open_push(("c19_other", 1));
            c.enter(&mut g);
            let r = c.with_current(|cur| observe(cur, key));
            c.exit(&mut g);
            c.close(g);
            c.exit(&mut f);
            c.close(f);
            r
        }
        Path::CtxtThread => {
            let c = ThreadLocalCtxt::new();
            let mut f = c.open_push(props);
            std::thread::spawn(move || {
                c.enter(&mut f);
                let r = c.with_current(|cur| observe(cur, key));
                c.exit(&mut f);
                c.close(f);
                r
            })
            .join()
            .unwrap()
        }
    }
}

// ------------------------------------------------------------------ the original value, observed directly

#[derive(Clone, Debug, PartialEq)]
enum Prim {
    No,
    Bool(bool),
    Int(i128),
    UInt(u128),
    /// bits of the value as an f64 (`f32` widened with `as`)
    F64(u64),
    Str(String),
    Char(char),
    /// `Option<primitive>::None`
    Null,
}

#[derive(Clone, Debug)]
struct Orig {
    disp: Option<String>,
    dbg: Option<String>,
    sj: Option<String>,
    vj: Option<String>,
    chain: Option<Vec<String>>,
    prim: Prim,
    /// what `try_capture` / `inspect: true` sees (primitive, `String`, or an `Option` of those)
    inspectable: Prim,
    /// the value is `Option::None` (the well-known-key hooks map it to an absent property without `#[emit::optional]`)
    is_none: bool,
    /// a plain primitive / string (typed pulls are part of the output also under sval/serde capture)
    leaf: bool,
}

impl Orig {
    fn new() -> Orig {
        Orig { disp: None, dbg: None, sj: None, vj: None, chain: None, prim: Prim::No, inspectable: Prim::No, is_none: false, leaf: false }
    }
}

fn sj<T: serde::Serialize + ?Sized>(v: &T) -> Option<String> {
    serde_json::to_string(v).ok()
}
fn vj<T: sval::Value + ?Sized>(v: &T) -> Option<String> {
    sval_json::stream_to_string(v).ok()
}

/// A Rust type of the matrix: built from the case line, generated from the grammar, observed directly.
trait Build: Sized {
    /// element of value_bag's `try_capture` TypeId table (so `Option<Self>` is in it too)
    const PRIM: bool = false;
    fn build(s: &Sexp) -> Option<Self>;
    fn gen(rng: &mut Rng, depth: usize) -> Sexp;
    fn orig(&self) -> Orig;
}

fn all_display_debug_ser<T: fmt::Display + fmt::Debug + serde::Serialize + sval::Value>(v: &T) -> Orig {
    Orig { disp: Some(v.to_string()), dbg: Some(format!("{:?}", v)), sj: sj(v), vj: vj(v), ..Orig::new() }
}
/// `isize` / `usize` do not implement `sval::Value` (sval 2.22)
fn display_debug_serde<T: fmt::Display + fmt::Debug + serde::Serialize>(v: &T) -> Orig {
    Orig { disp: Some(v.to_string()), dbg: Some(format!("{:?}", v)), sj: sj(v), ..Orig::new() }
}
fn debug_ser<T: fmt::Debug + serde::Serialize + sval::Value>(v: &T) -> Orig {
    Orig { dbg: Some(format!("{:?}", v)), sj: sj(v), vj: vj(v), ..Orig::new() }
}

fn tagged<'a>(s: &'a Sexp, tag: &str, n: usize) -> Option<&'a [Sexp]> {
    let (t, a) = s.as_tagged()?;
    if t == tag && a.len() == n {
        Some(a)
    } else {
        None
    }
}

// ---- integers

const INT_EDGES: &[i128] = &[
    0,
    1,
    -1,
    2,
    7,
    -128,
    127,
    128,
    255,
    256,
    -32768,
    32767,
    65535,
    i32::MIN as i128,
    i32::MIN as i128 - 1,
    i32::MAX as i128,
    i32::MAX as i128 + 1,
    u32::MAX as i128,
    u32::MAX as i128 + 1,
    (1 << 53) - 1,
    1 << 53,
    (1 << 53) + 1,
    i64::MIN as i128,
    i64::MIN as i128 + 1,
    i64::MAX as i128,
    i64::MAX as i128 + 1,
    u64::MAX as i128,
    u64::MAX as i128 + 1,
    i128::MIN,
    i128::MIN + 1,
    i128::MAX,
    i128::MAX - 1,
    // decimal texts that are also well-formed 16- / 32-digit hex ids (a number under `span_id` / `trace_id` must
    // still be read as a number)
    1_000_000_000_000_000,
    1_234_567_890_123_456,
    9_999_999_999_999_999,
    10_000_000_000_000_000_000_000_000_000_000,
    12_345_678_901_234_567_890_123_456_789_012,
];

macro_rules! build_int {
    ($($t:ident : $signed:expr, $orig:ident),*) => {$(
        impl Build for $t {
            const PRIM: bool = true;
            fn build(s: &Sexp) -> Option<Self> {
                let a = tagged(s, "int", 2)?;
                if a[0].as_atom()? != stringify!($t) { return None; }
                a[1].as_atom()?.parse().ok()
            }
            fn gen(rng: &mut Rng, _: usize) -> Sexp {
                let v: $t = match rng.below(4) {
                    0 => $t::MIN,
                    1 => $t::MAX,
                    2 => {
                        // an edge that fits, else a small number
                        let e = *rng.pick(INT_EDGES);
                        <$t>::try_from(e).unwrap_or((rng.below(100) as u8 % 100) as $t)
                    }
                    _ => {
                        let bits = rng.below(129) as u32;
                        let raw = ((rng.next() as u128) << 64 | rng.next() as u128) >> (128 - bits.max(1));
                        raw as $t
                    }
                };
                Sexp::tagged("int", vec![Sexp::atom(stringify!($t)), Sexp::num(v)])
            }
            fn orig(&self) -> Orig {
                let p = if $signed { Prim::Int(*self as i128) } else { Prim::UInt(*self as u128) };
                Orig { prim: p.clone(), inspectable: p, leaf: true, ..$orig(self) }
            }
        }
    )*};
}
build_int!(
    i8: true, all_display_debug_ser,
    i16: true, all_display_debug_ser,
    i32: true, all_display_debug_ser,
    i64: true, all_display_debug_ser,
    i128: true, all_display_debug_ser,
    isize: true, display_debug_serde,
    u8: false, all_display_debug_ser,
    u16: false, all_display_debug_ser,
    u32: false, all_display_debug_ser,
    u64: false, all_display_debug_ser,
    u128: false, all_display_debug_ser,
    usize: false, display_debug_serde
);

impl Build for bool {
    const PRIM: bool = true;
    fn build(s: &Sexp) -> Option<Self> {
        tagged(s, "bool", 1)?[0].as_bool()
    }
    fn gen(rng: &mut Rng, _: usize) -> Sexp {
        Sexp::tagged("bool", vec![Sexp::bool(rng.bool())])
    }
    fn orig(&self) -> Orig {
        Orig { prim: Prim::Bool(*self), inspectable: Prim::Bool(*self), leaf: true, ..all_display_debug_ser(self) }
    }
}

// ---- floats: Lean does not compute shortest-round-trip decimal text, so the four texts of the ORIGINAL value travel
// with it and are verified here against std / serde_json / sval_json (a mismatch makes the case `bad-case`).

fn f64_leaf(x: f64) -> Sexp {
    Sexp::tagged(
        "f64",
        vec![
            Sexp::num(x.to_bits()),
            Sexp::str(&x.to_string()),
            Sexp::str(&format!("{:?}", x)),
            Sexp::str(&sj(&x).unwrap()),
            Sexp::str(&vj(&x).unwrap()),
        ],
    )
}
fn f64_of_leaf(s: &Sexp) -> Option<f64> {
    let a = tagged(s, "f64", 5)?;
    let x = f64::from_bits(a[0].as_u64()?);
    if &f64_leaf(x) == s {
        Some(x)
    } else {
        None
    }
}

const F64_EDGES: &[f64] = &[
    0.0,
    -0.0,
    1.0,
    -1.0,
    0.1,
    0.5,
    1.5,
    -2.25,
    1e15,
    1e16,
    1e17,
    1e21,
    1e-5,
    1e-7,
    123456789.125,
    4294967295.0,
    4294967296.0,
    2147483648.0,
    9007199254740993.0,
    1e300,
    1e-300,
    f64::MAX,
    f64::MIN,
    f64::MIN_POSITIVE,
    5e-324,
    f64::EPSILON,
    f64::NAN,
    f64::INFINITY,
    f64::NEG_INFINITY,
    3.141592653589793,
];

impl Build for f64 {
    const PRIM: bool = true;
    fn build(s: &Sexp) -> Option<Self> {
        f64_of_leaf(s)
    }
    fn gen(rng: &mut Rng, _: usize) -> Sexp {
        let x = match rng.below(3) {
            0 | 1 => *rng.pick(F64_EDGES),
            _ => {
                let x = f64::from_bits(rng.next());
                if x.is_nan() {
                    f64::NAN
                } else {
                    x
                }
            }
        };
        f64_leaf(x)
    }
    fn orig(&self) -> Orig {
        let p = Prim::F64(self.to_bits());
        Orig { prim: p.clone(), inspectable: p, leaf: true, ..all_display_debug_ser(self) }
    }
}

const F32_EDGES: &[f32] = &[
    0.0,
    -0.0,
    1.0,
    -1.0,
    0.1,
    0.5,
    16777216.0,
    16777217.0,
    1e10,
    1e-10,
    3.4028235e38,
    f32::MIN_POSITIVE,
    1e-45,
    f32::EPSILON,
    f32::NAN,
    f32::INFINITY,
    f32::NEG_INFINITY,
    3.1415927,
];

fn f32_leaf(x: f32) -> Sexp {
    Sexp::tagged(
        "f32",
        vec![
            Sexp::num(x.to_bits()),
            Sexp::str(&x.to_string()),
            Sexp::str(&format!("{:?}", x)),
            Sexp::str(&sj(&x).unwrap()),
            Sexp::str(&vj(&x).unwrap()),
            f64_leaf(x as f64),
        ],
    )
}

impl Build for f32 {
    const PRIM: bool = true;
    fn build(s: &Sexp) -> Option<Self> {
        let a = tagged(s, "f32", 6)?;
        let x = f32::from_bits(u32::try_from(a[0].as_u64()?).ok()?);
        if &f32_leaf(x) == s {
            Some(x)
        } else {
            None
        }
    }
    fn gen(rng: &mut Rng, _: usize) -> Sexp {
        let x = match rng.below(3) {
            0 | 1 => *rng.pick(F32_EDGES),
            _ => {
                let x = f32::from_bits(rng.next() as u32);
                if x.is_nan() {
                    f32::NAN
                } else {
                    x
                }
            }
        };
        f32_leaf(x)
    }
    fn orig(&self) -> Orig {
        let p = Prim::F64((*self as f64).to_bits());
        Orig { prim: p.clone(), inspectable: p, leaf: true, ..all_display_debug_ser(self) }
    }
}

// ---- chars and strings (their Debug escaping depends on Unicode tables: shipped and verified like float text)

const CHAR_EDGES: &[char] = &[
    'a', 'Z', '0', ' ', '"', '\'', '\\', '\n', '\r', '\t', '\0', '\u{7}', '\u{1b}', '\u{7f}', '\u{80}', 'é', 'ß', '漢', '😀', '\u{301}',
    '\u{200b}', '\u{2028}', '\u{feff}', '\u{fffd}', '\u{10ffff}', '\u{d7ff}', '\u{e000}',
];

fn gen_char(rng: &mut Rng) -> char {
    match rng.below(4) {
        0 | 1 => *rng.pick(CHAR_EDGES),
        2 => (0x20 + rng.below(0x5f) as u8) as char,
        _ => loop {
            if let Some(c) = char::from_u32(rng.below(0x110000) as u32) {
                break c;
            }
        },
    }
}

impl Build for char {
    const PRIM: bool = true;
    fn build(s: &Sexp) -> Option<Self> {
        let a = tagged(s, "char", 2)?;
        let c = char::from_u32(u32::try_from(a[0].as_u64()?).ok()?)?;
        if a[1].as_string()? != format!("{:?}", c) {
            return None;
        }
        Some(c)
    }
    fn gen(rng: &mut Rng, _: usize) -> Sexp {
        let c = gen_char(rng);
        Sexp::tagged("char", vec![Sexp::num(c as u32), Sexp::str(&format!("{:?}", c))])
    }
    fn orig(&self) -> Orig {
        Orig { inspectable: Prim::Char(*self), leaf: true, ..all_display_debug_ser(self) }
    }
}

const STR_EDGES: &[&str] = &[
    "",
    "a",
    "hello world",
    "42",
    "-7",
    "1.5",
    "true",
    "warn",
    "NaN",
    "null",
    "None",
    "hé \"quoted\" \\ back\nline\ttab",
    "\u{0}\u{1}\u{1f}\u{7f}",
    "漢字😀é\u{301}",
    "\u{200b}\u{2028}\u{feff}",
    "exactly-22-bytes-long!",
    "exactly-23-bytes-long!!",
    "0123456789abcdef0123456789abcdef",
    "0123456789abcdef",
];

fn gen_string(rng: &mut Rng) -> String {
    match rng.below(5) {
        0 | 1 => rng.pick(STR_EDGES).to_string(),
        2 => {
            // around the inline-buffer boundaries of value_bag (22) and its formatter (64)
            let n = *rng.pick(&[21usize, 22, 23, 24, 63, 64, 65, 66, 200]);
            let multibyte = rng.chance(1, 3);
            let mut s = String::new();
            while s.len() < n {
                if multibyte && s.len() + 2 <= n && rng.chance(1, 4) {
                    s.push('é');
                } else {
                    s.push((b'a' + rng.below(26) as u8) as char);
                }
            }
            s
        }
        _ => {
            let n = rng.below(12) as usize;
            (0..n).map(|_| gen_char(rng)).collect()
        }
    }
}

fn str_sexp(tag: &str, s: &str) -> Sexp {
    Sexp::tagged(tag, vec![Sexp::str(s), Sexp::str(&format!("{:?}", s))])
}
fn str_of(tag: &str, s: &Sexp) -> Option<String> {
    let a = tagged(s, tag, 2)?;
    let v = a[0].as_string()?;
    if a[1].as_string()? != format!("{:?}", v) {
        return None;
    }
    Some(v)
}

impl Build for String {
    const PRIM: bool = true;
    fn build(s: &Sexp) -> Option<Self> {
        str_of("string", s)
    }
    fn gen(rng: &mut Rng, _: usize) -> Sexp {
        str_sexp("string", &gen_string(rng))
    }
    fn orig(&self) -> Orig {
        let p = Prim::Str(self.clone());
        Orig { prim: p.clone(), inspectable: p, leaf: true, ..all_display_debug_ser(self) }
    }
}

/// `&str` borrowed from the case (NOT `'static`): the capture traits special-case `str`.
struct BorrowedStr(String);
impl Build for BorrowedStr {
    fn build(s: &Sexp) -> Option<Self> {
        str_of("str", s).map(BorrowedStr)
    }
    fn gen(rng: &mut Rng, _: usize) -> Sexp {
        str_sexp("str", &gen_string(rng))
    }
    fn orig(&self) -> Orig {
        let p = Prim::Str(self.0.clone());
        Orig { prim: p.clone(), inspectable: p, leaf: true, ..all_display_debug_ser(&self.0.as_str()) }
    }
}

// ---- structured values: std containers and serde+sval-derived structs / enums (generic, instantiated below)

/// A type with `Debug + Serialize + sval::Value` (everything but `isize`/`usize`/the borrowed str wrapper).
trait SBuild: Build + fmt::Debug + serde::Serialize + sval::Value {}
macro_rules! sbuild { ($($t:ty),*) => { $(impl SBuild for $t {})* }; }
sbuild!(bool, i8, i16, i32, i64, i128, u8, u16, u32, u64, u128, f32, f64, char, String);

fn gen_len(rng: &mut Rng) -> usize {
    match rng.below(6) {
        0 => 0,
        1 | 2 => 1,
        3 | 4 => 2,
        _ => 3,
    }
}

fn prim_of_option(inner: Option<Orig>) -> Prim {
    match inner {
        None => Prim::Null,
        Some(o) => o.inspectable,
    }
}

impl<T: SBuild> SBuild for Option<T> {}
impl<T: SBuild> Build for Option<T> {
    fn build(s: &Sexp) -> Option<Self> {
        let (t, a) = s.as_tagged()?;
        match (t, a.len()) {
            ("none", 1) => {
                if a[0].as_atom()? != if T::PRIM { "prim" } else { "other" } {
                    return None;
                }
                Some(None)
            }
            ("some", 1) => Some(Some(T::build(&a[0])?)),
            _ => None,
        }
    }
    fn gen(rng: &mut Rng, d: usize) -> Sexp {
        if rng.chance(1, 3) {
            Sexp::tagged("none", vec![Sexp::atom(if T::PRIM { "prim" } else { "other" })])
        } else {
            Sexp::tagged("some", vec![T::gen(rng, d)])
        }
    }
    fn orig(&self) -> Orig {
        let inspectable = if T::PRIM { prim_of_option(self.as_ref().map(|v| v.orig())) } else { Prim::No };
        Orig { inspectable, is_none: self.is_none(), ..debug_ser(self) }
    }
}

impl<T: SBuild> SBuild for Vec<T> {}
impl<T: SBuild> Build for Vec<T> {
    fn build(s: &Sexp) -> Option<Self> {
        let (t, a) = s.as_tagged()?;
        if t != "seq" {
            return None;
        }
        a.iter().map(T::build).collect()
    }
    fn gen(rng: &mut Rng, d: usize) -> Sexp {
        let n = gen_len(rng);
        Sexp::tagged("seq", (0..n).map(|_| T::gen(rng, d)).collect())
    }
    fn orig(&self) -> Orig {
        debug_ser(self)
    }
}

/// map keys: strings and integers
trait KeyBuild: SBuild + Ord {}
impl KeyBuild for String {}
impl KeyBuild for i32 {}
impl KeyBuild for u64 {}

impl<K: KeyBuild, T: SBuild> SBuild for BTreeMap<K, T> {}
impl<K: KeyBuild, T: SBuild> Build for BTreeMap<K, T> {
    fn build(s: &Sexp) -> Option<Self> {
        let (t, a) = s.as_tagged()?;
        if t != "map" {
            return None;
        }
        let mut m = BTreeMap::new();
        let mut last: Option<&K> = None;
        let mut items = Vec::new();
        for kv in a {
            let l = kv.as_list()?;
            if l.len() != 2 {
                return None;
            }
            items.push((K::build(&l[0])?, T::build(&l[1])?));
        }
        // the case must list the entries in the map's own order, without duplicates
        for (k, _) in &items {
            if let Some(prev) = last {
                if prev >= k {
                    return None;
                }
            }
            last = Some(k);
        }
        for (k, v) in items {
            m.insert(k, v);
        }
        Some(m)
    }
    fn gen(rng: &mut Rng, d: usize) -> Sexp {
        let n = gen_len(rng);
        let mut m: BTreeMap<K, (Sexp, Sexp)> = BTreeMap::new();
        for _ in 0..n {
            let ks = K::gen(rng, d);
            if let Some(k) = K::build(&ks) {
                m.insert(k, (ks, T::gen(rng, d)));
            }
        }
        Sexp::tagged("map", m.into_values().map(|(k, v)| Sexp::list(vec![k, v])).collect())
    }
    fn orig(&self) -> Orig {
        debug_ser(self)
    }
}

impl SBuild for () {}
impl Build for () {
    fn build(s: &Sexp) -> Option<Self> {
        if s.as_atom()? == "unit" {
            Some(())
        } else {
            None
        }
    }
    fn gen(_: &mut Rng, _: usize) -> Sexp {
        Sexp::atom("unit")
    }
    fn orig(&self) -> Orig {
        debug_ser(self)
    }
}

impl<A: SBuild, B: SBuild> SBuild for (A, B) {}
impl<A: SBuild, B: SBuild> Build for (A, B) {
    fn build(s: &Sexp) -> Option<Self> {
        let a = tagged(s, "tuple", 2)?;
        Some((A::build(&a[0])?, B::build(&a[1])?))
    }
    fn gen(rng: &mut Rng, d: usize) -> Sexp {
        Sexp::tagged("tuple", vec![A::gen(rng, d), B::gen(rng, d)])
    }
    fn orig(&self) -> Orig {
        debug_ser(self)
    }
}

#[derive(serde::Serialize, sval_derive::Value, Debug, Clone)]
struct Rec2<A, B> {
    a: A,
    b: B,
}
#[derive(serde::Serialize, sval_derive::Value, Debug, Clone)]
struct Newt<A>(A);
#[derive(serde::Serialize, sval_derive::Value, Debug, Clone)]
struct Tup2<A, B>(A, B);
#[derive(serde::Serialize, sval_derive::Value, Debug, Clone)]
struct UnitS;
#[derive(serde::Serialize, sval_derive::Value, Debug, Clone)]
enum En<A, B> {
    Unit,
    New(A),
    Tup(A, B),
    Rec { x: A, y: B },
}

fn field<T: Build>(s: &Sexp, name: &str) -> Option<T> {
    let l = s.as_list()?;
    if l.len() != 2 || l[0].as_string()? != name {
        return None;
    }
    T::build(&l[1])
}
fn fld(name: &str, v: Sexp) -> Sexp {
    Sexp::list(vec![Sexp::str(name), v])
}
fn named<'a>(s: &'a Sexp, tag: &str, name: &str, n: usize) -> Option<&'a [Sexp]> {
    let a = tagged(s, tag, n + 1)?;
    if a[0].as_string()? != name {
        return None;
    }
    Some(&a[1..])
}

impl<A: SBuild, B: SBuild> SBuild for Rec2<A, B> {}
impl<A: SBuild, B: SBuild> Build for Rec2<A, B> {
    fn build(s: &Sexp) -> Option<Self> {
        let a = named(s, "rec", "Rec2", 2)?;
        Some(Rec2 { a: field(&a[0], "a")?, b: field(&a[1], "b")? })
    }
    fn gen(rng: &mut Rng, d: usize) -> Sexp {
        Sexp::tagged("rec", vec![Sexp::str("Rec2"), fld("a", A::gen(rng, d)), fld("b", B::gen(rng, d))])
    }
    fn orig(&self) -> Orig {
        debug_ser(self)
    }
}
impl<A: SBuild> SBuild for Newt<A> {}
impl<A: SBuild> Build for Newt<A> {
    fn build(s: &Sexp) -> Option<Self> {
        Some(Newt(A::build(&named(s, "tstruct", "Newt", 1)?[0])?))
    }
    fn gen(rng: &mut Rng, d: usize) -> Sexp {
        Sexp::tagged("tstruct", vec![Sexp::str("Newt"), A::gen(rng, d)])
    }
    fn orig(&self) -> Orig {
        debug_ser(self)
    }
}
impl<A: SBuild, B: SBuild> SBuild for Tup2<A, B> {}
impl<A: SBuild, B: SBuild> Build for Tup2<A, B> {
    fn build(s: &Sexp) -> Option<Self> {
        let a = named(s, "tstruct", "Tup2", 2)?;
        Some(Tup2(A::build(&a[0])?, B::build(&a[1])?))
    }
    fn gen(rng: &mut Rng, d: usize) -> Sexp {
        Sexp::tagged("tstruct", vec![Sexp::str("Tup2"), A::gen(rng, d), B::gen(rng, d)])
    }
    fn orig(&self) -> Orig {
        debug_ser(self)
    }
}
impl SBuild for UnitS {}
impl Build for UnitS {
    fn build(s: &Sexp) -> Option<Self> {
        named(s, "ustruct", "UnitS", 0).map(|_| UnitS)
    }
    fn gen(_: &mut Rng, _: usize) -> Sexp {
        Sexp::tagged("ustruct", vec![Sexp::str("UnitS")])
    }
    fn orig(&self) -> Orig {
        debug_ser(self)
    }
}
impl<A: SBuild, B: SBuild> SBuild for En<A, B> {}
impl<A: SBuild, B: SBuild> Build for En<A, B> {
    fn build(s: &Sexp) -> Option<Self> {
        let (t, _) = s.as_tagged()?;
        match t {
            "uvar" => named(s, "uvar", "Unit", 0).map(|_| En::Unit),
            "nvar" => Some(En::New(A::build(&named(s, "nvar", "New", 1)?[0])?)),
            "tvar" => {
                let a = named(s, "tvar", "Tup", 2)?;
                Some(En::Tup(A::build(&a[0])?, B::build(&a[1])?))
            }
            "svar" => {
                let a = named(s, "svar", "Rec", 2)?;
                Some(En::Rec { x: field(&a[0], "x")?, y: field(&a[1], "y")? })
            }
            _ => None,
        }
    }
    fn gen(rng: &mut Rng, d: usize) -> Sexp {
        match rng.below(4) {
            0 => Sexp::tagged("uvar", vec![Sexp::str("Unit")]),
            1 => Sexp::tagged("nvar", vec![Sexp::str("New"), A::gen(rng, d)]),
            2 => Sexp::tagged("tvar", vec![Sexp::str("Tup"), A::gen(rng, d), B::gen(rng, d)]),
            _ => Sexp::tagged("svar", vec![Sexp::str("Rec"), fld("x", A::gen(rng, d)), fld("y", B::gen(rng, d))]),
        }
    }
    fn orig(&self) -> Orig {
        debug_ser(self)
    }
}

// ---- errors with a source chain, Display-only / Debug-only types

#[derive(Debug)]
struct ChainErr {
    msg: String,
    source: Option<Box<ChainErr>>,
}
impl fmt::Display for ChainErr {
    fn fmt(&self, f: &mut fmt::Formatter) -> fmt::Result {
        f.write_str(&self.msg)
    }
}
impl std::error::Error for ChainErr {
    fn source(&self) -> Option<&(dyn std::error::Error + 'static)> {
        self.source.as_ref().map(|e| &**e as &(dyn std::error::Error + 'static))
    }
}
impl ChainErr {
    fn msgs(&self) -> Vec<String> {
        let mut out = vec![self.msg.clone()];
        let mut cur = &self.source;
        while let Some(e) = cur {
            out.push(e.msg.clone());
            cur = &e.source;
        }
        out
    }
    fn of(msgs: &[String]) -> Option<ChainErr> {
        let (first, rest) = msgs.split_first()?;
        Some(ChainErr { msg: first.clone(), source: ChainErr::of(rest).map(Box::new) })
    }
    fn sexp(&self) -> Sexp {
        let mut a = vec![Sexp::str(&format!("{:?}", self))];
        a.extend(self.msgs().iter().map(|m| Sexp::str(m)));
        Sexp::tagged("err", a)
    }
}
impl Build for ChainErr {
    fn build(s: &Sexp) -> Option<Self> {
        let (t, a) = s.as_tagged()?;
        if t != "err" || a.len() < 2 {
            return None;
        }
        let msgs: Option<Vec<String>> = a[1..].iter().map(|m| m.as_string()).collect();
        let e = ChainErr::of(&msgs?)?;
        if &e.sexp() != s {
            return None;
        }
        Some(e)
    }
    fn gen(rng: &mut Rng, _: usize) -> Sexp {
        // mostly short chains; one in eight is long (past any small fixed bound on how far sources are followed)
        let n = if rng.chance(1, 8) { 15 + rng.below(30) as usize } else { 1 + rng.below(4) as usize };
        let msgs: Vec<String> = (0..n).map(|i| if n > 8 { format!("e{}", i) } else { gen_string(rng) }).collect();
        ChainErr::of(&msgs).unwrap().sexp()
    }
    fn orig(&self) -> Orig {
        Orig { disp: Some(self.to_string()), dbg: Some(format!("{:?}", self)), chain: Some(self.msgs()), ..Orig::new() }
    }
}

struct DispOnly(String);
impl fmt::Display for DispOnly {
    fn fmt(&self, f: &mut fmt::Formatter) -> fmt::Result {
        f.write_str(&self.0)
    }
}
struct DbgOnly(String);
impl fmt::Debug for DbgOnly {
    fn fmt(&self, f: &mut fmt::Formatter) -> fmt::Result {
        f.write_str(&self.0)
    }
}
struct DispDbg(String, String);
impl fmt::Display for DispDbg {
    fn fmt(&self, f: &mut fmt::Formatter) -> fmt::Result {
        f.write_str(&self.0)
    }
}
impl fmt::Debug for DispDbg {
    fn fmt(&self, f: &mut fmt::Formatter) -> fmt::Result {
        f.write_str(&self.1)
    }
}
fn opt_text(s: &Sexp) -> Option<Option<String>> {
    if s.as_atom()? == "none" {
        Some(None)
    } else {
        s.as_string().map(Some)
    }
}
impl Build for DispOnly {
    fn build(s: &Sexp) -> Option<Self> {
        let a = tagged(s, "opaque", 2)?;
        match (opt_text(&a[0])?, opt_text(&a[1])?) {
            (Some(d), None) => Some(DispOnly(d)),
            _ => None,
        }
    }
    fn gen(rng: &mut Rng, _: usize) -> Sexp {
        Sexp::tagged("opaque", vec![Sexp::str(&gen_string(rng)), Sexp::atom("none")])
    }
    fn orig(&self) -> Orig {
        Orig { disp: Some(self.0.clone()), ..Orig::new() }
    }
}
impl Build for DbgOnly {
    fn build(s: &Sexp) -> Option<Self> {
        let a = tagged(s, "opaque", 2)?;
        match (opt_text(&a[0])?, opt_text(&a[1])?) {
            (None, Some(g)) => Some(DbgOnly(g)),
            _ => None,
        }
    }
    fn gen(rng: &mut Rng, _: usize) -> Sexp {
        Sexp::tagged("opaque", vec![Sexp::atom("none"), Sexp::str(&gen_string(rng))])
    }
    fn orig(&self) -> Orig {
        Orig { dbg: Some(self.0.clone()), ..Orig::new() }
    }
}
impl Build for DispDbg {
    fn build(s: &Sexp) -> Option<Self> {
        let a = tagged(s, "opaque", 2)?;
        match (opt_text(&a[0])?, opt_text(&a[1])?) {
            (Some(d), Some(g)) => Some(DispDbg(d, g)),
            _ => None,
        }
    }
    fn gen(rng: &mut Rng, _: usize) -> Sexp {
        Sexp::tagged("opaque", vec![Sexp::str(&gen_string(rng)), Sexp::str(&gen_string(rng))])
    }
    fn orig(&self) -> Orig {
        Orig { disp: Some(self.0.clone()), dbg: Some(self.1.clone()), ..Orig::new() }
    }
}

// ---- emit's own value types for the well-known keys

impl Build for emit::Level {
    fn build(s: &Sexp) -> Option<Self> {
        let t = tagged(s, "level", 1)?[0].as_string()?;
        [emit::Level::Debug, emit::Level::Info, emit::Level::Warn, emit::Level::Error].into_iter().find(|l| l.to_string() == t)
    }
    fn gen(rng: &mut Rng, _: usize) -> Sexp {
        { let t: &str = *rng.pick(&["debug", "info", "warn", "error"]); Sexp::tagged("level", vec![Sexp::str(t)]) }
    }
    fn orig(&self) -> Orig {
        Orig { disp: Some(self.to_string()), dbg: Some(format!("{:?}", self)), ..Orig::new() }
    }
}
impl Build for emit::span::TraceId {
    fn build(s: &Sexp) -> Option<Self> {
        emit::span::TraceId::from_u128(tagged(s, "traceid", 1)?[0].as_u128()?)
    }
    fn gen(rng: &mut Rng, _: usize) -> Sexp {
        let n = match rng.below(4) {
            0 => 1,
            1 => u128::MAX,
            2 => rng.next() as u128,
            _ => ((rng.next() as u128) << 64 | rng.next() as u128).max(1),
        };
        Sexp::tagged("traceid", vec![Sexp::num(n.max(1))])
    }
    fn orig(&self) -> Orig {
        Orig { disp: Some(self.to_string()), dbg: Some(format!("{:?}", self)), sj: sj(self), vj: vj(self), ..Orig::new() }
    }
}
impl Build for emit::span::SpanId {
    fn build(s: &Sexp) -> Option<Self> {
        emit::span::SpanId::from_u64(tagged(s, "spanid", 1)?[0].as_u64()?)
    }
    fn gen(rng: &mut Rng, _: usize) -> Sexp {
        let n = match rng.below(3) {
            0 => 1,
            1 => u64::MAX,
            _ => rng.next().max(1),
        };
        Sexp::tagged("spanid", vec![Sexp::num(n)])
    }
    fn orig(&self) -> Orig {
        Orig { disp: Some(self.to_string()), dbg: Some(format!("{:?}", self)), sj: sj(self), vj: vj(self), ..Orig::new() }
    }
}

/// `Option<Level>` / `Option<TraceId>` / `Option<SpanId>` under their well-known key (no serde/sval bound needed)
struct WkOpt<T>(Option<T>);
impl<T: Build> Build for WkOpt<T> {
    fn build(s: &Sexp) -> Option<Self> {
        let (t, a) = s.as_tagged()?;
        match (t, a.len()) {
            ("none", 1) if a[0].as_atom()? == "other" => Some(WkOpt(None)),
            ("some", 1) => Some(WkOpt(Some(T::build(&a[0])?))),
            _ => None,
        }
    }
    fn gen(rng: &mut Rng, d: usize) -> Sexp {
        if rng.chance(1, 3) {
            Sexp::tagged("none", vec![Sexp::atom("other")])
        } else {
            Sexp::tagged("some", vec![T::gen(rng, d)])
        }
    }
    fn orig(&self) -> Orig {
        match &self.0 {
            None => Orig { is_none: true, ..Orig::new() },
            Some(v) => v.orig(),
        }
    }
}

// ------------------------------------------------------------------ capture sites (the REAL macros)

macro_rules! props_for {
    ($key:ident, none, $e:expr) => { emit::props! { $key: $e } };
    ($key:ident, display, $e:expr) => { emit::props! { #[emit::as_display] $key: $e } };
    ($key:ident, display_i, $e:expr) => { emit::props! { #[emit::as_display(inspect: true)] $key: $e } };
    ($key:ident, debug, $e:expr) => { emit::props! { #[emit::as_debug] $key: $e } };
    ($key:ident, debug_i, $e:expr) => { emit::props! { #[emit::as_debug(inspect: true)] $key: $e } };
    ($key:ident, sval, $e:expr) => { emit::props! { #[emit::as_sval] $key: $e } };
    ($key:ident, sval_i, $e:expr) => { emit::props! { #[emit::as_sval(inspect: true)] $key: $e } };
    ($key:ident, serde, $e:expr) => { emit::props! { #[emit::as_serde] $key: $e } };
    ($key:ident, serde_i, $e:expr) => { emit::props! { #[emit::as_serde(inspect: true)] $key: $e } };
    ($key:ident, value, $e:expr) => { emit::props! { #[emit::as_value] $key: $e } };
    ($key:ident, value_i, $e:expr) => { emit::props! { #[emit::as_value(inspect: true)] $key: $e } };
    ($key:ident, error, $e:expr) => { emit::props! { #[emit::as_error] $key: $e } };
}

// `#[emit::optional]` before or after the capture attribute: hooks are independent renames, both orders are used.
macro_rules! opt_props_for {
    ($key:ident, none, $e:expr) => { emit::props! { #[emit::optional] $key: $e } };
    ($key:ident, display, $e:expr) => { emit::props! { #[emit::optional] #[emit::as_display] $key: $e } };
    ($key:ident, display_i, $e:expr) => { emit::props! { #[emit::as_display(inspect: true)] #[emit::optional] $key: $e } };
    ($key:ident, debug, $e:expr) => { emit::props! { #[emit::as_debug] #[emit::optional] $key: $e } };
    ($key:ident, debug_i, $e:expr) => { emit::props! { #[emit::optional] #[emit::as_debug(inspect: true)] $key: $e } };
    ($key:ident, sval, $e:expr) => { emit::props! { #[emit::optional] #[emit::as_sval] $key: $e } };
    ($key:ident, sval_i, $e:expr) => { emit::props! { #[emit::as_sval(inspect: true)] #[emit::optional] $key: $e } };
    ($key:ident, serde, $e:expr) => { emit::props! { #[emit::as_serde] #[emit::optional] $key: $e } };
    ($key:ident, serde_i, $e:expr) => { emit::props! { #[emit::optional] #[emit::as_serde(inspect: true)] $key: $e } };
    ($key:ident, value, $e:expr) => { emit::props! { #[emit::optional] #[emit::as_value] $key: $e } };
    ($key:ident, value_i, $e:expr) => { emit::props! { #[emit::as_value(inspect: true)] #[emit::optional] $key: $e } };
    ($key:ident, error, $e:expr) => { emit::props! { #[emit::optional] #[emit::as_error] $key: $e } };
}

// the same attributes on `emit::emit!`; for the ordinary key the property is also interpolated into the template
macro_rules! emit_for {
    ($rt:expr, k, none, $e:expr) => { emit::emit!(rt: $rt, "c19 {k}", k: $e) };
    ($rt:expr, k, display, $e:expr) => { emit::emit!(rt: $rt, "c19 {k}", #[emit::as_display] k: $e) };
    ($rt:expr, k, display_i, $e:expr) => { emit::emit!(rt: $rt, "c19 {k}", #[emit::as_display(inspect: true)] k: $e) };
    ($rt:expr, k, debug, $e:expr) => { emit::emit!(rt: $rt, "c19 {k}", #[emit::as_debug] k: $e) };
    ($rt:expr, k, debug_i, $e:expr) => { emit::emit!(rt: $rt, "c19 {k}", #[emit::as_debug(inspect: true)] k: $e) };
    ($rt:expr, k, sval, $e:expr) => { emit::emit!(rt: $rt, "c19 {k}", #[emit::as_sval] k: $e) };
    ($rt:expr, k, sval_i, $e:expr) => { emit::emit!(rt: $rt, "c19 {k}", #[emit::as_sval(inspect: true)] k: $e) };
    ($rt:expr, k, serde, $e:expr) => { emit::emit!(rt: $rt, "c19 {k}", #[emit::as_serde] k: $e) };
    ($rt:expr, k, serde_i, $e:expr) => { emit::emit!(rt: $rt, "c19 {k}", #[emit::as_serde(inspect: true)] k: $e) };
    ($rt:expr, k, value, $e:expr) => { emit::emit!(rt: $rt, "c19 {k}", #[emit::as_value] k: $e) };
    ($rt:expr, k, value_i, $e:expr) => { emit::emit!(rt: $rt, "c19 {k}", #[emit::as_value(inspect: true)] k: $e) };
    ($rt:expr, k, error, $e:expr) => { emit::emit!(rt: $rt, "c19 {k}", #[emit::as_error] k: $e) };
    ($rt:expr, $key:ident, none, $e:expr) => { emit::emit!(rt: $rt, "c19", $key: $e) };
    ($rt:expr, $key:ident, display, $e:expr) => { emit::emit!(rt: $rt, "c19", #[emit::as_display] $key: $e) };
    ($rt:expr, $key:ident, display_i, $e:expr) => { emit::emit!(rt: $rt, "c19", #[emit::as_display(inspect: true)] $key: $e) };
    ($rt:expr, $key:ident, debug, $e:expr) => { emit::emit!(rt: $rt, "c19", #[emit::as_debug] $key: $e) };
    ($rt:expr, $key:ident, debug_i, $e:expr) => { emit::emit!(rt: $rt, "c19", #[emit::as_debug(inspect: true)] $key: $e) };
    ($rt:expr, $key:ident, sval, $e:expr) => { emit::emit!(rt: $rt, "c19", #[emit::as_sval] $key: $e) };
    ($rt:expr, $key:ident, sval_i, $e:expr) => { emit::emit!(rt: $rt, "c19", #[emit::as_sval(inspect: true)] $key: $e) };
    ($rt:expr, $key:ident, serde, $e:expr) => { emit::emit!(rt: $rt, "c19", #[emit::as_serde] $key: $e) };
    ($rt:expr, $key:ident, serde_i, $e:expr) => { emit::emit!(rt: $rt, "c19", #[emit::as_serde(inspect: true)] $key: $e) };
    ($rt:expr, $key:ident, value, $e:expr) => { emit::emit!(rt: $rt, "c19", #[emit::as_value] $key: $e) };
    ($rt:expr, $key:ident, value_i, $e:expr) => { emit::emit!(rt: $rt, "c19", #[emit::as_value(inspect: true)] $key: $e) };
    ($rt:expr, $key:ident, error, $e:expr) => { emit::emit!(rt: $rt, "c19", #[emit::as_error] $key: $e) };
}

struct Entry {
    tag: &'static str,
    /// (key, attr) pairs that type-check for this type; each exists in the three OPT forms
    sites: &'static [(&'static str, &'static str)],
    gen: fn(&mut Rng, usize) -> Sexp,
    run: fn(&Sexp, &str, &str, &str, Path) -> Option<String>,
}

/// `entry!(tag, BuildType => |built| borrowed-expression : BorrowedType, [(key attr)…])`
macro_rules! entry {
    ($tag:literal, $T:ty => |$b:ident| $borrow:expr ; $B:ty, [$(($key:ident $attr:ident)),* $(,)?]) => {
        Entry {
            tag: $tag,
            sites: &[$((stringify!($key), stringify!($attr))),*],
            gen: |rng, d| <$T as Build>::gen(rng, d),
            run: |val, key, attr, opt, path| {
                let $b: $T = <$T as Build>::build(val)?;
                let orig = <$T as Build>::orig(&$b);
                let v: &$B = $borrow;
                $(
                    if key == stringify!($key) && attr == stringify!($attr) {
                        return match opt {
                            "plain" => {
                                let p = props_for!($key, $attr, v);
                                let emitted = if path == Path::Emit {
                                    Some(with_rt(stringify!($key), |rt| {
                                        emit_for!(rt, $key, $attr, v);
                                    }))
                                } else {
                                    None
                                };
                                Some(finish(&p, stringify!($key), attr, opt, path, &orig, emitted))
                            }
                            "some" => {
                                let o: Option<&$B> = Some(v);
                                if path == Path::Emit {
                                    return None;
                                }
                                let p = opt_props_for!($key, $attr, o);
                                Some(finish(&p, stringify!($key), attr, opt, path, &orig, None))
                            }
                            "none" => {
                                let o: Option<&$B> = None;
                                if path == Path::Emit {
                                    return None;
                                }
                                let p = opt_props_for!($key, $attr, o);
                                Some(finish(&p, stringify!($key), attr, opt, path, &orig, None))
                            }
                            _ => None,
                        };
                    }
                )*
                None
            },
        }
    };
    ($tag:literal, $T:ty, [$($site:tt),* $(,)?]) => {
        entry!($tag, $T => |b| &b ; $T, [$($site),*])
    };
}

fn entries() -> Vec<Entry> {
    macro_rules! int_entry {
        ($tag:literal, $T:ty) => {
            entry!($tag, $T, [(k none), (k display), (k display_i), (k debug), (k debug_i), (k sval), (k sval_i), (k serde), (k serde_i), (k value), (k value_i)])
        };
    }
    macro_rules! st_entry {
        ($tag:literal, $T:ty) => {
            entry!($tag, $T, [(k debug), (k debug_i), (k sval), (k sval_i), (k serde), (k serde_i)])
        };
    }
    macro_rules! opt_entry {
        ($tag:literal, $T:ty) => {
            entry!($tag, $T, [(k debug), (k debug_i), (k sval), (k sval_i), (k serde), (k serde_i), (k value), (k value_i)])
        };
    }
    vec![
        entry!("bool", bool, [(k none), (k display), (k display_i), (k debug), (k debug_i), (k sval), (k sval_i), (k serde), (k serde_i), (k value), (k value_i)]),
        int_entry!("i8", i8),
        int_entry!("i16", i16),
        int_entry!("i32", i32),
        int_entry!("i64", i64),
        int_entry!("i128", i128),
        entry!("isize", isize, [(k none), (k display), (k display_i), (k debug), (k debug_i), (k serde), (k serde_i), (k value), (k value_i)]),
        int_entry!("u8", u8),
        int_entry!("u16", u16),
        int_entry!("u32", u32),
        int_entry!("u64", u64),
        int_entry!("u128", u128),
        entry!("usize", usize, [(k none), (k display), (k display_i), (k debug), (k debug_i), (k serde), (k serde_i), (k value), (k value_i)]),
        entry!("f64", f64, [(k none), (k display), (k display_i), (k debug), (k debug_i), (k sval), (k sval_i), (k serde), (k serde_i), (k value), (k value_i)]),
        entry!("f32", f32, [(k none), (k display), (k display_i), (k debug), (k debug_i), (k sval), (k sval_i), (k serde), (k serde_i)]),
        entry!("char", char, [(k none), (k display), (k display_i), (k debug), (k debug_i), (k sval), (k sval_i), (k serde), (k serde_i)]),
        entry!("string", String, [(k none), (k display), (k display_i), (k debug), (k debug_i), (k sval), (k sval_i), (k serde), (k serde_i), (k value), (k value_i)]),
        entry!("str", BorrowedStr => |b| b.0.as_str() ; str, [(k none), (k display), (k display_i), (k debug), (k debug_i), (k sval), (k sval_i), (k serde), (k serde_i), (k value), (k value_i), (k error),
            (lvl none), (err none), (trace_id none), (span_id none), (span_parent none), (lvl debug), (err display)]),
        // Option of a primitive: in value_bag's primitive table, and `ToValue`
        opt_entry!("opt_i32", Option<i32>),
        opt_entry!("opt_u64", Option<u64>),
        opt_entry!("opt_i128", Option<i128>),
        opt_entry!("opt_f64", Option<f64>),
        opt_entry!("opt_bool", Option<bool>),
        opt_entry!("opt_string", Option<String>),
        st_entry!("opt_f32", Option<f32>),
        st_entry!("opt_char", Option<char>),
        // containers and derived structs / enums
        st_entry!("unit", ()),
        st_entry!("vec_i32", Vec<i32>),
        st_entry!("vec_string", Vec<String>),
        st_entry!("vec_f64", Vec<f64>),
        st_entry!("vec_bool", Vec<bool>),
        st_entry!("vec_opt_i64", Vec<Option<i64>>),
        st_entry!("vec_vec_u8", Vec<Vec<u8>>),
        st_entry!("map_string_i64", BTreeMap<String, i64>),
        st_entry!("map_i32_string", BTreeMap<i32, String>),
        st_entry!("map_u64_f64", BTreeMap<u64, f64>),
        st_entry!("map_string_vec_bool", BTreeMap<String, Vec<bool>>),
        st_entry!("tup_i32_string", (i32, String)),
        st_entry!("tup_unit_tup", ((), (u8, f64))),
        st_entry!("rec2_i64_string", Rec2<i64, String>),
        st_entry!("rec2_optbool_vecf64", Rec2<Option<bool>, Vec<f64>>),
        st_entry!("rec2_en_map", Rec2<En<u8, String>, BTreeMap<String, Rec2<i32, char>>>),
        st_entry!("rec2_rec2_newt", Rec2<Rec2<i32, char>, Newt<UnitS>>),
        st_entry!("newt_i32", Newt<i32>),
        st_entry!("newt_string", Newt<String>),
        st_entry!("newt_f64", Newt<f64>),
        st_entry!("tup2_u8_f32", Tup2<u8, f32>),
        st_entry!("units", UnitS),
        st_entry!("en_i32_string", En<i32, String>),
        st_entry!("en_vec_rec", En<Vec<i32>, Rec2<u8, String>>),
        st_entry!("en_unit_opt", En<(), Option<String>>),
        st_entry!("en_en", En<En<bool, u16>, Newt<i128>>),
        st_entry!("opt_rec2", Option<Rec2<u32, String>>),
        st_entry!("opt_vec_i32", Option<Vec<i32>>),
        opt_entry!("opt_opt_i32", Option<Option<i32>>),
        st_entry!("vec_rec2", Vec<Rec2<i16, Option<String>>>),
        st_entry!("vec_en", Vec<En<i64, f64>>),
        st_entry!("vec_tup", Vec<(String, u128)>),
        // errors, Display-only / Debug-only types
        entry!("chainerr", ChainErr, [(k none), (k display), (k display_i), (k debug), (k debug_i), (k error), (err none), (err debug), (err display)]),
        entry!("disponly", DispOnly, [(k none), (k display), (k display_i)]),
        entry!("dbgonly", DbgOnly, [(k debug), (k debug_i)]),
        entry!("dispdbg", DispDbg, [(k none), (k display), (k display_i), (k debug), (k debug_i)]),
        // emit's own id / level types, with and without their well-known keys
        entry!("level", emit::Level, [(k none), (k display), (k display_i), (k debug), (k debug_i), (k value), (k value_i), (lvl none), (lvl display), (lvl debug_i), (lvl value)]),
        entry!("traceid", emit::span::TraceId, [(k none), (k display), (k display_i), (k debug), (k debug_i), (k value), (k value_i), (k sval), (k sval_i), (k serde), (k serde_i), (trace_id none), (trace_id debug), (trace_id serde_i)]),
        entry!("spanid", emit::span::SpanId, [(k none), (k display), (k display_i), (k debug), (k debug_i), (k value), (k value_i), (k sval), (k sval_i), (k serde), (k serde_i), (span_id none), (span_parent none), (span_id display), (span_parent sval_i)]),
        entry!("wk_opt_level", WkOpt<emit::Level> => |b| &b.0 ; Option<emit::Level>, [(lvl none)]),
        entry!("wk_opt_traceid", WkOpt<emit::span::TraceId> => |b| &b.0 ; Option<emit::span::TraceId>, [(trace_id none)]),
        entry!("wk_opt_spanid", WkOpt<emit::span::SpanId> => |b| &b.0 ; Option<emit::span::SpanId>, [(span_id none), (span_parent none)]),
        entry!("wk_u64", u64, [(span_id none), (span_parent none)]),
        entry!("wk_u128", u128, [(trace_id none)]),
        entry!("wk_opt_u64", Option<u64>, [(span_id none), (span_parent none)]),
        entry!("wk_opt_u128", Option<u128>, [(trace_id none)]),
    ]
}

// ------------------------------------------------------------------ one case

/// The capture hook in force: the attribute if there is one, else the hook the key name selects
/// (macros/src/capture.rs `default_fn_name`).
fn hook_of(key: &str, attr: &str) -> &'static str {
    match attr {
        "none" => match key {
            "lvl" => "level",
            "err" => "error",
            "trace_id" => "trace_id",
            "span_id" | "span_parent" => "span_id",
            _ => "default",
        },
        "display" | "display_i" => "display",
        "debug" | "debug_i" => "debug",
        "sval" | "sval_i" => "sval",
        "serde" | "serde_i" => "serde",
        "value" | "value_i" => "value",
        "error" => "error",
        _ => "?",
    }
}

fn check_prim(p: &Prim, o: &Obs) -> Result<(), String> {
    let ok = match p {
        Prim::No => true,
        Prim::Bool(b) => o.b == Some(*b),
        Prim::Int(i) => o.i128 == Some(*i) && o.i64 == i64::try_from(*i).ok() && o.i32 == i32::try_from(*i).ok(),
        Prim::UInt(u) => o.u128 == Some(*u) && o.u64 == u64::try_from(*u).ok() && o.u8 == u8::try_from(*u).ok(),
        Prim::F64(bits) => o.f64 == Some(*bits),
        Prim::Str(s) => o.s.as_deref() == Some(s.as_str()) && o.disp == *s,
        Prim::Char(c) => o.disp == c.to_string() && o.sj == sj(c),
        Prim::Null => o.null,
    };
    if ok {
        Ok(())
    } else {
        Err(format!("typed-pull-lost:{:?}", p))
    }
}

/// The property evaluated on the real outputs alone (no model).
fn oracle(key: &str, attr: &str, opt: &str, path: Path, orig: &Orig, direct: &Option<Obs>, got: &Option<Obs>) -> Result<(), String> {
    let hook = hook_of(key, attr);
    if opt == "none" || (orig.is_none && matches!(hook, "level" | "trace_id" | "span_id")) {
        return if direct.is_none() && got.is_none() { Ok(()) } else { Err("none-contributes-a-property".into()) };
    }
    let d = direct.as_ref().ok_or("property-missing")?;
    let g = got.as_ref().ok_or("property-lost-on-path")?;
    let inspect = attr.ends_with("_i");
    match hook {
        "default" | "value" | "level" | "trace_id" | "span_id" => {
            if orig.prim != Prim::No {
                check_prim(&orig.prim, d)?;
            } else if hook == "value" && orig.inspectable != Prim::No {
                check_prim(&orig.inspectable, d)?; // Option<T: ToValue>
            } else if let Some(t) = &orig.disp {
                if &d.disp != t {
                    return Err("display-text-differs".into());
                }
            }
        }
        "display" => {
            if inspect && orig.inspectable != Prim::No {
                check_prim(&orig.inspectable, d)?;
            } else if Some(&d.disp) != orig.disp.as_ref() {
                return Err("display-text-differs".into());
            }
        }
        "debug" => {
            if inspect && orig.inspectable != Prim::No {
                check_prim(&orig.inspectable, d)?;
            } else if Some(&d.dbg) != orig.dbg.as_ref() {
                return Err("debug-text-differs".into());
            }
        }
        // `inspect: true` on a primitive captures the primitive itself (an `f32` is widened to `f64`, so its JSON
        // text is the f64's): the typed-pull clause applies instead of the same-text clause
        "sval" | "serde" if inspect && orig.inspectable != Prim::No => check_prim(&orig.inspectable, d)?,
        "sval" | "serde" => {
            if orig.sj.is_some() && d.sj != orig.sj {
                return Err(format!("serde-sees-different-structure-after-{}-capture", hook));
            }
            if orig.vj.is_some() && d.vj != orig.vj {
                return Err(format!("sval-sees-different-structure-after-{}-capture", hook));
            }
        }
        "error" => match (&orig.chain, &orig.prim) {
            (Some(c), _) => {
                if d.chain.as_ref() != Some(c) {
                    return Err("error-chain-differs".into());
                }
            }
            (None, p) => check_prim(p, d)?,
        },
        _ => return Err("unknown-hook".into()),
    }
    // read-path invariance: numbers, booleans, strings and structured values survive unchanged
    // (the property does not promise it for error values — value_bag loses the chain behind `to_shared` — and the
    // ambient context replaces a debug/sval/serde-captured TraceId/SpanId by the id itself)
    let id_fast_path = matches!(d.tid, "trace" | "span")
        && matches!(hook, "debug" | "sval" | "serde")
        && matches!(path, Path::CtxtPush | Path::CtxtRoot | Path::CtxtNested | Path::CtxtThread | Path::EmitCtxt);
    if path != Path::Direct && d.chain.is_none() && !id_fast_path {
        let structured = hook == "sval" || hook == "serde";
        let mut a = d.clone();
        let mut b = g.clone();
        // legitimately path-dependent: downcasting (value.rs:160), the Debug text of a buffered error, and
        // borrowing a string out of a buffered serde/sval value
        a.tid = "";
        b.tid = "";
        if a.chain.is_some() {
            a.dbg.clear();
            b.dbg.clear();
        }
        if structured {
            a.bs = None;
            b.bs = None;
            a.disp.clear();
            b.disp.clear();
            a.dbg.clear();
            b.dbg.clear();
        }
        if a != b {
            return Err(format!("path-{:?}-changed-an-observation", path));
        }
    }
    Ok(())
}

/// The map view of the properties (`Props::as_map`, what a consumer serialises to get all properties at once) shows, to
/// a serde consumer and to an sval consumer alike, the property under its key with the value's own serialisation —
/// a null value included. (Values whose own serialisation does not parse as JSON — known finding K1, integers beyond
/// 64 bits — are not compared.)
fn map_views_agree<P: Props>(props: &P, key: &str) -> Result<(), String> {
    let Some(v) = props.get(key) else { return Ok(()) };
    let parse = |s: Option<String>| s.and_then(|s| serde_json::from_str::<serde_json::Value>(&s).ok());
    let views = [
        ("serde", parse(serde_json::to_string(&v).ok()), parse(serde_json::to_string(props.as_map()).ok())),
        ("sval", parse(sval_json::stream_to_string(&v).ok()), parse(sval_json::stream_to_string(props.as_map()).ok())),
    ];
    for (name, want, map) in views {
        let Some(want) = want else { continue };
        match map {
            Some(serde_json::Value::Object(o)) if o.get(key) == Some(&want) => {}
            _ => return Err(format!("as_map-{}-view-differs-from-the-value", name)),
        }
    }
    Ok(())
}

fn finish<P: Props>(props: &P, key: &'static str, attr: &str, opt: &str, path: Path, orig: &Orig, emitted: Option<Option<Obs>>) -> String {
    let direct = observe(props, key);
    let got = match emitted {
        Some(o) => o,
        None => read(props, key, path),
    };
    let hook = hook_of(key, attr);
    let structured = hook == "sval" || hook == "serde";
    let captured_error = direct.as_ref().map_or(false, |d| d.chain.is_some());
    let sh = Shown { pulls: !structured || orig.leaf, fmt: !structured, dbg: !captured_error };
    let out = render(&got, &sh);
    let verdict = oracle(key, attr, opt, path, orig, &direct, &got).and_then(|()| match &got {
        Some(o) if !o.owned_disp_same => Err("owned-copy-displays-differently".to_string()),
        _ => Ok(()),
    }).and_then(|()| map_views_agree(props, key));
    match verdict {
        Ok(()) => out,
        Err(why) => format!("{}\tFAIL:{}", out, why),
    }
}

fn run_c19(line: &str) -> String {
    (|| -> Option<String> {
        let s = Sexp::parse(line)?;
        let a = tagged(&s, "c19", 4)?;
        let tag = a[0].as_atom()?;
        let site = a[2].as_list()?;
        if site.len() != 3 {
            return None;
        }
        let (key, attr, opt) = (site[0].as_atom()?, site[1].as_atom()?, site[2].as_atom()?);
        let path = PATHS.iter().find(|(n, _)| Some(*n) == a[3].as_atom())?.1;
        let table = entries();
        let e = table.iter().find(|e| e.tag == tag)?;
        let out = (e.run)(&a[1], key, attr, opt, path)?;
        Some(match dbg_capture_selftest() {
            Err(why) if !out.contains("\tFAIL:") => format!("{}\tFAIL:{}", out, why),
            _ => out,
        })
    })()
    .unwrap_or_else(|| "bad-case".into())
}

/// `emit::dbg!` promises Debug capture for every value it is given, in each of its call shapes: a bare expression, a
/// hole of an explicit template, a hole whose value comes from a `key: expr` pair after the template, and an extra pair
/// that is not a hole. Run once per process (the macro is hard-wired to the shared runtime, initialised here).
fn dbg_capture_selftest() -> &'static Result<(), String> {
    static RESULT: std::sync::OnceLock<Result<(), String>> = std::sync::OnceLock::new();
    RESULT.get_or_init(|| {
        let seen: std::sync::Arc<std::sync::Mutex<Vec<(String, String)>>> = Default::default();
        let s2 = seen.clone();
        let _ = emit::setup()
            .emit_to(emit::emitter::from_fn(move |evt| {
                let mut g = s2.lock().unwrap();
                let _ = evt.props().for_each(|k, v| {
                    g.push((k.get().to_string(), v.to_string()));
                    std::ops::ControlFlow::Continue(())
                });
            }))
            .try_init();
        let (name, ratio, letter) = (String::from("a \"b\""), 1.0f64, 'r');
        emit::dbg!(name);
        emit::dbg!("hole {ratio}");
        emit::dbg!("pair {who}", who: name);
        emit::dbg!("extra {ratio}", letter);
        let _ = emit::blocking_flush(std::time::Duration::from_secs(1));
        let g = seen.lock().unwrap();
        if g.is_empty() {
            return Ok(()); // another stream of this process owns the shared runtime: nothing to observe here
        }
        let want = [("name", format!("{:?}", name)), ("ratio", format!("{:?}", ratio)), ("who", format!("{:?}", name)), ("letter", format!("{:?}", letter))];
        for (k, w) in want {
            if !g.iter().any(|(gk, gv)| gk == k && *gv == w) {
                return Err(format!("dbg-capture-is-not-Debug({})", k));
            }
        }
        Ok(())
    })
}

fn gen_c19(rng: &mut Rng, tier: Tier, n: usize) -> Vec<String> {
    let table = entries();
    let depth = if tier == Tier::Thorough { 4 } else { 3 };
    let mut out = Vec::with_capacity(n);
    while out.len() < n {
        let e = rng.pick(&table);
        let v = (e.gen)(rng, depth);
        let (key, mut attr) = *rng.pick(e.sites);
        // known finding `sval-nested-seq-via-serde`: a non-empty sequence below the root of an sval-captured value is
        // mangled by the sval→serde bridge; generated cases stay out of that region (the corpus holds reproducers)
        if attr.starts_with("sval") && nested_seq(&v, true) {
            attr = if attr == "sval" { "serde" } else { "serde_i" };
        }
        let opt = match rng.below(8) {
            0 => "none",
            1 | 2 => "some",
            _ => "plain",
        };
        let path = rng.pick(PATHS).0;
        let opt = if path == "emit" { "plain" } else { opt };
        out.push(format!("(c19 {} {} ({} {} {}) {})", e.tag, v, key, attr, opt, path));
    }
    out
}

/// Is there a non-empty `(seq …)` strictly below the root? (mirrors `V.hasSeqBelow` of the model)
fn nested_seq(v: &Sexp, root: bool) -> bool {
    match v.as_tagged() {
        Some(("seq", items)) => (!root && !items.is_empty()) || items.iter().any(|i| nested_seq(i, false)),
        Some(("some", a)) | Some(("tuple", a)) => a.iter().any(|i| nested_seq(i, false)),
        Some(("map", kvs)) => kvs.iter().any(|kv| kv.as_list().map_or(false, |l| l.len() == 2 && nested_seq(&l[1], false))),
        Some(("rec", a)) | Some(("svar", a)) => a.iter().skip(1).any(|f| f.as_list().map_or(false, |l| l.len() == 2 && nested_seq(&l[1], false))),
        Some(("tstruct", a)) | Some(("nvar", a)) | Some(("tvar", a)) => a.iter().skip(1).any(|i| nested_seq(i, false)),
        _ => false,
    }
}
