//! C05 — each enabled, started span completes exactly once; disabled spans never do.
//! Drives the REAL `emit::span::SpanGuard` with arbitrary operation lists (all instantiated at one concrete
//! type so any order type-checks) and the REAL `emit::span::completion::Default`; the completions sit behind the crate's
//! adapters (`&C`, `completion::from_fn`, `completion::from_emitter`, `dyn ErasedCompletion (+ Send + Sync)`, `Empty`)
//! and the guard holds its clock as `T`, `&T`, `Option<T>`, `Box<T>`, `Arc<T>`, `AssertInternal<T>`, `&dyn ErasedClock`,
//! `Box<dyn ErasedClock + Send + Sync>`.
//! Case formats: see lean/EmitModel/Driver/C05.lean.

use std::collections::VecDeque;
use std::ops::ControlFlow;
use std::sync::{Arc, Mutex};
use std::time::Duration;

use emit::props::ErasedProps;
use emit::span::completion::{self, Completion, ErasedCompletion};
use emit::span::{Span, SpanGuard};
use emit::{Clock, Props, Str, Timestamp, Value};
use emit_core::clock::ErasedClock;
use hcommon::{catch, Rng, Sexp, Stream, Tier};

pub fn streams() -> Vec<Stream> {
    vec![
        Stream { name: "c05", gen: gen_c05, run: run_c05 },
        Stream { name: "c05d", gen: gen_c05d, run: run_c05d },
    ]
}

// ------------------------------------------------------------------ test doubles

/// every `now()` pops one scripted reading (`Send + Sync`, so it can also sit behind `dyn ErasedClock + Send + Sync`)
#[derive(Clone)]
struct ScriptClock(Arc<Mutex<VecDeque<Option<u64>>>>);

impl Clock for ScriptClock {
    fn now(&self) -> Option<Timestamp> {
        let r = self.0.lock().unwrap().pop_front().flatten();
        r.and_then(|s| Timestamp::from_unix(Duration::from_secs(s)))
    }
}

/// An owned property list with a fixed enumeration order.
#[derive(Clone)]
struct PV(Vec<(String, String)>);

impl Props for PV {
    fn for_each<'kv, F: FnMut(Str<'kv>, Value<'kv>) -> ControlFlow<()>>(&'kv self, mut for_each: F) -> ControlFlow<()> {
        for (k, v) in &self.0 {
            for_each(Str::new_ref(k), Value::from(v.as_str()))?;
        }
        ControlFlow::Continue(())
    }
}

type CallLog = Arc<Mutex<Vec<String>>>;

fn show_props<P: Props>(p: P) -> String {
    let mut items = Vec::new();
    let _ = p.for_each(|k, v| {
        items.push(format!("({} {})", Sexp::str(k.get()), Sexp::str(&v.to_string())));
        ControlFlow::Continue(())
    });
    format!("({})", items.join(" "))
}

fn show_extent(e: Option<&emit::Extent>) -> String {
    match e.and_then(|e| e.as_range()) {
        Some(r) => format!("({} {})", r.start.to_unix().as_secs(), r.end.to_unix().as_secs()),
        None => match e {
            Some(p) => format!("(point {})", p.as_point().to_unix().as_secs()),
            None => "none".to_string(),
        },
    }
}

/// A completion that records the span it receives, tagged with its id.
#[derive(Clone)]
struct Rec(u64, CallLog);

impl Completion for Rec {
    fn complete<P: Props>(&self, span: Span<P>) {
        let line = format!(
            "({} {} {} {} {})",
            self.0,
            Sexp::str(span.mdl().to_string().as_str()),
            Sexp::str(span.name().get()),
            show_props(span.props()),
            show_extent(span.extent()),
        );
        let first = {
            let mut log = self.1.lock().unwrap();
            let tag = format!("({} ", self.0);
            let first = !log.iter().any(|l| l.starts_with(&tag));
            log.push(line);
            first
        };
        // a completion may fail AFTER it has delivered (its sink panics): recorders whose id is a multiple of three do,
        // the first time they are called. The guard was consumed by the call: nothing completes it a second time.
        if first && self.0 != 0 && self.0 % 3 == 0 {
            panic!("scripted completion panic");
        }
    }
}

type SpanFn<'a> = Box<dyn for<'s, 'p> Fn(Span<'s, &'p dyn ErasedProps>) + 'a>;
type EvtFn<'a> = Box<dyn for<'e, 'p> Fn(emit::Event<'e, &'p dyn ErasedProps>) + 'a>;

/// The completion a guard of the op-list interpreter holds: a recorder behind one of the crate's adapters. The enum
/// only routes the GENERIC call `complete::<P>` to the adapter's own `Completion` impl.
enum AnyComp<'a> {
    Rec(Rec),
    Ref(&'a Rec),
    FromFn(completion::FromFn<SpanFn<'a>>),
    FromEmitter(completion::FromEmitter<emit::emitter::FromFn<EvtFn<'a>>>),
    Erased(&'a dyn ErasedCompletion),
    ErasedSS(&'a (dyn ErasedCompletion + Send + Sync)),
    Empty(emit::Empty),
}

impl<'a> Completion for AnyComp<'a> {
    fn complete<P: Props>(&self, span: Span<P>) {
        match self {
            AnyComp::Rec(c) => c.complete(span),
            AnyComp::Ref(c) => <&Rec as Completion>::complete(c, span),
            AnyComp::FromFn(c) => c.complete(span),
            AnyComp::FromEmitter(c) => c.complete(span),
            AnyComp::Erased(c) => <&dyn ErasedCompletion as Completion>::complete(c, span),
            AnyComp::ErasedSS(c) => <&(dyn ErasedCompletion + Send + Sync) as Completion>::complete(c, span),
            AnyComp::Empty(c) => c.complete(span),
        }
    }
}

impl<'a> AnyComp<'a> {
    /// recorder `rec` behind the adapter named `ad`
    fn of(ad: &str, rec: &'a Rec) -> Option<AnyComp<'a>> {
        Some(match ad {
            "rec" => AnyComp::Rec(rec.clone()),
            "ref" => AnyComp::Ref(rec),
            "fromfn" => AnyComp::FromFn(completion::from_fn(Box::new(move |span: Span<&dyn ErasedProps>| rec.complete(span)) as SpanFn<'a>)),
            "fromemitter" => {
                // the recorder is an EMITTER here: it sees the span as an event
                let (n, log) = (rec.0, rec.1.clone());
                AnyComp::FromEmitter(completion::from_emitter(emit::emitter::from_fn(Box::new(move |evt: emit::Event<&dyn ErasedProps>| {
                    log.lock().unwrap().push(format!(
                        "({} evt {} {} {} {})",
                        n,
                        Sexp::str(&evt.mdl().to_string()),
                        Sexp::str(&evt.tpl().to_string()),
                        show_props(evt.props()),
                        show_extent(evt.extent())
                    ));
                }) as EvtFn<'a>)))
            }
            "erased" => AnyComp::Erased(rec),
            "erasedss" => AnyComp::ErasedSS(rec),
            "empty" => AnyComp::Empty(emit::Empty),
            _ => return None,
        })
    }
}

fn kvs(items: &[Sexp]) -> Option<Vec<(String, String)>> {
    items
        .iter()
        .map(|kv| {
            let l = kv.as_list()?;
            if l.len() != 2 {
                return None;
            }
            Some((l[0].as_string()?, l[1].as_string()?))
        })
        .collect()
}

fn clock(items: &[Sexp]) -> Option<ScriptClock> {
    let mut q = VecDeque::new();
    for r in items {
        q.push_back(if r.as_atom()? == "none" { None } else { Some(r.as_u64()?) });
    }
    Some(ScriptClock(Arc::new(Mutex::new(q))))
}

/// `(comp N [AD])` / `(cwith N [AD])` → (N, AD)
fn comp_spec(a: &[Sexp]) -> Option<(u64, String)> {
    match a.len() {
        1 => Some((a[0].as_u64()?, "rec".to_string())),
        2 => Some((a[0].as_u64()?, a[1].as_atom()?.to_string())),
        _ => None,
    }
}

fn op_parts(op: &Sexp) -> Option<(&str, &[Sexp])> {
    match op {
        Sexp::Atom(a) => Some((a.as_str(), &[])),
        Sexp::List(_) => op.as_tagged(),
    }
}

fn run_c05(line: &str) -> String {
    (|| -> Option<String> {
        let s = Sexp::parse(line)?;
        let (tag, args) = s.as_tagged()?;
        if tag != "c05" || !(args.len() == 3 || args.len() == 4) {
            return None;
        }
        let enabled = args[0].as_bool()?;
        let (ct, rs) = args[1].as_tagged()?;
        let (ot, ops) = args[2].as_tagged()?;
        if ct != "clock" || ot != "ops" || ops.is_empty() {
            return None;
        }
        let holder = if args.len() == 4 { args[3].as_atom()? } else { "direct" };
        let sc = clock(rs)?;
        // how the guard holds the clock
        match holder {
            "direct" => run_ops(sc, enabled, ops),
            "ref" => run_ops(&sc, enabled, ops),
            "some" => run_ops(Some(sc), enabled, ops),
            "none" => run_ops(None::<ScriptClock>, enabled, ops),
            "box" => run_ops(Box::new(sc), enabled, ops),
            "arc" => run_ops(Arc::new(sc), enabled, ops),
            "assert" => run_ops(emit::runtime::AssertInternal(sc), enabled, ops),
            "dyn" => run_ops(&sc as &dyn ErasedClock, enabled, ops),
            "dynss" => run_ops(Box::new(sc) as Box<dyn ErasedClock + Send + Sync>, enabled, ops),
            _ => None,
        }
    })()
    .unwrap_or_else(|| "bad-case".into())
}

fn run_ops<K: Clock>(clk: K, enabled: bool, ops: &[Sexp]) -> Option<String> {
    let log: CallLog = Arc::new(Mutex::new(Vec::new()));
    // the recorders the completions of this case deliver to, one per op that names one (they outlive the guards)
    let mut recs: Vec<Option<Rec>> = Vec::new();
    for op in ops {
        let (name, a) = op_parts(op)?;
        recs.push(if matches!(name, "comp" | "cwith") { Some(Rec(comp_spec(a)?.0, log.clone())) } else { None });
    }
    let rec0 = Rec(0, log.clone());
    let (guard, _frame) = SpanGuard::new(
        emit::filter::from_fn(move |_| enabled),
        emit::Empty,
        clk,
        emit::Empty,
        AnyComp::Rec(rec0),
        emit::Empty,
        emit::Path::new_raw("m0"),
        "n0",
        PV(vec![("p".into(), "0".into())]),
    );
    let mut g: Option<SpanGuard<'static, K, PV, AnyComp<'_>>> = Some(guard);
    let mut rets = Vec::new();
    let mut en = Vec::new();
    // the adapter of the completion in force (for the oracle only)
    let mut in_force = "rec".to_string();
    for (i, op) in ops.iter().enumerate() {
        let last = i + 1 == ops.len();
        let cur = g.take()?; // an op after a terminal is malformed
        let (name, a) = op_parts(op)?;
        let is_terminal = matches!(name, "complete" | "cwith" | "drop");
        if is_terminal != last {
            return None;
        }
        match (name, a.len()) {
            ("start", 0) => {
                let mut c = cur;
                c.start();
                g = Some(c);
            }
            ("mdl", 1) => g = Some(cur.with_mdl(emit::Path::new_owned_raw(a[0].as_string()?))),
            ("name", 1) => g = Some(cur.with_name(Str::new_owned(a[0].as_string()?))),
            ("props", _) => g = Some(cur.with_props(PV(kvs(a)?))),
            ("map", _) => {
                let extra = kvs(a)?;
                g = Some(cur.map_props(move |p: PV| {
                    let mut v = extra;
                    v.extend(p.0);
                    PV(v)
                }))
            }
            ("comp", _) => {
                let (_, ad) = comp_spec(a)?;
                g = Some(cur.with_completion(AnyComp::of(&ad, recs[i].as_ref()?)?));
                in_force = ad;
            }
            // (a completion that panics after delivering did complete the span: `true`)
            ("complete", 0) => rets.push(hcommon::catch(move || cur.complete()).unwrap_or(true)),
            ("cwith", _) => {
                let (_, ad) = comp_spec(a)?;
                let with = AnyComp::of(&ad, recs[i].as_ref()?)?;
                rets.push(hcommon::catch(move || cur.complete_with(with)).unwrap_or(true));
                in_force = ad;
            }
            ("drop", 0) => {
                let _ = hcommon::catch(move || drop(cur));
            }
            _ => return None,
        }
        if let Some(g) = &g {
            en.push(g.is_enabled());
        }
    }
    let calls = log.lock().unwrap().join(" ");
    let ncalls = log.lock().unwrap().len();
    let out = format!("calls=({}) rets={:?} enabled={:?}", calls, rets, en);
    // implementation-side oracle: the property evaluated on the real outputs alone — exactly one delivery for an
    // enabled started span through every adapter (`Empty` swallows it), none otherwise
    let started = ops.iter().any(|o| o.as_atom() == Some("start"));
    let expected = if enabled && started && in_force != "empty" { 1 } else { 0 };
    Some(if ncalls == expected { out } else { format!("{}\tFAIL:completions={}-expected={}", out, ncalls, expected) })
}

// ------------------------------------------------------------------ the default completion

#[derive(Clone)]
struct ScriptCtxt(Vec<(String, String)>);

impl emit::Ctxt for ScriptCtxt {
    type Current = PV;
    type Frame = ();
    fn open_root<P: Props>(&self, _: P) -> Self::Frame {}
    fn enter(&self, _: &mut Self::Frame) {}
    fn with_current<R, F: FnOnce(&Self::Current) -> R>(&self, with: F) -> R {
        with(&PV(self.0.clone()))
    }
    fn exit(&self, _: &mut Self::Frame) {}
    fn close(&self, _: Self::Frame) {}
}

fn opt_str(s: &Sexp) -> Option<Option<String>> {
    if s.as_atom()? == "none" {
        Some(None)
    } else {
        s.as_string().map(Some)
    }
}

fn level_of(s: &str) -> Option<emit::Level> {
    s.parse().ok()
}

fn run_c05d(line: &str) -> String {
    (|| -> Option<String> {
        let s = Sexp::parse(line)?;
        let (tag, args) = s.as_tagged()?;
        if tag != "c05d" || !(args.len() == 8 || args.len() == 9) {
            return None;
        }
        let via = if args.len() == 9 { args[8].as_atom()? } else { "ref" };
        let enabled = args[0].as_bool()?;
        let lvl = opt_str(&args[1])?;
        let plvl = opt_str(&args[2])?;
        let tpl = opt_str(&args[3])?;
        let (ct, rs) = args[4].as_tagged()?;
        let (at, amb) = args[5].as_tagged()?;
        let (st, sps) = args[6].as_tagged()?;
        if ct != "clock" || at != "ambient" || st != "spanprops" {
            return None;
        }
        let exit = args[7].as_atom()?.to_string();
        if !matches!(exit.as_str(), "drop" | "complete" | "panic") {
            return None;
        }
        let clk = clock(rs)?;
        let ambient = kvs(amb)?;
        let sprops = kvs(sps)?;
        let log: CallLog = Arc::new(Mutex::new(Vec::new()));
        let log2 = log.clone();
        let emitter = emit::emitter::from_fn(move |evt: emit::Event<&dyn ErasedProps>| {
            log2.lock().unwrap().push(format!(
                "({} {} {} {})",
                Sexp::str(&evt.mdl().to_string()),
                Sexp::str(&evt.tpl().to_string()),
                show_extent(evt.extent()),
                show_props(evt.props())
            ));
        });
        let tpl_parts: Vec<emit::template::Part> = match &tpl {
            Some(t) => vec![emit::template::Part::text_ref(t.as_str())],
            None => vec![],
        };
        let mut completion = emit::span::completion::Default::new(emitter, ScriptCtxt(ambient));
        if let Some(l) = &lvl {
            completion = completion.with_lvl(level_of(l)?);
        }
        if let Some(l) = &plvl {
            completion = completion.with_panic_lvl(level_of(l)?);
        }
        let completion = if tpl.is_some() { completion.with_tpl(emit::Template::new_ref(&tpl_parts)) } else { completion };
        // how the default completion is handed to the guard: every way must give the same event
        match via {
            "ref" => run_default(&completion, enabled, clk, sprops, &exit),
            "erased" => run_default(&completion as &dyn ErasedCompletion, enabled, clk, sprops, &exit),
            "erasedss" => run_default(&completion as &(dyn ErasedCompletion + Send + Sync), enabled, clk, sprops, &exit),
            "fromfn" => run_default(completion::from_fn(|span: Span<&dyn ErasedProps>| completion.complete(span)), enabled, clk, sprops, &exit),
            _ => return None,
        }
        let out = format!("({})", log.lock().unwrap().join(" "));
        Some(out)
    })()
    .unwrap_or_else(|| "bad-case".into())
}

fn run_default<F: Completion>(completion: F, enabled: bool, clk: ScriptClock, sprops: Vec<(String, String)>, exit: &str) {
    let (mut guard, _frame) = SpanGuard::new(
        emit::filter::from_fn(move |_| enabled),
        emit::Empty,
        clk,
        emit::Empty,
        completion,
        emit::Empty,
        emit::Path::new_raw("m0"),
        "n0",
        PV(sprops),
    );
    guard.start();
    match exit {
        "drop" => drop(guard),
        "complete" => {
            guard.complete();
        }
        _ => {
            // the guard is dropped by unwinding
            let _ = catch(move || {
                let _g = guard;
                panic!("scripted");
            });
        }
    }
}

// ------------------------------------------------------------------ generators

const STRS: [&str; 6] = ["a", "b", "é", "", "m::n", "x y"];
const KEYS: [&str; 6] = ["p", "k", "lvl", "err", "span_name", "é"];

fn gen_kvs(rng: &mut Rng, max: usize) -> Vec<Sexp> {
    (0..rng.usize(max + 1))
        .map(|_| Sexp::list(vec![Sexp::str(*rng.pick(&KEYS)), Sexp::str(*rng.pick(&STRS))]))
        .collect()
}

fn gen_clock(rng: &mut Rng) -> Sexp {
    let n = rng.usize(4);
    let items = (0..n)
        .map(|_| if rng.chance(1, 5) { Sexp::atom("none") } else { Sexp::num(rng.below(20)) })
        .collect();
    Sexp::tagged("clock", items)
}

pub const ADAPTERS: [&str; 7] = ["rec", "ref", "fromfn", "fromemitter", "erased", "erasedss", "empty"];
pub const HOLDERS: [&str; 9] = ["direct", "ref", "some", "none", "box", "arc", "assert", "dyn", "dynss"];

/// a recorder id, half of the time behind an adapter
fn with_adapter(rng: &mut Rng, lo: u64, span: u64) -> Vec<Sexp> {
    let mut v = vec![Sexp::num(lo + rng.below(span))];
    if rng.bool() {
        v.push(Sexp::atom(*rng.pick(&ADAPTERS)));
    }
    v
}

fn gen_c05(rng: &mut Rng, tier: Tier, n: usize) -> Vec<String> {
    let max_ops = if tier == Tier::Thorough { 16 } else { 9 };
    (0..n)
        .map(|_| {
            let nb = rng.usize(max_ops);
            let mut ops = Vec::new();
            for _ in 0..nb {
                ops.push(match rng.below(9) {
                    0 | 1 | 2 => Sexp::atom("start"),
                    3 => Sexp::tagged("mdl", vec![Sexp::str(*rng.pick(&STRS))]),
                    4 => Sexp::tagged("name", vec![Sexp::str(*rng.pick(&STRS))]),
                    5 => Sexp::tagged("props", gen_kvs(rng, 2)),
                    6 => Sexp::tagged("map", gen_kvs(rng, 2)),
                    _ => Sexp::tagged("comp", with_adapter(rng, 1, 4)),
                });
            }
            ops.push(match rng.below(3) {
                0 => Sexp::atom("drop"),
                1 => Sexp::atom("complete"),
                _ => Sexp::tagged("cwith", with_adapter(rng, 5, 3)),
            });
            let mut items = vec![Sexp::bool(rng.chance(2, 3)), gen_clock(rng), Sexp::tagged("ops", ops)];
            if rng.bool() {
                items.push(Sexp::atom(*rng.pick(&HOLDERS)));
            }
            Sexp::tagged("c05", items).to_string()
        })
        .collect()
}

fn gen_c05d(rng: &mut Rng, _tier: Tier, n: usize) -> Vec<String> {
    const LV: [&str; 4] = ["debug", "info", "warn", "error"];
    (0..n)
        .map(|_| {
            let opt = |rng: &mut Rng, xs: &[&str]| if rng.bool() { Sexp::str(*rng.pick(xs)) } else { Sexp::atom("none") };
            let mut items = vec![
                Sexp::bool(rng.chance(4, 5)),
                opt(rng, &LV),
                opt(rng, &LV),
                opt(rng, &["done", "é {x}", ""]),
                gen_clock(rng),
                Sexp::tagged("ambient", gen_kvs(rng, 3)),
                Sexp::tagged("spanprops", gen_kvs(rng, 3)),
                Sexp::atom(*rng.pick(&["drop", "complete", "panic"])),
            ];
            if rng.bool() {
                items.push(Sexp::atom(*rng.pick(&["ref", "erased", "erasedss", "fromfn"])));
            }
            Sexp::tagged("c05d", items).to_string()
        })
        .collect()
}
