//! C05 — each enabled, started span completes exactly once; disabled spans never do.
//! Drives the REAL `emit::span::SpanGuard` with arbitrary operation lists (all instantiated at one concrete
//! type so any order type-checks) and the REAL `emit::span::completion::Default`.
//! Case formats: see lean/EmitModel/Driver/C05.lean.

use std::cell::RefCell;
use std::collections::VecDeque;
use std::ops::ControlFlow;
use std::rc::Rc;
use std::time::Duration;

use emit::span::{completion::Completion, Span, SpanGuard};
use emit::{Clock, Props, Str, Timestamp, Value};
use hcommon::{catch, Rng, Sexp, Stream, Tier};

pub fn streams() -> Vec<Stream> {
    vec![
        Stream { name: "c05", gen: gen_c05, run: run_c05 },
        Stream { name: "c05d", gen: gen_c05d, run: run_c05d },
    ]
}

// ------------------------------------------------------------------ test doubles

#[derive(Clone)]
struct ScriptClock(Rc<RefCell<VecDeque<Option<u64>>>>);

impl Clock for ScriptClock {
    fn now(&self) -> Option<Timestamp> {
        let r = self.0.borrow_mut().pop_front().flatten();
        r.and_then(|s| Timestamp::from_unix(Duration::from_secs(s)))
    }
}

/// An owned property list with a fixed enumeration order.
#[derive(Clone)]
struct PV(Vec<(String, String)>);

impl Props for PV {
    fn for_each<'kv, F: FnMut(Str<'kv>, Value<'kv>) -> ControlFlow<()>>(&'kv self, mut for_each: F) -> ControlFlow<()> {
        for (k, v) in &self.0 {
            for_each(Str::new_ref(k), Value::from(v.as_str()))?;
        }
        ControlFlow::Continue(())
    }
}

type CallLog = Rc<RefCell<Vec<String>>>;

fn show_props<P: Props>(p: P) -> String {
    let mut items = Vec::new();
    let _ = p.for_each(|k, v| {
        items.push(format!("({} {})", Sexp::str(k.get()), Sexp::str(&v.to_string())));
        ControlFlow::Continue(())
    });
    format!("({})", items.join(" "))
}

fn show_extent(e: Option<&emit::Extent>) -> String {
    match e.and_then(|e| e.as_range()) {
        Some(r) => format!("({} {})", r.start.to_unix().as_secs(), r.end.to_unix().as_secs()),
        None => match e {
            Some(p) => format!("(point {})", p.as_point().to_unix().as_secs()),
            None => "none".to_string(),
        },
    }
}

/// A completion that records the span it receives, tagged with its id.
#[derive(Clone)]
struct Rec(u64, CallLog);

impl Completion for Rec {
    fn complete<P: Props>(&self, span: Span<P>) {
        let line = format!(
            "({} {} {} {} {})",
            self.0,
            Sexp::str(span.mdl().to_string().as_str()),
            Sexp::str(span.name().get()),
            show_props(span.props()),
            show_extent(span.extent()),
        );
        self.1.borrow_mut().push(line);
    }
}

type G = SpanGuard<'static, ScriptClock, PV, Rec>;

fn kvs(items: &[Sexp]) -> Option<Vec<(String, String)>> {
    items
        .iter()
        .map(|kv| {
            let l = kv.as_list()?;
            if l.len() != 2 {
                return None;
            }
            Some((l[0].as_string()?, l[1].as_string()?))
        })
        .collect()
}

fn clock(items: &[Sexp]) -> Option<ScriptClock> {
    let mut q = VecDeque::new();
    for r in items {
        q.push_back(if r.as_atom()? == "none" { None } else { Some(r.as_u64()?) });
    }
    Some(ScriptClock(Rc::new(RefCell::new(q))))
}

fn run_c05(line: &str) -> String {
    (|| -> Option<String> {
        let s = Sexp::parse(line)?;
        let (tag, args) = s.as_tagged()?;
        if tag != "c05" || args.len() != 3 {
            return None;
        }
        let enabled = args[0].as_bool()?;
        let (ct, rs) = args[1].as_tagged()?;
        let (ot, ops) = args[2].as_tagged()?;
        if ct != "clock" || ot != "ops" || ops.is_empty() {
            return None;
        }
        let clk = clock(rs)?;
        let log: CallLog = Rc::new(RefCell::new(Vec::new()));
        let (guard, _frame) = SpanGuard::new(
            emit::filter::from_fn(move |_| enabled),
            emit::Empty,
            clk,
            emit::Empty,
            Rec(0, log.clone()),
            emit::Empty,
            emit::Path::new_raw("m0"),
            "n0",
            PV(vec![("p".into(), "0".into())]),
        );
        let mut g: Option<G> = Some(guard);
        let mut rets = Vec::new();
        let mut en = Vec::new();
        for (i, op) in ops.iter().enumerate() {
            let last = i + 1 == ops.len();
            let cur = g.take()?; // an op after a terminal is malformed
            let (name, a): (&str, &[Sexp]) = match op {
                Sexp::Atom(a) => (a.as_str(), &[]),
                Sexp::List(_) => op.as_tagged()?,
            };
            let is_terminal = matches!(name, "complete" | "cwith" | "drop");
            if is_terminal != last {
                return None;
            }
            match (name, a.len()) {
                ("start", 0) => {
                    let mut c = cur;
                    c.start();
                    g = Some(c);
                }
                ("mdl", 1) => g = Some(cur.with_mdl(emit::Path::new_owned_raw(a[0].as_string()?))),
                ("name", 1) => g = Some(cur.with_name(Str::new_owned(a[0].as_string()?))),
                ("props", _) => g = Some(cur.with_props(PV(kvs(a)?))),
                ("map", _) => {
                    let extra = kvs(a)?;
                    g = Some(cur.map_props(move |p: PV| {
                        let mut v = extra;
                        v.extend(p.0);
                        PV(v)
                    }))
                }
                ("comp", 1) => g = Some(cur.with_completion(Rec(a[0].as_u64()?, log.clone()))),
                ("complete", 0) => rets.push(cur.complete()),
                ("cwith", 1) => rets.push(cur.complete_with(Rec(a[0].as_u64()?, log.clone()))),
                ("drop", 0) => drop(cur),
                _ => return None,
            }
            if let Some(g) = &g {
                en.push(g.is_enabled());
            }
        }
        let calls = log.borrow().join(" ");
        let ncalls = log.borrow().len();
        let out = format!("calls=({}) rets={:?} enabled={:?}", calls, rets, en);
        // implementation-side oracle: the property evaluated on the real outputs alone
        let started = ops.iter().any(|o| o.as_atom() == Some("start"));
        let expected = if enabled && started { 1 } else { 0 };
        Some(if ncalls == expected {
            out
        } else {
            format!("{}\tFAIL:completions={}-expected={}", out, ncalls, expected)
        })
    })()
    .unwrap_or_else(|| "bad-case".into())
}

// ------------------------------------------------------------------ the default completion

#[derive(Clone)]
struct ScriptCtxt(Vec<(String, String)>);

impl emit::Ctxt for ScriptCtxt {
    type Current = PV;
    type Frame = ();
    fn open_root<P: Props>(&self, _: P) -> Self::Frame {}
    fn enter(&self, _: &mut Self::Frame) {}
    fn with_current<R, F: FnOnce(&Self::Current) -> R>(&self, with: F) -> R {
        with(&PV(self.0.clone()))
    }
    fn exit(&self, _: &mut Self::Frame) {}
    fn close(&self, _: Self::Frame) {}
}

fn opt_str(s: &Sexp) -> Option<Option<String>> {
    if s.as_atom()? == "none" {
        Some(None)
    } else {
        s.as_string().map(Some)
    }
}

fn level_of(s: &str) -> Option<emit::Level> {
    s.parse().ok()
}

fn run_c05d(line: &str) -> String {
    (|| -> Option<String> {
        let s = Sexp::parse(line)?;
        let (tag, args) = s.as_tagged()?;
        if tag != "c05d" || args.len() != 8 {
            return None;
        }
        let enabled = args[0].as_bool()?;
        let lvl = opt_str(&args[1])?;
        let plvl = opt_str(&args[2])?;
        let tpl = opt_str(&args[3])?;
        let (ct, rs) = args[4].as_tagged()?;
        let (at, amb) = args[5].as_tagged()?;
        let (st, sps) = args[6].as_tagged()?;
        if ct != "clock" || at != "ambient" || st != "spanprops" {
            return None;
        }
        let exit = args[7].as_atom()?.to_string();
        if !matches!(exit.as_str(), "drop" | "complete" | "panic") {
            return None;
        }
        let clk = clock(rs)?;
        let ambient = kvs(amb)?;
        let sprops = kvs(sps)?;
        let log: CallLog = Rc::new(RefCell::new(Vec::new()));
        let log2 = log.clone();
        let emitter = emit::emitter::from_fn(move |evt| {
            log2.borrow_mut().push(format!(
                "({} {} {} {})",
                Sexp::str(&evt.mdl().to_string()),
                Sexp::str(&evt.tpl().to_string()),
                show_extent(evt.extent()),
                show_props(evt.props())
            ));
        });
        let tpl_parts: Vec<emit::template::Part> = match &tpl {
            Some(t) => vec![emit::template::Part::text_ref(t.as_str())],
            None => vec![],
        };
        let mut completion = emit::span::completion::Default::new(emitter, ScriptCtxt(ambient));
        if let Some(l) = &lvl {
            completion = completion.with_lvl(level_of(l)?);
        }
        if let Some(l) = &plvl {
            completion = completion.with_panic_lvl(level_of(l)?);
        }
        let completion = if tpl.is_some() { completion.with_tpl(emit::Template::new_ref(&tpl_parts)) } else { completion };
        let (mut guard, _frame) = SpanGuard::new(
            emit::filter::from_fn(move |_| enabled),
            emit::Empty,
            clk,
            emit::Empty,
            &completion,
            emit::Empty,
            emit::Path::new_raw("m0"),
            "n0",
            PV(sprops),
        );
        guard.start();
        match exit.as_str() {
            "drop" => drop(guard),
            "complete" => {
                guard.complete();
            }
            _ => {
                // the guard is dropped by unwinding
                let _ = catch(move || {
                    let _g = guard;
                    panic!("scripted");
                });
            }
        }
        let out = format!("({})", log.borrow().join(" "));
        Some(out)
    })()
    .unwrap_or_else(|| "bad-case".into())
}

// ------------------------------------------------------------------ generators

const STRS: [&str; 6] = ["a", "b", "é", "", "m::n", "x y"];
const KEYS: [&str; 6] = ["p", "k", "lvl", "err", "span_name", "é"];

fn gen_kvs(rng: &mut Rng, max: usize) -> Vec<Sexp> {
    (0..rng.usize(max + 1))
        .map(|_| Sexp::list(vec![Sexp::str(*rng.pick(&KEYS)), Sexp::str(*rng.pick(&STRS))]))
        .collect()
}

fn gen_clock(rng: &mut Rng) -> Sexp {
    let n = rng.usize(4);
    let items = (0..n)
        .map(|_| if rng.chance(1, 5) { Sexp::atom("none") } else { Sexp::num(rng.below(20)) })
        .collect();
    Sexp::tagged("clock", items)
}

fn gen_c05(rng: &mut Rng, tier: Tier, n: usize) -> Vec<String> {
    let max_ops = if tier == Tier::Thorough { 16 } else { 9 };
    (0..n)
        .map(|_| {
            let nb = rng.usize(max_ops);
            let mut ops = Vec::new();
            for _ in 0..nb {
                ops.push(match rng.below(9) {
                    0 | 1 | 2 => Sexp::atom("start"),
                    3 => Sexp::tagged("mdl", vec![Sexp::str(*rng.pick(&STRS))]),
                    4 => Sexp::tagged("name", vec![Sexp::str(*rng.pick(&STRS))]),
                    5 => Sexp::tagged("props", gen_kvs(rng, 2)),
                    6 => Sexp::tagged("map", gen_kvs(rng, 2)),
                    _ => Sexp::tagged("comp", vec![Sexp::num(1 + rng.below(4))]),
                });
            }
            ops.push(match rng.below(3) {
                0 => Sexp::atom("drop"),
                1 => Sexp::atom("complete"),
                _ => Sexp::tagged("cwith", vec![Sexp::num(5 + rng.below(3))]),
            });
            Sexp::tagged("c05", vec![Sexp::bool(rng.chance(2, 3)), gen_clock(rng), Sexp::tagged("ops", ops)]).to_string()
        })
        .collect()
}

fn gen_c05d(rng: &mut Rng, _tier: Tier, n: usize) -> Vec<String> {
    const LV: [&str; 4] = ["debug", "info", "warn", "error"];
    (0..n)
        .map(|_| {
            let opt = |rng: &mut Rng, xs: &[&str]| if rng.bool() { Sexp::str(*rng.pick(xs)) } else { Sexp::atom("none") };
            Sexp::tagged(
                "c05d",
                vec![
                    Sexp::bool(rng.chance(4, 5)),
                    opt(rng, &LV),
                    opt(rng, &LV),
                    opt(rng, &["done", "é {x}", ""]),
                    gen_clock(rng),
                    Sexp::tagged("ambient", gen_kvs(rng, 3)),
                    Sexp::tagged("spanprops", gen_kvs(rng, 3)),
                    Sexp::atom(*rng.pick(&["drop", "complete", "panic"])),
                ],
            )
            .to_string()
        })
        .collect()
}
