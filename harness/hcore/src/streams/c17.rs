//! C17 — level filtering follows the most specific module rule.
//! Drives the REAL `emit::level::{MinLevelFilter, MinLevelPathMap}` and `Level::from_str`.
//!
//! case formats (see lean/EmitModel/Driver/C17.lean):
//!   (c17 (regs R…) xMDL (props (xKEY V)…))   R ::= (d MIN DFLT) | (p xPATH MIN DFLT) | (db MIN) | (pb xPATH MIN)
//!                                             (db / pb: a BARE `Level` through `From<Level> for MinLevelFilter`)
//!   (c17s (regs S…) xMDL (props …))            S ::= (d SEV SDFLT) | (p xPATH SEV SDFLT)   — `MinLevelPathMap<Sev>`
//!   (min MIN DFLT (props …))   (minb MIN (props …))   (mins SEV SDFLT (props …))          — `MinLevelFilter<Sev>`
//!   (lvl xSTR)
//! `Sev` is a user level type (0-7, smaller = more severe, so its `Ord` is the reverse of the numeric order).

use emit::{Filter, Level};
use hcommon::{Rng, Sexp, Stream, Tier};

pub fn streams() -> Vec<Stream> {
    vec![
        Stream { name: "c17", gen: gen_c17, run: run_c17 },
        Stream { name: "c17_min", gen: gen_min, run: run_min },
        Stream { name: "c17_parse", gen: gen_parse, run: run_parse },
        Stream { name: "c17_child", gen: gen_child, run: run_child },
    ]
}

// ------------------------------------------------------------------ parsing cases

fn level(s: &Sexp) -> Option<Level> {
    Some(match s.as_atom()? {
        "debug" => Level::Debug,
        "info" => Level::Info,
        "warn" => Level::Warn,
        "error" => Level::Error,
        _ => return None,
    })
}

fn opt_level(s: &Sexp) -> Option<Option<Level>> {
    if s.as_atom()? == "none" {
        Some(None)
    } else {
        level(s).map(Some)
    }
}

fn min_filter(mn: &Sexp, df: &Sexp) -> Option<emit::level::MinLevelFilter> {
    let mut f = emit::level::min_filter(level(mn)?);
    if let Some(d) = opt_level(df)? {
        f = f.treat_unleveled_as(d);
    }
    Some(f)
}

/// A registration's filter as the caller writes it: a built `MinLevelFilter`, or a bare `Level` that the
/// map's `impl Into<MinLevelFilter>` parameter converts (`From<Level> for MinLevelFilter`, src/level.rs:231).
enum MinArg {
    Filter(emit::level::MinLevelFilter),
    Bare(Level),
}

/// For the bulk constructor `min_by_path_filter`, whose items all have one type `L: Into<MinLevelFilter>`: the
/// bare side goes through the library's own conversion.
impl From<MinArg> for emit::level::MinLevelFilter {
    fn from(a: MinArg) -> Self {
        match a {
            MinArg::Filter(f) => f,
            MinArg::Bare(l) => l.into(),
        }
    }
}

// ------------------------------------------------------------------ a user level type

/// Syslog-style severity: 0 (emergency) … 7 (debug); SMALLER is MORE severe, so `a >= b` holds when `a` is
/// numerically at most `b`. Read from integer values only; the default severity is 6.
#[derive(Debug, Clone, Copy, PartialEq, Eq)]
struct Sev(u8);

impl Ord for Sev {
    fn cmp(&self, other: &Self) -> std::cmp::Ordering {
        other.0.cmp(&self.0)
    }
}
impl PartialOrd for Sev {
    fn partial_cmp(&self, other: &Self) -> Option<std::cmp::Ordering> {
        Some(self.cmp(other))
    }
}
impl Default for Sev {
    fn default() -> Self {
        Sev(6)
    }
}
impl<'v> emit::value::FromValue<'v> for Sev {
    fn from_value(value: emit::Value<'v>) -> Option<Self> {
        let i = value.cast::<i64>()?;
        (0..=7).contains(&i).then(|| Sev(i as u8))
    }
}

fn sev(s: &Sexp) -> Option<Sev> {
    let n = s.as_u64()?;
    (n <= 7).then(|| Sev(n as u8))
}

fn sev_filter(mn: &Sexp, df: &Sexp) -> Option<emit::level::MinLevelFilter<Sev>> {
    let f = emit::level::MinLevelFilter::new(sev(mn)?);
    Some(if df.as_atom() == Some("none") { f } else { f.treat_unleveled_as(sev(df)?) })
}

enum Val {
    Typed(Level),
    Text(String),
    Int(i64),
    Bool(bool),
    /// a typed `Level` that went through `Value::to_owned()` (no longer downcastable: formatted, then parsed)
    OwnedTyped(Level),
    /// a `Display`-only value with the given text (`Value::capture_display` of a non-Level type)
    Display(String),
    /// a string value that went through `to_owned()` (not a borrowed str any more)
    OwnedText(String),
}

struct Shown(String);
impl std::fmt::Display for Shown {
    fn fmt(&self, f: &mut std::fmt::Formatter) -> std::fmt::Result {
        f.write_str(&self.0)
    }
}

fn props(s: &Sexp) -> Option<Vec<(String, Val)>> {
    let (tag, items) = s.as_tagged()?;
    if tag != "props" {
        return None;
    }
    let mut out = Vec::new();
    for it in items {
        let kv = it.as_list()?;
        if kv.len() != 2 {
            return None;
        }
        let k = kv[0].as_string()?;
        let (t, a) = kv[1].as_tagged()?;
        if a.len() != 1 {
            return None;
        }
        let v = match t {
            "typed" => Val::Typed(level(&a[0])?),
            "text" => Val::Text(a[0].as_string()?),
            "int" => Val::Int(a[0].as_i64()?),
            "bool" => Val::Bool(a[0].as_bool()?),
            "otyped" => Val::OwnedTyped(level(&a[0])?),
            "display" => Val::Display(a[0].as_string()?),
            "otext" => Val::OwnedText(a[0].as_string()?),
            _ => return None,
        };
        out.push((k, v));
    }
    Some(out)
}

fn with_event<R>(mdl: &str, props: &[(String, Val)], f: impl FnOnce(emit::Event<&[(&str, emit::Value)]>) -> R) -> R {
    // owned / display values need storage that outlives the event
    let shown: Vec<Option<Shown>> = props.iter().map(|(_, v)| match v { Val::Display(s) => Some(Shown(s.clone())), _ => None }).collect();
    let owned: Vec<Option<emit::value::OwnedValue>> = props
        .iter()
        .map(|(_, v)| match v {
            Val::OwnedTyped(l) => Some(emit::Value::capture_display(l).to_owned()),
            Val::OwnedText(s) => Some(emit::Value::from(s.as_str()).to_owned()),
            _ => None,
        })
        .collect();
    let vals: Vec<(&str, emit::Value)> = props
        .iter()
        .enumerate()
        .map(|(i, (k, v))| {
            (
                k.as_str(),
                match v {
                    Val::Typed(l) => emit::Value::capture_display(l),
                    Val::Text(s) => emit::Value::from(s.as_str()),
                    Val::Int(i) => emit::Value::from(*i),
                    Val::Bool(b) => emit::Value::from(*b),
                    Val::OwnedTyped(_) | Val::OwnedText(_) => owned[i].as_ref().unwrap().by_ref(),
                    Val::Display(_) => emit::Value::capture_display(shown[i].as_ref().unwrap()),
                },
            )
        })
        .collect();
    let evt = emit::Event::new(
        emit::Path::new_ref_raw(mdl),
        emit::Template::literal("c17"),
        emit::Empty,
        &vals[..],
    );
    f(evt)
}

fn run_c17(line: &str) -> String {
    (|| -> Option<String> {
        let s = Sexp::parse(line)?;
        let (tag, args) = s.as_tagged()?;
        if tag == "c17s" {
            return run_c17s(args);
        }
        if tag != "c17" || args.len() != 3 {
            return None;
        }
        let (rt, regs) = args[0].as_tagged()?;
        if rt != "regs" {
            return None;
        }
        let mdl = args[1].as_string()?;
        let ps = props(&args[2])?;
        let mut map = emit::level::MinLevelPathMap::new();
        // second construction path: the bulk constructor `min_by_path_filter` / `FromIterator` (the default
        // minimum is the root of the trie, so when it is set relative to the paths is immaterial)
        let mut bulk: Vec<(emit::Path<'static>, MinArg)> = Vec::new();
        let mut last_default = None;
        for r in regs {
            let (t, a) = r.as_tagged()?;
            match (t, a.len()) {
                ("d", 2) => {
                    map.default_min_level(min_filter(&a[0], &a[1])?);
                    last_default = Some(MinArg::Filter(min_filter(&a[0], &a[1])?));
                }
                ("p", 3) => {
                    let path = a[0].as_string()?;
                    map.min_level(emit::Path::new_owned_raw(path.clone()), min_filter(&a[1], &a[2])?);
                    bulk.push((emit::Path::new_owned_raw(path), MinArg::Filter(min_filter(&a[1], &a[2])?)));
                }
                // a bare `Level`: `impl Into<MinLevelFilter>` → `From<Level> for MinLevelFilter`
                ("db", 1) => {
                    map.default_min_level(level(&a[0])?);
                    last_default = Some(MinArg::Bare(level(&a[0])?));
                }
                ("pb", 2) => {
                    let path = a[0].as_string()?;
                    map.min_level(emit::Path::new_owned_raw(path.clone()), level(&a[1])?);
                    bulk.push((emit::Path::new_owned_raw(path), MinArg::Bare(level(&a[1])?)));
                }
                _ => return None,
            }
        }
        // when every registration is bare, the bulk constructor is also called at `L = Level` itself
        let all_bare: Option<Vec<(emit::Path<'static>, Level)>> =
            bulk.iter().map(|(p, a)| if let MinArg::Bare(l) = a { Some((p.clone(), *l)) } else { None }).collect();
        let map3 = all_bare.filter(|_| last_default.is_none()).map(emit::level::min_by_path_filter);
        let mut map2 = emit::level::min_by_path_filter(bulk);
        if let Some(d) = last_default {
            map2.default_min_level(d);
        }
        let r = with_event(&mdl, &ps, |evt| map.matches(&evt));
        let rb = with_event(&mdl, &ps, |evt| map2.matches(&evt));
        if rb != r {
            return Some(format!("{}\tFAIL:min_by_path_filter-differs-from-min_level-calls({})", r, rb));
        }
        if let Some(map3) = map3 {
            let rc = with_event(&mdl, &ps, |evt| map3.matches(&evt));
            if rc != r {
                return Some(format!("{}\tFAIL:min_by_path_filter-of-bare-levels-differs({})", r, rc));
            }
        }
        // the type-erased path must agree with the generic one (C01 clause, observed here for free)
        let erased: &dyn emit::filter::ErasedFilter = &map;
        let r2 = with_event(&mdl, &ps, |evt| erased.matches(&evt));
        // the same properties as a concatenation (`first.and_props(rest)`, what macro events joined with ambient
        // context look like), through the generic path: the level is still the FIRST `lvl`, parseable or not
        let r3 = with_event(&mdl, &ps, |evt| matches_split(&map, evt));
        if r3 != r {
            return Some(format!("{}\tFAIL:and_props-split-differs({})", r, r3));
        }
        if let Some(r4) = with_event(&mdl, &ps, |evt| matches_btree(&map, evt)) {
            if r4 != r {
                return Some(format!("{}\tFAIL:btreemap-props-differ({})", r, r4));
            }
        }
        Some(if r == r2 { format!("{}", r) } else { format!("{}\tFAIL:erased-path-differs({})", r, r2) })
    })()
    .unwrap_or_else(|| "bad-case".into())
}

/// evaluate `f` on the event with its properties as a `BTreeMap<Str, Value>` (looked up through `Borrow<str>`, so by
/// `str`'s ordering); only when no key repeats (a map keeps one value per key)
fn matches_btree<F: emit::Filter>(f: &F, evt: emit::Event<&[(&str, emit::Value)]>) -> Option<bool> {
    let all: &[(&str, emit::Value)] = *evt.props();
    let mut m: std::collections::BTreeMap<emit::Str, emit::Value> = Default::default();
    for (k, v) in all {
        if m.insert(emit::Str::new_ref(k), v.by_ref()).is_some() {
            return None;
        }
    }
    Some(f.matches(&evt.map_props(|_| &m)))
}

/// evaluate `f` on the event with its property slice re-expressed as `first.and_props(rest)`
fn matches_split<F: emit::Filter>(f: &F, evt: emit::Event<&[(&str, emit::Value)]>) -> bool {
    use emit::Props;
    let all: &[(&str, emit::Value)] = *evt.props();
    if all.len() < 2 {
        return f.matches(&evt);
    }
    let (a, b) = all.split_at(1);
    f.matches(&evt.map_props(|_| a.and_props(b)))
}

/// `(c17s (regs S…) xMDL (props …))`: `MinLevelPathMap<Sev>` built by `min_level` / `default_min_level` calls and,
/// a second time, by `FromIterator`.
fn run_c17s(args: &[Sexp]) -> Option<String> {
    if args.len() != 3 {
        return None;
    }
    let (rt, regs) = args[0].as_tagged()?;
    if rt != "regs" {
        return None;
    }
    let mdl = args[1].as_string()?;
    let ps = props(&args[2])?;
    let mut map = emit::level::MinLevelPathMap::<Sev>::new();
    let mut bulk: Vec<(emit::Path<'static>, emit::level::MinLevelFilter<Sev>)> = Vec::new();
    let mut last_default = None;
    for r in regs {
        let (t, a) = r.as_tagged()?;
        match (t, a.len()) {
            ("d", 2) => {
                map.default_min_level(sev_filter(&a[0], &a[1])?);
                last_default = Some(sev_filter(&a[0], &a[1])?);
            }
            ("p", 3) => {
                let path = a[0].as_string()?;
                map.min_level(emit::Path::new_owned_raw(path.clone()), sev_filter(&a[1], &a[2])?);
                bulk.push((emit::Path::new_owned_raw(path), sev_filter(&a[1], &a[2])?));
            }
            _ => return None,
        }
    }
    let mut map2: emit::level::MinLevelPathMap<Sev> = bulk.into_iter().collect();
    if let Some(d) = last_default {
        map2.default_min_level(d);
    }
    let r = with_event(&mdl, &ps, |evt| map.matches(&evt));
    let rb = with_event(&mdl, &ps, |evt| map2.matches(&evt));
    let erased: &dyn emit::filter::ErasedFilter = &map;
    let r2 = with_event(&mdl, &ps, |evt| erased.matches(&evt));
    Some(if rb != r {
        format!("{}\tFAIL:from_iter-differs-from-min_level-calls({})", r, rb)
    } else if r2 != r {
        format!("{}\tFAIL:erased-path-differs({})", r, r2)
    } else {
        format!("{}", r)
    })
}

fn run_min(line: &str) -> String {
    (|| -> Option<String> {
        let s = Sexp::parse(line)?;
        let (tag, args) = s.as_tagged()?;
        match (tag, args.len()) {
            ("min", 3) => {
                let f = min_filter(&args[0], &args[1])?;
                let ps = props(&args[2])?;
                let r = with_event("m", &ps, |evt| f.matches(&evt));
                let r3 = with_event("m", &ps, |evt| matches_split(&f, evt));
                Some(if r == r3 { format!("{}", r) } else { format!("{}\tFAIL:and_props-split-differs({})", r, r3) })
            }
            // a bare level converted by `From<Level> for MinLevelFilter`
            ("minb", 2) => {
                let f: emit::level::MinLevelFilter = level(&args[0])?.into();
                let ps = props(&args[1])?;
                Some(format!("{}", with_event("m", &ps, |evt| f.matches(&evt))))
            }
            // the user level type
            ("mins", 3) => {
                let f = sev_filter(&args[0], &args[1])?;
                let ps = props(&args[2])?;
                Some(format!("{}", with_event("m", &ps, |evt| f.matches(&evt))))
            }
            _ => None,
        }
    })()
    .unwrap_or_else(|| "bad-case".into())
}

fn show_level(l: Option<Level>) -> &'static str {
    match l {
        None => "none",
        Some(Level::Debug) => "debug",
        Some(Level::Info) => "info",
        Some(Level::Warn) => "warn",
        Some(Level::Error) => "error",
    }
}

fn run_parse(line: &str) -> String {
    (|| -> Option<String> {
        let s = Sexp::parse(line)?;
        let (tag, args) = s.as_tagged()?;
        if tag != "lvl" || args.len() != 1 {
            return None;
        }
        let text = args[0].as_string()?;
        let a = text.parse::<Level>().ok();
        let b = Level::try_from_str(&text).ok();
        // cast of a text value must agree with parsing its text (C15 clause)
        let c = emit::Value::from(text.as_str()).cast::<Level>();
        // … and so must the cast of a value that only DISPLAYS as that text (captured with Display, borrowed and owned),
        // and a pull of it
        struct D<'a>(&'a str);
        impl<'a> std::fmt::Display for D<'a> {
            fn fmt(&self, f: &mut std::fmt::Formatter) -> std::fmt::Result {
                f.write_str(self.0)
            }
        }
        let d = D(&text);
        let dv = emit::Value::from_display(&d);
        let others = [
            dv.by_ref().cast::<Level>(),
            dv.to_owned().by_ref().cast::<Level>(),
            {
                use emit::Props;
                [("lvl", dv.by_ref())].pull::<Level, _>("lvl")
            },
        ];
        let out = show_level(a);
        Some(if a == b && a == c && others.iter().all(|o| *o == a) {
            out.to_string()
        } else {
            format!(
                "{}\tFAIL:entry-points-differ({},{},{})",
                out,
                show_level(b),
                show_level(c),
                others.iter().map(|o| show_level(*o)).collect::<Vec<_>>().join(",")
            )
        })
    })()
    .unwrap_or_else(|| "bad-case".into())
}

// ------------------------------------------------------------------ generators

const LEVELS: [&str; 4] = ["debug", "info", "warn", "error"];
const SEGS: [&str; 13] = ["a", "aa", "b", "ab", "a_b", "A", "é", "z9", "aaa", "ba", "a1", "a0", "b2"];

fn gen_level_text(rng: &mut Rng) -> String {
    const WORDS: [&str; 6] = ["information", "debug", "dbg", "error", "warning", "wrn"];
    // (the last: trailing data that takes the text well past 64 bytes — a level with a long explanation attached)
    const TAILS: [&str; 13] = [
        "", "", "", "1", "(4)", " ", "-x", "\u{7f}", "\u{1}", "é", "\u{a0}", "_",
        " (severity number 13; mapped from the upstream collector's numbering, see the operations handbook)",
    ];
    const PADS: [&str; 8] = ["", "", "", " ", "\t", "\u{a0}", "\u{2003}", "\n "];
    match rng.below(12) {
        // texts that also read as a number (`"inf".parse::<f64>()` is infinity): a level all the same
        10 => rng.pick(&["inf", "INF", "Inf", "iNf", "nan", "NaN", "infinity", "1e1", "e", "E", "1", "0", "-0", "+inf", "-inf", "in", "inf "]).to_string(),
        0 => {
            // arbitrary short junk
            let n = rng.usize(5);
            (0..n).map(|_| *rng.pick(&['i', 'I', 'n', 'f', 'o', 'w', 'x', ' ', '3', 'é', '\u{0}', 'd', 'e', 'r', 'b', 'g'])).collect()
        }
        _ => {
            let w = *rng.pick(&WORDS);
            let keep = 1 + rng.usize(w.len());
            let mut s: String = w[..keep]
                .chars()
                .map(|c| if rng.bool() { c.to_ascii_uppercase() } else { c })
                .collect();
            if rng.chance(1, 6) {
                // corrupt one letter or extend beyond the word
                if rng.bool() && !s.is_empty() {
                    let i = rng.usize(s.len());
                    s.replace_range(i..i + 1, *rng.pick(&["x", "o", "n", "r"]));
                } else {
                    s.push_str(*rng.pick(&["s", "x", "ing", "n"]));
                }
            }
            format!("{}{}{}{}", rng.pick(&PADS), s, rng.pick(&TAILS), rng.pick(&PADS))
        }
    }
}

fn gen_props(rng: &mut Rng) -> Sexp {
    let n = rng.usize(4);
    let mut items = Vec::new();
    for _ in 0..n {
        let key = *rng.pick(&["lvl", "lvl", "lvl", "a", "LVL", "lv", "", "op", "z", "lvl2"]);
        let v = match rng.below(8) {
            0 | 1 | 2 => Sexp::tagged("typed", vec![Sexp::atom(*rng.pick(&LEVELS))]),
            3 | 4 | 5 => Sexp::tagged("text", vec![Sexp::str(&gen_level_text(rng))]),
            6 => match rng.below(4) {
                0 => Sexp::tagged("int", vec![Sexp::num(rng.range(0, 40) as i64 - 5)]),
                1 => Sexp::tagged("otyped", vec![Sexp::atom(*rng.pick(&LEVELS))]),
                2 => Sexp::tagged("display", vec![Sexp::str(&gen_level_text(rng))]),
                _ => Sexp::tagged("otext", vec![Sexp::str(&gen_level_text(rng))]),
            },
            _ => Sexp::tagged("bool", vec![Sexp::bool(rng.bool())]),
        };
        items.push(Sexp::list(vec![Sexp::str(key), v]));
    }
    Sexp::tagged("props", items)
}

/// props for the user level type: mostly integers around the valid range 0-7, some values it cannot read
fn gen_props_sev(rng: &mut Rng) -> Sexp {
    let n = rng.usize(4);
    let mut items = Vec::new();
    for _ in 0..n {
        let key = *rng.pick(&["lvl", "lvl", "lvl", "a", "LVL", ""]);
        let v = match rng.below(8) {
            0..=4 => Sexp::tagged("int", vec![Sexp::num(rng.range(0, 11) as i64 - 2)]),
            5 => Sexp::tagged("typed", vec![Sexp::atom(*rng.pick(&LEVELS))]),
            6 => Sexp::tagged("text", vec![Sexp::str(*rng.pick(&["3", "0", "warn", "", " 5"]))]),
            _ => Sexp::tagged("bool", vec![Sexp::bool(rng.bool())]),
        };
        items.push(Sexp::list(vec![Sexp::str(key), v]));
    }
    Sexp::tagged("props", items)
}

fn gen_sevf(rng: &mut Rng) -> (Sexp, Sexp) {
    let df = if rng.chance(1, 3) { Sexp::num(rng.below(8)) } else { Sexp::atom("none") };
    (Sexp::num(rng.below(8)), df)
}

fn gen_minf(rng: &mut Rng) -> (Sexp, Sexp) {
    let mn = Sexp::atom(*rng.pick(&LEVELS));
    let df = if rng.chance(1, 3) { Sexp::atom(*rng.pick(&LEVELS)) } else { Sexp::atom("none") };
    (mn, df)
}

fn gen_path(rng: &mut Rng, max_depth: usize) -> Vec<&'static str> {
    let d = 1 + rng.usize(max_depth);
    (0..d).map(|_| *rng.pick(&SEGS)).collect()
}

fn gen_c17(rng: &mut Rng, tier: Tier, n: usize) -> Vec<String> {
    let max_regs = if tier == Tier::Thorough { 14 } else { 8 };
    let mut out = Vec::with_capacity(n);
    for _ in 0..n {
        let nregs = rng.usize(max_regs + 1);
        let mut paths: Vec<Vec<&str>> = Vec::new();
        let mut regs = Vec::new();
        // one case in 8 runs the maps at the user level type, one in 8 with bare levels only
        let (sev, bare_only) = match rng.below(8) {
            0 => (true, false),
            1 => (false, true),
            _ => (false, false),
        };
        if rng.chance(1, 12) {
            // a WIDE node: 9–13 distinct children of one parent (possibly the root) registered in random order, so
            // that whatever keeps a node's children searchable has to cope with more than a handful
            let parent: Vec<&str> = if rng.bool() { Vec::new() } else { gen_path(rng, 2) };
            let mut kids: Vec<&str> = SEGS.to_vec();
            for i in (1..kids.len()).rev() {
                kids.swap(i, rng.usize(i + 1));
            }
            kids.truncate(9 + rng.usize(5));
            for k in kids {
                let mut p = parent.clone();
                p.push(k);
                let (mn, df) = if sev { gen_sevf(rng) } else { gen_minf(rng) };
                regs.push(Sexp::tagged("p", vec![Sexp::str(&p.join("::")), mn, df]));
                paths.push(p);
            }
        }
        for _ in 0..nregs {
            let (mn, df) = if sev { gen_sevf(rng) } else { gen_minf(rng) };
            let bare = !sev && (bare_only || rng.chance(1, 5));
            if rng.chance(1, 8) {
                regs.push(if bare { Sexp::tagged("db", vec![mn]) } else { Sexp::tagged("d", vec![mn, df]) });
                continue;
            }
            // mostly: extend / repeat / sibling of an existing path, so tries get deep and shared
            let p = if !paths.is_empty() && rng.chance(2, 3) {
                let mut base = rng.pick(&paths).clone();
                match rng.below(4) {
                    0 => {}                                   // re-registration
                    1 => base.push(*rng.pick(&SEGS)),         // child
                    2 => { base.pop(); base.push(*rng.pick(&SEGS)); } // sibling
                    _ => { if base.len() > 1 { base.pop(); } } // parent
                }
                base
            } else {
                gen_path(rng, 4)
            };
            paths.push(p.clone());
            regs.push(if bare {
                Sexp::tagged("pb", vec![Sexp::str(&p.join("::")), mn])
            } else {
                Sexp::tagged("p", vec![Sexp::str(&p.join("::")), mn, df])
            });
        }
        let mdl = if !paths.is_empty() && rng.chance(4, 5) {
            let mut base = rng.pick(&paths).clone();
            match rng.below(6) {
                0 => {}
                1 => base.push(*rng.pick(&SEGS)),
                2 => { base.push(*rng.pick(&SEGS)); base.push(*rng.pick(&SEGS)); }
                3 => { base.pop(); base.push(*rng.pick(&SEGS)); }
                4 => { if base.len() > 1 { base.pop(); } }
                _ => { let i = rng.usize(base.len()); base[i] = *rng.pick(&SEGS); }
            }
            base
        } else {
            gen_path(rng, 5)
        };
        let case = Sexp::tagged(
            if sev { "c17s" } else { "c17" },
            vec![Sexp::tagged("regs", regs), Sexp::str(&mdl.join("::")), if sev { gen_props_sev(rng) } else { gen_props(rng) }],
        );
        out.push(case.to_string());
    }
    out
}

fn gen_min(rng: &mut Rng, _tier: Tier, n: usize) -> Vec<String> {
    (0..n)
        .map(|_| match rng.below(6) {
            0 => Sexp::tagged("minb", vec![gen_minf(rng).0, gen_props(rng)]).to_string(),
            1 => {
                let (mn, df) = gen_sevf(rng);
                Sexp::tagged("mins", vec![mn, df, gen_props_sev(rng)]).to_string()
            }
            _ => {
                let (mn, df) = gen_minf(rng);
                Sexp::tagged("min", vec![mn, df, gen_props(rng)]).to_string()
            }
        })
        .collect()
}

fn gen_parse(rng: &mut Rng, _tier: Tier, n: usize) -> Vec<String> {
    let mut out = Vec::new();
    // every level's own Display output and common spellings first
    for w in ["debug", "info", "warn", "error", "INFO", "Information", "WRN", "DBG", "", " ", "i", "informationx", "info13", "INFO(4)", "inf", "INF", "Inf", "nan", "infinity", "1e1", "e", "E", "d", "w", "1", "0"] {
        out.push(Sexp::tagged("lvl", vec![Sexp::str(w)]).to_string());
    }
    while out.len() < n {
        out.push(Sexp::tagged("lvl", vec![Sexp::str(&gen_level_text(rng))]).to_string());
    }
    out
}

// ------------------------------------------------------------------ Path::is_child_of and Path::segments

fn run_child(line: &str) -> String {
    (|| -> Option<String> {
        let s = Sexp::parse(line)?;
        let (tag, args) = s.as_tagged()?;
        if tag != "child" || args.len() != 2 {
            return None;
        }
        let (a, b) = (args[0].as_string()?, args[1].as_string()?);
        let (pa, pb) = (emit::Path::new_ref_raw(&a), emit::Path::new_ref_raw(&b));
        let segs = |p: &emit::Path| p.segments().map(|s| Sexp::str(s.get()).to_string()).collect::<Vec<_>>().join(" ");
        Some(format!("{} ({}) ({})", pa.is_child_of(&pb), segs(&pa), segs(&pb)))
    })()
    .unwrap_or_else(|| "bad-case".into())
}

fn gen_child(rng: &mut Rng, _tier: Tier, n: usize) -> Vec<String> {
    (0..n)
        .map(|_| {
            let p = gen_path(rng, 3);
            let mut c = p.clone();
            match rng.below(7) {
                0 => {}
                1 => c.push(*rng.pick(&SEGS)),
                2 => { c.pop(); c.push(*rng.pick(&SEGS)); }
                3 => { if c.len() > 1 { c.pop(); } }
                4 => c = gen_path(rng, 4),
                _ => { c.push(*rng.pick(&SEGS)); c.push(*rng.pick(&SEGS)); }
            }
            let (mut a, mut b) = (c.join("::"), p.join("::"));
            // malformed texts too: stray colons, empty segments, multi-byte boundaries
            if rng.chance(1, 6) {
                let junk = *rng.pick(&[":", "::", ":::", "é", ""]);
                if rng.bool() { a.push_str(junk) } else { b.push_str(junk) }
            }
            Sexp::tagged("child", vec![Sexp::str(&a), Sexp::str(&b)]).to_string()
        })
        .collect()
}
