//! C03 — ambient context is a per-thread stack; frames leave no trace once exited.
//! Drives the REAL `emit::Frame::{push, root, disabled, current}` × `{enter, with, EnterGuard::with, call, in_fn,
//! in_future}` over the REAL `ThreadLocalCtxt` (two `new()` instances + `shared()`), as the concrete type, as
//! `Arc<dyn ErasedCtxt + Send + Sync>` (inline erased frames), through a wide-frame wrapper (boxed erased frames) and
//! as `Option<ThreadLocalCtxt>` (`Some` and `None`), through every forwarding wrapper, through
//! `emit_traceparent::TraceparentCtxt<ThreadLocalCtxt>` (variant `tp`) and through a user `Ctxt` that implements only the
//! REQUIRED trait methods, so that the trait-default `Ctxt::open_push` / `open_disabled` run (`defpush`, `defpushdyn`).
//! `(new .. reent)` pushes a `Props` value whose enumeration calls `ctxt.with_current` (re-entrancy); `(parts F)` takes
//! a frame apart with `Frame::into_parts` and rebuilds it with `Frame::from_parts` (+ `inner`, `inner_mut`).
//!
//! A case is a tree program (format: lean/EmitModel/Driver/C03.lean). It is executed by three ACTOR THREADS: exactly
//! one of them runs at any time (a thread that hands work to another actor waits for its reply, serving requests
//! addressed to itself meanwhile), so the run is deterministic while every frame operation happens on the thread the
//! case says. Futures are real `async` blocks wrapped by the real `FrameFuture`, polled by hand in the scripted order
//! on the scripted threads; `(yield)` is a hand-written future that returns `Pending` once; `(panic)` is a real panic
//! unwinding through the real guards up to the nearest `catch_unwind`.
//!
//! Output: the sorted property map seen by `with_current` / `Frame::with` / `EnterGuard::with` at every `obs`.
//! Oracles (no model): `Props::get` agrees with `for_each`, no duplicate keys, and after the program every context
//! is empty again on every actor thread.

use emit::platform::thread_local_ctxt::{ThreadLocalCtxt, ThreadLocalCtxtFrame};
use emit::{Ctxt, Frame, Props};
use emit_core::ctxt::ErasedCtxt;
use hcommon::{Rng, Sexp, Stream, Tier};
use std::cell::{Cell, RefCell};
use std::collections::HashMap;
use std::future::Future;
use std::ops::ControlFlow;
use std::panic::{catch_unwind, AssertUnwindSafe};
use std::pin::Pin;
use std::sync::atomic::{AtomicBool, Ordering};
use std::sync::mpsc::{channel, Receiver, Sender};
use std::sync::{Arc, Mutex};
use std::task::{Context, Poll, Waker};

pub fn streams() -> Vec<Stream> {
    vec![Stream { name: "c03", gen: gen_c03, run: run_c03 }]
}

// ------------------------------------------------------------------ the case language

#[derive(Clone, Debug)]
pub enum Val {
    I(i64),
    S(String),
}

#[derive(Clone, Copy, Debug)]
pub enum Kind {
    Push,
    Root,
    Disabled,
    Current,
}

#[derive(Clone, Copy, Debug)]
enum Mode {
    Enter,
    With,
    GWith,
    Call,
    InFn(usize),
}

type PropList = Vec<(String, Val)>;

enum P {
    Obs(usize),
    New { f: u64, c: usize, kind: Kind, props: PropList, reent: bool },
    Use { f: u64, mode: Mode, body: Arc<Vec<P>> },
    On(usize, Arc<Vec<P>>),
    Catch(Arc<Vec<P>>),
    Panic,
    Drop(u64),
    Parts(u64),
    Tasks(Vec<Arc<Vec<A>>>, Vec<(usize, usize)>),
}

enum A {
    Sync(Arc<Vec<P>>),
    Yield,
    AFrame { c: usize, kind: Kind, props: PropList, body: Arc<Vec<A>> },
    AUse(u64, Arc<Vec<A>>),
}

pub const NTHREADS: usize = 3;
pub const NCTXTS: usize = 3;

pub fn parse_kind(s: &Sexp) -> Option<Kind> {
    Some(match s.as_atom()? {
        "push" => Kind::Push,
        "root" => Kind::Root,
        "disabled" => Kind::Disabled,
        "current" => Kind::Current,
        _ => return None,
    })
}

fn parse_mode(s: &Sexp) -> Option<Mode> {
    if let Some(a) = s.as_atom() {
        return Some(match a {
            "enter" => Mode::Enter,
            "with" => Mode::With,
            "gwith" => Mode::GWith,
            "call" => Mode::Call,
            _ => return None,
        });
    }
    let (tag, args) = s.as_tagged()?;
    if tag == "infn" && args.len() == 1 {
        return Some(Mode::InFn(thread(&args[0])?));
    }
    None
}

fn thread(s: &Sexp) -> Option<usize> {
    let t = s.as_usize()?;
    if t < NTHREADS {
        Some(t)
    } else {
        None
    }
}

fn ctxt_ix(s: &Sexp) -> Option<usize> {
    let c = s.as_usize()?;
    if c < NCTXTS {
        Some(c)
    } else {
        None
    }
}

pub fn parse_props(s: &Sexp) -> Option<PropList> {
    let (tag, items) = s.as_tagged()?;
    if tag != "props" {
        return None;
    }
    let mut out = Vec::new();
    for it in items {
        let kv = it.as_list()?;
        if kv.len() != 2 {
            return None;
        }
        let k = kv[0].as_string()?;
        let (t, a) = kv[1].as_tagged()?;
        if a.len() != 1 {
            return None;
        }
        let v = match t {
            "i" => Val::I(a[0].as_i64()?),
            "s" => Val::S(a[0].as_string()?),
            _ => return None,
        };
        out.push((k, v));
    }
    Some(out)
}

fn parse_list<T>(xs: &[Sexp], f: fn(&Sexp) -> Option<T>) -> Option<Arc<Vec<T>>> {
    xs.iter().map(f).collect::<Option<Vec<T>>>().map(Arc::new)
}

fn parse_p(s: &Sexp) -> Option<P> {
    let (tag, a) = s.as_tagged()?;
    Some(match (tag, a.len()) {
        ("obs", 1) => P::Obs(ctxt_ix(&a[0])?),
        ("new", 4) => P::New { f: a[0].as_u64()?, c: ctxt_ix(&a[1])?, kind: parse_kind(&a[2])?, props: parse_props(&a[3])?, reent: false },
        ("new", 5) if a[4].as_atom() == Some("reent") => {
            let kind = parse_kind(&a[2])?;
            // a disabled / current frame never enumerates its props on most ctxts: nothing to compare
            if !matches!(kind, Kind::Push | Kind::Root) {
                return None;
            }
            P::New { f: a[0].as_u64()?, c: ctxt_ix(&a[1])?, kind, props: parse_props(&a[3])?, reent: true }
        }
        ("use", n) if n >= 2 => P::Use { f: a[0].as_u64()?, mode: parse_mode(&a[1])?, body: parse_list(&a[2..], parse_p)? },
        ("on", n) if n >= 1 => P::On(thread(&a[0])?, parse_list(&a[1..], parse_p)?),
        ("catch", _) => P::Catch(parse_list(a, parse_p)?),
        ("panic", 0) => P::Panic,
        ("drop", 1) => P::Drop(a[0].as_u64()?),
        ("parts", 1) => P::Parts(a[0].as_u64()?),
        ("tasks", 2) => {
            let mut ts = Vec::new();
            for t in a[0].as_list()? {
                let (tt, items) = t.as_tagged()?;
                if tt != "task" {
                    return None;
                }
                ts.push(parse_list(items, parse_a)?);
            }
            let (st, entries) = a[1].as_tagged()?;
            if st != "sched" {
                return None;
            }
            let mut sched = Vec::new();
            for e in entries {
                let e = e.as_list()?;
                if e.len() != 2 {
                    return None;
                }
                sched.push((e[0].as_usize()?, thread(&e[1])?));
            }
            P::Tasks(ts, sched)
        }
        _ => return None,
    })
}

fn parse_a(s: &Sexp) -> Option<A> {
    let (tag, a) = s.as_tagged()?;
    Some(match (tag, a.len()) {
        ("sync", _) => A::Sync(parse_list(a, parse_p)?),
        ("yield", 0) => A::Yield,
        ("aframe", n) if n >= 4 => {
            a[0].as_u64()?; // the handle number only matters to the model
            A::AFrame { c: ctxt_ix(&a[1])?, kind: parse_kind(&a[2])?, props: parse_props(&a[3])?, body: parse_list(&a[4..], parse_a)? }
        }
        ("ause", n) if n >= 1 => A::AUse(a[0].as_u64()?, parse_list(&a[1..], parse_a)?),
        _ => return None,
    })
}

// ------------------------------------------------------------------ actors

type Job = Box<dyn FnOnce() + Send>;

pub enum Msg {
    Run(Job, usize),
    Done(bool),
    Stop,
}

thread_local! {
    static ME: Cell<usize> = const { Cell::new(usize::MAX) };
    static INBOX: RefCell<Option<Receiver<Msg>>> = const { RefCell::new(None) };
}

/// The actor pool of one case: `n` actor threads plus the calling thread as coordinator (index `n`).
pub struct Actors {
    outboxes: Vec<Mutex<Sender<Msg>>>,
}

impl Actors {
    fn send(&self, to: usize, m: Msg) {
        self.outboxes[to].lock().unwrap().send(m).unwrap();
    }

    /// Run `job` on actor `t` and wait for it; a panic over there is re-raised here. While waiting, this
    /// thread serves jobs addressed to it (so a thread blocked inside a frame can still be asked to run code).
    pub fn hop(self: &Arc<Self>, t: usize, job: Job) {
        let me = ME.with(|m| m.get());
        if t == me {
            job();
            return;
        }
        self.send(t, Msg::Run(job, me));
        if !self.serve() {
            panic!("remote panic");
        }
    }

    /// Serve requests until a `Done` (→ its flag) or `Stop` (→ true) arrives.
    fn serve(self: &Arc<Self>) -> bool {
        loop {
            let msg = INBOX.with(|r| r.borrow().as_ref().expect("inbox").recv().expect("recv"));
            match msg {
                Msg::Run(job, from) => {
                    let ok = catch_unwind(AssertUnwindSafe(job)).is_ok();
                    self.send(from, Msg::Done(ok));
                }
                Msg::Done(ok) => return ok,
                Msg::Stop => return true,
            }
        }
    }

    /// Spawn `n` actors, run `top` on actor 0 (returns whether it finished without panicking), then run
    /// `finally(t)` on every actor, stop and join them.
    pub fn run_case(n: usize, top: impl FnOnce(Arc<Actors>) -> Job, finally: impl Fn(usize) -> Job) -> bool {
        let mut outboxes = Vec::new();
        let mut inboxes = Vec::new();
        for _ in 0..=n {
            let (tx, rx) = channel::<Msg>();
            outboxes.push(Mutex::new(tx));
            inboxes.push(rx);
        }
        let actors = Arc::new(Actors { outboxes });
        let coord_rx = inboxes.pop().unwrap();
        let old_me = ME.with(|m| m.replace(n));
        let old_inbox = INBOX.with(|r| r.borrow_mut().replace(coord_rx));
        let mut handles = Vec::new();
        for (i, rx) in inboxes.into_iter().enumerate() {
            let actors = actors.clone();
            handles.push(std::thread::spawn(move || {
                ME.with(|m| m.set(i));
                INBOX.with(|r| *r.borrow_mut() = Some(rx));
                actors.serve();
            }));
        }
        let job = top(actors.clone());
        let ok = catch_unwind(AssertUnwindSafe(|| actors.hop(0, job))).is_ok();
        for t in 0..n {
            let j = finally(t);
            let _ = catch_unwind(AssertUnwindSafe(|| actors.hop(t, j)));
        }
        for t in 0..n {
            actors.send(t, Msg::Stop);
        }
        for h in handles {
            let _ = h.join();
        }
        ME.with(|m| m.set(old_me));
        INBOX.with(|r| *r.borrow_mut() = old_inbox);
        ok
    }
}

/// A future that returns `Pending` once.
pub struct YieldOnce(pub bool);

impl Future for YieldOnce {
    type Output = ();
    fn poll(mut self: Pin<&mut Self>, _: &mut Context<'_>) -> Poll<()> {
        if self.0 {
            Poll::Ready(())
        } else {
            self.0 = true;
            Poll::Pending
        }
    }
}

pub type BoxFut = Pin<Box<dyn Future<Output = ()> + Send>>;

// ------------------------------------------------------------------ the interpreter over the real API

struct World<C: Ctxt> {
    ctxts: Vec<C>,
    frames: Mutex<HashMap<u64, Frame<C>>>,
    log: Mutex<Vec<String>>,
    fails: Mutex<Vec<String>>,
    bad: AtomicBool,
    actors: Arc<Actors>,
}

trait Cx: PeekCx + Clone + Send + Sync + 'static
where
    Self::Frame: Send + 'static,
{
}
impl<C: PeekCx + Clone + Send + Sync + 'static> Cx for C where C::Frame: Send + 'static {}

/// What a raw `Ctxt::Frame` that is not entered holds, where the frame type lets one look (`None`: opaque).
pub trait PeekCx: Ctxt {
    fn peek(frame: &Self::Frame) -> Option<String>;
}
impl PeekCx for ThreadLocalCtxt {
    fn peek(frame: &Self::Frame) -> Option<String> {
        Some(render_props(frame, &mut Vec::new()))
    }
}
impl PeekCx for Minimal {
    fn peek(frame: &Self::Frame) -> Option<String> {
        Some(render_props(frame, &mut Vec::new()))
    }
}
impl PeekCx for Wide {
    fn peek(frame: &Self::Frame) -> Option<String> {
        Some(render_props(&frame.0, &mut Vec::new()))
    }
}
impl<C: PeekCx> PeekCx for Option<C> {
    fn peek(frame: &Self::Frame) -> Option<String> {
        match frame {
            Some(f) => C::peek(f),
            None => Some("none".into()),
        }
    }
}
impl<'a, C: PeekCx + ?Sized> PeekCx for &'a C {
    fn peek(frame: &Self::Frame) -> Option<String> {
        C::peek(frame)
    }
}
impl<C: PeekCx + ?Sized> PeekCx for Box<C> {
    fn peek(frame: &Self::Frame) -> Option<String> {
        C::peek(frame)
    }
}
impl<C: PeekCx + ?Sized> PeekCx for Arc<C> {
    fn peek(frame: &Self::Frame) -> Option<String> {
        C::peek(frame)
    }
}
impl<C: PeekCx> PeekCx for emit::runtime::AssertInternal<C> {
    fn peek(frame: &Self::Frame) -> Option<String> {
        C::peek(frame)
    }
}
impl PeekCx for dyn ErasedCtxt + Send + Sync {
    fn peek(_: &Self::Frame) -> Option<String> {
        None
    }
}
impl<C: Ctxt> PeekCx for emit_traceparent::TraceparentCtxt<C> {
    fn peek(_: &Self::Frame) -> Option<String> {
        None
    }
}

/// A `Props` value whose enumeration RE-ENTERS the context it is being pushed onto: every `for_each` first calls
/// `ctxt.with_current`. The first view seen is recorded as an observation (how often `open_*` enumerates its props
/// is the ctxt's business); every later one must equal it.
struct Reentrant<'a, C: Cx, Q: Props>
where
    C::Frame: Send + 'static,
{
    w: &'a World<C>,
    ctxt: &'a C,
    inner: Q,
    seen: RefCell<Option<String>>,
}

impl<'a, C: Cx, Q: Props> Props for Reentrant<'a, C, Q>
where
    C::Frame: Send + 'static,
{
    fn for_each<'kv, F: FnMut(emit::Str<'kv>, emit::Value<'kv>) -> ControlFlow<()>>(&'kv self, for_each: F) -> ControlFlow<()> {
        let mut fails = Vec::new();
        let line = self.ctxt.with_current(|cur| render_props(cur, &mut fails));
        let first = self.seen.borrow().clone();
        match first {
            None => {
                *self.seen.borrow_mut() = Some(line.clone());
                self.w.log.lock().unwrap().push(line);
            }
            Some(first) if first != line => fails.push(format!("reentrant-view-changed({}->{})", first, line)),
            Some(_) => {}
        }
        if !fails.is_empty() {
            self.w.fails.lock().unwrap().extend(fails);
        }
        self.inner.for_each(for_each)
    }
}

pub fn render_value(v: &emit::Value) -> String {
    if let Some(s) = v.to_cow_str() {
        format!("s{}", hcommon::hex_atom(s.as_bytes()))
    } else if let Some(i) = v.by_ref().cast::<i64>() {
        format!("i{}", i)
    } else {
        format!("?{}", hcommon::hex_atom(v.to_string().as_bytes()))
    }
}

/// Canonical rendering of a `Props`: sorted by key. Returns oracle complaints too.
pub fn render_props<Q: Props + ?Sized>(cur: &Q, fails: &mut Vec<String>) -> String {
    let mut items: Vec<(String, String)> = Vec::new();
    let _ = cur.for_each(|k, v| {
        items.push((k.get().to_string(), render_value(&v)));
        ControlFlow::Continue(())
    });
    items.sort();
    for w in items.windows(2) {
        if w[0].0 == w[1].0 {
            fails.push(format!("duplicate-key({})", w[0].0));
        }
    }
    for (k, v) in &items {
        match cur.get(k.as_str()) {
            Some(g) if render_value(&g) == *v => {}
            other => fails.push(format!("get-differs({},{:?})", k, other.map(|g| render_value(&g)))),
        }
    }
    let body: Vec<String> = items.iter().map(|(k, v)| format!("{}={}", hcommon::hex_atom(k.as_bytes()), v)).collect();
    format!("{{{}}}", body.join(","))
}

impl<C: Cx> World<C>
where
    C::Frame: Send + 'static,
{
    fn observe_props<Q: Props + ?Sized>(&self, cur: &Q) {
        let mut fails = Vec::new();
        let line = render_props(cur, &mut fails);
        self.log.lock().unwrap().push(line);
        if !fails.is_empty() {
            self.fails.lock().unwrap().extend(fails);
        }
    }

    fn set_bad(&self) {
        self.bad.store(true, Ordering::SeqCst);
    }

    fn take(&self, f: u64) -> Option<Frame<C>> {
        let r = self.frames.lock().unwrap().remove(&f);
        if r.is_none() {
            self.set_bad();
        }
        r
    }

    fn make_frame(&self, c: usize, kind: Kind, props: &PropList, reent: bool) -> Frame<C> {
        let ctxt = self.ctxts[c].clone();
        let vals: Vec<(&str, emit::Value)> = props
            .iter()
            .map(|(k, v)| {
                (
                    k.as_str(),
                    match v {
                        Val::I(i) => emit::Value::from(*i),
                        Val::S(s) => emit::Value::from(s.as_str()),
                    },
                )
            })
            .collect();
        if reent {
            let re = Reentrant { w: self, ctxt: &self.ctxts[c], inner: &vals[..], seen: RefCell::new(None) };
            return match kind {
                Kind::Push => Frame::push(ctxt, &re),
                Kind::Root => Frame::root(ctxt, &re),
                Kind::Disabled => Frame::disabled(ctxt, &re),
                Kind::Current => Frame::current(ctxt),
            };
        }
        // different `Props` containers for the same pairs: tuple, array, slice
        macro_rules! open {
            ($ctor:path) => {
                match vals.len() {
                    1 => $ctor(ctxt, (vals[0].0, vals[0].1.by_ref())),
                    2 => $ctor(ctxt, [(vals[0].0, vals[0].1.by_ref()), (vals[1].0, vals[1].1.by_ref())]),
                    _ => $ctor(ctxt, &vals[..]),
                }
            };
        }
        match kind {
            Kind::Push => open!(Frame::push),
            Kind::Root => open!(Frame::root),
            Kind::Disabled => open!(Frame::disabled),
            Kind::Current => Frame::current(ctxt),
        }
    }
}

/// Puts a borrowed frame back into the table when the scope ends — also while unwinding.
struct Restore<'w, C: Cx>
where
    C::Frame: Send + 'static,
{
    w: &'w World<C>,
    f: u64,
    frame: Option<Frame<C>>,
}

impl<'w, C: Cx> Drop for Restore<'w, C>
where
    C::Frame: Send + 'static,
{
    fn drop(&mut self) {
        if let Some(fr) = self.frame.take() {
            self.w.frames.lock().unwrap().insert(self.f, fr);
        }
    }
}

fn run_list<C: Cx>(w: &Arc<World<C>>, ps: &Arc<Vec<P>>)
where
    C::Frame: Send + 'static,
{
    for p in ps.iter() {
        run_p(w, p);
    }
}

fn run_p<C: Cx>(w: &Arc<World<C>>, p: &P)
where
    C::Frame: Send + 'static,
{
    match p {
        P::Obs(c) => w.ctxts[*c].with_current(|cur| w.observe_props(cur)),
        P::New { f, c, kind, props, reent } => {
            let frame = w.make_frame(*c, *kind, props, *reent);
            if w.frames.lock().unwrap().insert(*f, frame).is_some() {
                w.set_bad();
            }
        }
        P::Use { f, mode, body } => {
            let Some(frame) = w.take(*f) else { return };
            match mode {
                Mode::Enter => {
                    let mut slot = Restore { w: &**w, f: *f, frame: Some(frame) };
                    let _guard = slot.frame.as_mut().unwrap().enter();
                    run_list(w, body);
                }
                Mode::With => {
                    let mut slot = Restore { w: &**w, f: *f, frame: Some(frame) };
                    slot.frame.as_mut().unwrap().with(|cur| {
                        w.observe_props(cur);
                        run_list(w, body);
                    });
                }
                Mode::GWith => {
                    let mut slot = Restore { w: &**w, f: *f, frame: Some(frame) };
                    let mut guard = slot.frame.as_mut().unwrap().enter();
                    guard.with(|cur| w.observe_props(cur));
                    run_list(w, body);
                    drop(guard);
                }
                Mode::Call => frame.call(|| run_list(w, body)),
                Mode::InFn(t) => {
                    let (w2, body2) = (w.clone(), body.clone());
                    let f = frame.in_fn(move || run_list(&w2, &body2));
                    w.actors.hop(*t, Box::new(f));
                }
            }
        }
        P::On(t, body) => {
            let (w2, body2) = (w.clone(), body.clone());
            w.actors.hop(*t, Box::new(move || run_list(&w2, &body2)));
        }
        P::Catch(body) => {
            let _ = catch_unwind(AssertUnwindSafe(|| run_list(w, body)));
        }
        P::Panic => panic!("scripted panic"),
        P::Drop(f) => drop(w.take(*f)),
        P::Parts(f) => {
            let Some(mut frame) = w.take(*f) else { return };
            // what the frame holds, seen through `inner` / `inner_mut`, the raw parts, and the rebuilt frame
            let before = C::peek(frame.inner());
            let before_mut = C::peek(frame.inner_mut());
            let (ctxt, raw) = frame.into_parts();
            let apart = C::peek(&raw);
            let mut frame = Frame::from_parts(ctxt, raw);
            let after = C::peek(frame.inner_mut());
            let after_ref = C::peek(frame.inner());
            if [&before_mut, &apart, &after, &after_ref].iter().any(|x| **x != before) {
                w.fails.lock().unwrap().push(format!("parts-differ({:?},{:?},{:?},{:?},{:?})", before, before_mut, apart, after, after_ref));
            }
            w.frames.lock().unwrap().insert(*f, frame);
        }
        P::Tasks(ts, sched) => {
            let futs: Arc<Mutex<Vec<Option<BoxFut>>>> =
                Arc::new(Mutex::new(ts.iter().map(|t| Some(run_async(w.clone(), t.clone()))).collect()));
            for (i, t) in sched {
                let (futs, i) = (futs.clone(), *i);
                w.actors.hop(
                    *t,
                    Box::new(move || {
                        let fut = futs.lock().unwrap().get_mut(i).and_then(|f| f.take());
                        if let Some(mut fut) = fut {
                            let mut cx = Context::from_waker(Waker::noop());
                            let r = catch_unwind(AssertUnwindSafe(|| fut.as_mut().poll(&mut cx)));
                            if let Ok(Poll::Pending) = r {
                                futs.lock().unwrap()[i] = Some(fut);
                            }
                        }
                    }),
                );
            }
        }
    }
}

fn run_async<C: Cx>(w: Arc<World<C>>, items: Arc<Vec<A>>) -> BoxFut
where
    C::Frame: Send + 'static,
{
    Box::pin(async move {
        for a in items.iter() {
            match a {
                A::Sync(ps) => run_list(&w, ps),
                A::Yield => YieldOnce(false).await,
                A::AFrame { c, kind, props, body } => {
                    let frame = w.make_frame(*c, *kind, props, false);
                    frame.in_future(run_async(w.clone(), body.clone())).await
                }
                A::AUse(f, body) => {
                    if let Some(frame) = w.take(*f) {
                        frame.in_future(run_async(w.clone(), body.clone())).await
                    }
                }
            }
        }
    })
}

fn run_with<C: Cx>(ctxts: Vec<C>, prog: Arc<Vec<P>>) -> String
where
    C::Frame: Send + 'static,
{
    let world: Arc<Mutex<Option<Arc<World<C>>>>> = Arc::new(Mutex::new(None));
    let world2 = world.clone();
    Actors::run_case(
        NTHREADS,
        move |actors| {
            let w = Arc::new(World {
                ctxts,
                frames: Mutex::new(HashMap::new()),
                log: Mutex::new(Vec::new()),
                fails: Mutex::new(Vec::new()),
                bad: AtomicBool::new(false),
                actors,
            });
            *world2.lock().unwrap() = Some(w.clone());
            Box::new(move || run_list(&w, &prog))
        },
        |t| {
            // oracle: once the program is over nothing is left in any context on any actor thread
            let w = world.lock().unwrap().clone().unwrap();
            Box::new(move || {
                for (c, ctxt) in w.ctxts.iter().enumerate() {
                    let mut n = 0;
                    ctxt.with_current(|cur| {
                        let _ = cur.for_each(|_, _| {
                            n += 1;
                            ControlFlow::Continue(())
                        });
                    });
                    if n != 0 {
                        w.fails.lock().unwrap().push(format!("trace-left(thread={},ctxt={},n={})", t, c, n));
                    }
                }
            })
        },
    );
    let w = world.lock().unwrap().take().unwrap();
    // frames still alive are closed here, on the coordinator
    w.frames.lock().unwrap().clear();
    if w.bad.load(Ordering::SeqCst) {
        return "bad-case".into();
    }
    let out = w.log.lock().unwrap().join(";");
    let mut fails = w.fails.lock().unwrap().clone();
    fails.extend(marker_probe().iter().map(|m| m.to_string()));
    if fails.is_empty() {
        out
    } else {
        format!("{}\tFAIL:{}", out, fails.join("|"))
    }
}

/// What the model ASSUMES of the types, observed at run time: an `EnterGuard` cannot be sent to another thread (so
/// "leaving a frame" — the guard's drop — always runs on the thread that entered it; the LTS has no label for an exit
/// on a different thread than the enter), while a `Frame` over a `Send` frame CAN be moved (`moved_frame_carries_view`).
/// The probe resolves to the inherent method exactly when the bound holds, so it compiles either way.
fn marker_probe() -> Vec<&'static str> {
    use emit::platform::thread_local_ctxt::ThreadLocalCtxt;
    struct Probe<T: ?Sized>(std::marker::PhantomData<T>);
    impl<T: ?Sized + Send> Probe<T> {
        fn is_send(&self) -> bool {
            true
        }
    }
    impl<T: ?Sized + Sync> Probe<T> {
        fn is_sync(&self) -> bool {
            true
        }
    }
    trait Fallback {
        fn is_send(&self) -> bool {
            false
        }
        fn is_sync(&self) -> bool {
            false
        }
    }
    impl<T: ?Sized> Fallback for Probe<T> {}
    let mut out = Vec::new();
    if Probe::<emit::frame::EnterGuard<'static, ThreadLocalCtxt>>(std::marker::PhantomData).is_send() {
        out.push("enter-guard-is-Send(exit-may-run-on-another-thread)");
    }
    if Probe::<emit::frame::EnterGuard<'static, &'static ThreadLocalCtxt>>(std::marker::PhantomData).is_send() {
        out.push("enter-guard-is-Send(exit-may-run-on-another-thread)");
    }
    if !Probe::<emit::Frame<ThreadLocalCtxt>>(std::marker::PhantomData).is_send() {
        out.push("frame-is-not-Send(cannot-be-moved-to-another-thread)");
    }
    if !Probe::<ThreadLocalCtxt>(std::marker::PhantomData).is_sync() {
        out.push("thread-local-ctxt-is-not-Sync");
    }
    out
}

/// A `Ctxt` whose frames are too big for `ErasedFrame`'s inline storage (so `dyn ErasedCtxt` boxes them); everything
/// is forwarded to the real `ThreadLocalCtxt`.
#[derive(Clone, Copy)]
pub struct Wide(pub ThreadLocalCtxt);

const PAD: [usize; 4] = [0xA5A5, 1, 2, 3];

impl Ctxt for Wide {
    type Current = ThreadLocalCtxtFrame;
    type Frame = (ThreadLocalCtxtFrame, [usize; 4]);

    fn open_root<Q: Props>(&self, props: Q) -> Self::Frame {
        (self.0.open_root(props), PAD)
    }
    fn open_push<Q: Props>(&self, props: Q) -> Self::Frame {
        (self.0.open_push(props), PAD)
    }
    fn open_disabled<Q: Props>(&self, props: Q) -> Self::Frame {
        (self.0.open_disabled(props), PAD)
    }
    // `enter` and `exit` are NOT interchangeable for this context (unlike `ThreadLocalCtxt`, whose two are the same
    // swap): the frame records whether it is entered, and every call checks that it is the one that is due
    fn enter(&self, frame: &mut Self::Frame) {
        assert_eq!(frame.1, PAD, "enter on a frame that is already entered (or corrupt)");
        frame.1[1] = ENTERED;
        self.0.enter(&mut frame.0)
    }
    fn with_current<R, F: FnOnce(&Self::Current) -> R>(&self, with: F) -> R {
        self.0.with_current(with)
    }
    fn exit(&self, frame: &mut Self::Frame) {
        assert_eq!(frame.1, [PAD[0], ENTERED, PAD[2], PAD[3]], "exit on a frame that is not entered");
        frame.1[1] = PAD[1];
        self.0.exit(&mut frame.0)
    }
    fn close(&self, frame: Self::Frame) {
        assert_eq!(frame.1, PAD, "close on a frame that is still entered");
        self.0.close(frame.0)
    }
}

const ENTERED: usize = 0xE17E;

/// A user `Ctxt` that implements only the REQUIRED methods (each delegating to the real `ThreadLocalCtxt`): `open_push`
/// and `open_disabled` are the trait defaults of core/src/ctxt.rs:39-52.
#[derive(Clone, Copy)]
pub struct Minimal(pub ThreadLocalCtxt);

impl Ctxt for Minimal {
    type Current = ThreadLocalCtxtFrame;
    type Frame = ThreadLocalCtxtFrame;

    fn open_root<Q: Props>(&self, props: Q) -> Self::Frame {
        self.0.open_root(props)
    }
    fn enter(&self, frame: &mut Self::Frame) {
        self.0.enter(frame)
    }
    fn with_current<R, F: FnOnce(&Self::Current) -> R>(&self, with: F) -> R {
        self.0.with_current(with)
    }
    fn exit(&self, frame: &mut Self::Frame) {
        self.0.exit(frame)
    }
    fn close(&self, frame: Self::Frame) {
        self.0.close(frame)
    }
}

type Dyn = Arc<dyn ErasedCtxt + Send + Sync>;
type DynRef = &'static (dyn ErasedCtxt + Send + Sync);

/// The erased ctxts of three ambient slots (`emit::setup().with_ctxt(..).init_slot(&slot)`, then
/// `slot.get().ctxt()`), initialised once per process: `shared()`, a `new()` instance and `emit::setup()`'s own default context.
fn slot_ctxts() -> Vec<DynRef> {
    use emit::runtime::AmbientSlot;
    static SLOTS: [AmbientSlot; 3] = [AmbientSlot::new(), AmbientSlot::new(), AmbientSlot::new()];
    static INIT: std::sync::Once = std::sync::Once::new();
    INIT.call_once(|| {
        let _ = emit::setup().with_ctxt(ThreadLocalCtxt::shared()).init_slot(&SLOTS[0]);
        let _ = emit::setup().with_ctxt(ThreadLocalCtxt::new()).init_slot(&SLOTS[1]);
        // the default context of `emit::setup()` itself
        let _ = emit::setup().init_slot(&SLOTS[2]);
    });
    SLOTS.iter().map(|s| *s.get().ctxt()).collect()
}

fn leak<T>(v: T) -> &'static T {
    Box::leak(Box::new(v))
}

/// the wrapper / variant names a case line may carry
pub const VARIANTS: [&str; 17] = [
    "concrete", "erased", "boxed", "option", "assert", "assertdyn", "ref", "box", "arc", "boxdyn", "slot", "assertarc", "tp", "defpush",
    "defpushdyn", "optnone", "assertwide",
];

fn has_span_id(ps: &[P]) -> bool {
    fn in_a(a: &[A]) -> bool {
        a.iter().any(|a| match a {
            A::Sync(ps) => has_span_id(ps),
            A::Yield => false,
            A::AFrame { props, body, .. } => props.iter().any(|(k, _)| k == "span_id") || in_a(body),
            A::AUse(_, body) => in_a(body),
        })
    }
    ps.iter().any(|p| match p {
        P::New { props, .. } => props.iter().any(|(k, _)| k == "span_id"),
        P::Use { body, .. } | P::On(_, body) | P::Catch(body) => has_span_id(body),
        P::Tasks(ts, _) => ts.iter().any(|t| in_a(t)),
        _ => false,
    })
}

fn run_c03(line: &str) -> String {
    (|| -> Option<String> {
        let s = Sexp::parse(line)?;
        let (tag, args) = s.as_tagged()?;
        if tag != "c03" || args.len() != 2 {
            return None;
        }
        let prog = parse_list(args[1].as_list()?, parse_p)?;
        // the three public constructors: `shared()` (the one process-wide instance), `new()`, `Default::default()`
        // (what `emit::setup()` builds) — the latter two must be fresh instances, isolated from each other and from shared
        // … wherever they were created: each of the two fresh instances is made on a thread of its own (as the first
        // context of that thread) and then used here, next to the other one — `ThreadLocalCtxt` is `Send + Copy`
        let base = [
            ThreadLocalCtxt::shared(),
            std::thread::spawn(ThreadLocalCtxt::new).join().ok()?,
            std::thread::spawn(ThreadLocalCtxt::default).join().ok()?,
        ];
        Some(match args[0].as_atom()? {
            "concrete" => run_with::<ThreadLocalCtxt>(base.to_vec(), prog),
            "erased" => run_with::<Dyn>(base.iter().map(|c| Arc::new(*c) as Dyn).collect(), prog),
            "boxed" => run_with::<Dyn>(base.iter().map(|c| Arc::new(Wide(*c)) as Dyn).collect(), prog),
            "option" => run_with::<Option<ThreadLocalCtxt>>(base.iter().map(|c| Some(*c)).collect(), prog),
            // the forwarding wrappers: every one must be transparent
            "assert" => run_with::<&'static emit::runtime::AssertInternal<ThreadLocalCtxt>>(
                base.iter().map(|c| leak(emit::runtime::AssertInternal(*c))).collect(),
                prog,
            ),
            "assertdyn" => run_with::<Dyn>(base.iter().map(|c| Arc::new(emit::runtime::AssertInternal(*c)) as Dyn).collect(), prog),
            // … around a context whose `enter` and `exit` are not interchangeable
            "assertwide" => run_with::<&'static emit::runtime::AssertInternal<Wide>>(
                base.iter().map(|c| leak(emit::runtime::AssertInternal(Wide(*c)))).collect(),
                prog,
            ),
            "assertarc" => run_with::<Arc<emit::runtime::AssertInternal<Arc<ThreadLocalCtxt>>>>(
                base.iter().map(|c| Arc::new(emit::runtime::AssertInternal(Arc::new(*c)))).collect(),
                prog,
            ),
            "ref" => run_with::<&'static ThreadLocalCtxt>(base.iter().map(|c| leak(*c)).collect(), prog),
            "box" => run_with::<Box<ThreadLocalCtxt>>(base.iter().map(|c| Box::new(*c)).collect(), prog),
            "arc" => run_with::<Arc<ThreadLocalCtxt>>(base.iter().map(|c| Arc::new(*c)).collect(), prog),
            "boxdyn" => run_with::<&'static Box<dyn ErasedCtxt + Send + Sync>>(
                base.iter().map(|c| leak(Box::new(*c) as Box<dyn ErasedCtxt + Send + Sync>)).collect(),
                prog,
            ),
            "slot" => run_with::<DynRef>(slot_ctxts(), prog),
            // `TraceparentCtxt` claims `span_id` (it opens a traceparent for it): outside "ordinary props"
            "tp" if has_span_id(&prog) => return None,
            "tp" => run_with::<emit_traceparent::TraceparentCtxt<ThreadLocalCtxt>>(
                base.iter().map(|c| emit_traceparent::TraceparentCtxt::new(*c)).collect(),
                prog,
            ),
            // the trait-default `open_push` / `open_disabled`
            "defpush" => run_with::<Minimal>(base.iter().map(|c| Minimal(*c)).collect(), prog),
            "defpushdyn" => run_with::<Dyn>(base.iter().map(|c| Arc::new(Minimal(*c)) as Dyn).collect(), prog),
            // `Option::None`: every frame operation is a no-op, the view is always empty
            "optnone" => run_with::<Option<ThreadLocalCtxt>>(vec![None, None, None], prog),
            _ => return None,
        })
    })()
    .unwrap_or_else(|| "bad-case".into())
}

// ------------------------------------------------------------------ generator

const KEYS: [&str; 7] = ["a", "b", "c", "k", "trace_id", "span_id", "é"];

pub fn gen_props(rng: &mut Rng, max: usize, no_span_id: bool) -> Sexp {
    let n = rng.usize(max + 1);
    let mut keys: Vec<&str> = KEYS.iter().copied().filter(|k| !(no_span_id && *k == "span_id")).collect();
    let mut items = Vec::new();
    for _ in 0..n {
        let k = keys.remove(rng.usize(keys.len()));
        let v = if rng.chance(2, 3) {
            Sexp::tagged("i", vec![Sexp::num(rng.range(0, 9))])
        } else {
            Sexp::tagged("s", vec![Sexp::str(*rng.pick(&["", "x", "yy", "é"]))])
        };
        items.push(Sexp::list(vec![Sexp::str(k), v]));
    }
    Sexp::tagged("props", items)
}

struct Gen<'a> {
    rng: &'a mut Rng,
    next_f: u64,
    budget: i64,
    max_depth: usize,
    nthreads: u64,
    /// the variant is `tp`: the key `span_id` is not an ordinary property there
    no_span_id: bool,
}

/// a frame handle in scope: (handle, its context)
type Idle = Vec<(u64, u64)>;

impl<'a> Gen<'a> {
    fn kind(&mut self) -> &'static str {
        *self.rng.pick(&["push", "push", "push", "root", "disabled", "current"])
    }
    fn ctxt(&mut self) -> u64 {
        // mostly one context so frames interact; the others for isolation
        if self.rng.chance(2, 3) {
            1
        } else {
            self.rng.below(NCTXTS as u64)
        }
    }
    /// the context an observation looks at: mostly the one of the innermost frame
    fn obs(&mut self, focus: u64) -> Sexp {
        let c = if self.rng.chance(3, 4) { focus } else { self.ctxt() };
        Sexp::tagged("obs", vec![Sexp::num(c)])
    }
    fn thread(&mut self) -> u64 {
        self.rng.below(self.nthreads)
    }
    fn fresh(&mut self) -> u64 {
        self.next_f += 1;
        self.next_f
    }
    fn new_frame(&mut self, f: u64, c: u64) -> Sexp {
        let kind = self.kind();
        let mut items = vec![Sexp::num(f), Sexp::num(c), Sexp::atom(kind), gen_props(self.rng, 3, self.no_span_id)];
        // a props value that looks at the context while `open_*` enumerates it
        if matches!(kind, "push" | "root") && self.rng.chance(1, 6) {
            items.push(Sexp::atom("reent"));
        }
        Sexp::tagged("new", items)
    }

    /// A frame made on this thread is carried to a worker whose FIRST touch of the context is entering it; the worker
    /// then looks at the context after the frame was left, pushes a frame of its own there, and looks again.
    fn first_touch(&mut self, idle: &mut Idle) -> Vec<Sexp> {
        let c = self.ctxt();
        let (f, g) = (self.fresh(), self.fresh());
        let t = 1 + self.rng.below(2);
        let mode = if self.rng.bool() { Sexp::atom("enter") } else { Sexp::atom("with") };
        let mut out = vec![self.new_frame(f, c)];
        let mut on = vec![Sexp::num(t), Sexp::tagged("use", vec![Sexp::num(f), mode, Sexp::tagged("obs", vec![Sexp::num(c)])]), Sexp::tagged("obs", vec![Sexp::num(c)])];
        on.push(self.new_frame(g, c));
        on.push(Sexp::tagged("use", vec![Sexp::num(g), Sexp::atom("enter"), Sexp::tagged("obs", vec![Sexp::num(c)])]));
        on.push(Sexp::tagged("obs", vec![Sexp::num(c)]));
        out.push(Sexp::tagged("on", on));
        out.push(Sexp::tagged("obs", vec![Sexp::num(c)]));
        idle.push((f, c));
        idle.push((g, c));
        self.budget -= 6;
        out
    }
    fn mode(&mut self) -> (Sexp, bool) {
        match self.rng.below(8) {
            0 | 1 | 2 => (Sexp::atom("enter"), false),
            3 => (Sexp::atom("with"), false),
            4 => (Sexp::atom("gwith"), false),
            5 => (Sexp::atom("call"), true),
            _ => (Sexp::tagged("infn", vec![Sexp::num(self.thread())]), true),
        }
    }

    /// A block of items; `idle` = frame handles in scope that are opened and not entered; `focus` = the context of
    /// the innermost entered frame. Returns (items, panics).
    fn block(&mut self, depth: usize, idle: &mut Idle, in_catch: bool, focus: u64) -> (Vec<Sexp>, bool) {
        let mut out = Vec::new();
        let n = 1 + self.rng.usize(4);
        for _ in 0..n {
            if self.budget <= 0 {
                break;
            }
            self.budget -= 1;
            let deep = depth < self.max_depth;
            match self.rng.below(20) {
                0..=4 => out.push(self.obs(focus)),
                5 | 6 => {
                    let f = self.fresh();
                    let c = self.ctxt();
                    out.push(self.new_frame(f, c));
                    idle.push((f, c));
                }
                7..=10 if deep => {
                    // create and use at once
                    let f = self.fresh();
                    let c = self.ctxt();
                    out.push(self.new_frame(f, c));
                    let (m, consumes) = self.mode();
                    let (mut body, p) = self.block(depth + 1, idle, in_catch, c);
                    if !p && self.rng.chance(1, 2) {
                        body.push(self.obs(c));
                    }
                    out.push(Sexp::tagged("use", [vec![Sexp::num(f), m], body].concat()));
                    if !consumes {
                        idle.push((f, c));
                    }
                    if p {
                        return (out, true);
                    }
                }
                11..=13 if deep && !idle.is_empty() => {
                    // (re-)use an existing frame, possibly created in another ambient state / on another thread
                    let (f, c) = idle.remove(self.rng.usize(idle.len()));
                    let (m, consumes) = self.mode();
                    let (mut body, p) = self.block(depth + 1, idle, in_catch, c);
                    if !p && self.rng.chance(1, 2) {
                        body.push(self.obs(c));
                    }
                    out.push(Sexp::tagged("use", [vec![Sexp::num(f), m], body].concat()));
                    if !consumes {
                        idle.push((f, c));
                    }
                    if p {
                        return (out, true);
                    }
                }
                14 | 15 if deep && self.nthreads > 1 => {
                    let t = self.thread();
                    let (body, p) = self.block(depth + 1, idle, in_catch, focus);
                    out.push(Sexp::tagged("on", [vec![Sexp::num(t)], body].concat()));
                    if p {
                        return (out, true);
                    }
                }
                16 if deep => {
                    let (body, _) = self.block(depth + 1, idle, true, focus);
                    out.push(Sexp::tagged("catch", body));
                }
                17 if in_catch || self.rng.chance(1, 6) => {
                    out.push(Sexp::tagged("panic", vec![]));
                    return (out, true);
                }
                18 if !idle.is_empty() && self.rng.chance(1, 3) => {
                    let (f, _) = idle.remove(self.rng.usize(idle.len()));
                    out.push(Sexp::tagged("drop", vec![Sexp::num(f)]));
                }
                // taken apart and rebuilt: stays usable
                18 if !idle.is_empty() => {
                    let (f, _) = idle[self.rng.usize(idle.len())];
                    out.push(Sexp::tagged("parts", vec![Sexp::num(f)]));
                }
                19 if deep => out.push(self.tasks(depth + 1, idle)),
                _ => out.push(self.obs(focus)),
            }
        }
        (out, false)
    }

    /// An async body; returns (items, number of polls it needs to finish if nothing panics).
    fn abody(&mut self, depth: usize, mine: &mut Idle, focus: u64) -> (Vec<Sexp>, usize) {
        let mut out = Vec::new();
        let mut polls = 0;
        let n = 1 + self.rng.usize(3);
        for _ in 0..n {
            if self.budget <= 0 {
                break;
            }
            self.budget -= 1;
            match self.rng.below(10) {
                0..=2 => {
                    // frames opened inside a task stay inside this sync block
                    let mut local = mine.clone();
                    let (body, p) = self.block(depth + 1, &mut local, false, focus);
                    // handles consumed inside are gone for good
                    mine.retain(|f| local.contains(f));
                    out.push(Sexp::tagged("sync", body));
                    if p {
                        return (out, polls); // the task dies here
                    }
                }
                3..=5 => {
                    out.push(Sexp::tagged("yield", vec![]));
                    polls += 1;
                }
                6..=8 if depth < self.max_depth => {
                    let f = self.fresh();
                    let c = self.ctxt();
                    let (body, p) = self.abody(depth + 1, mine, c);
                    polls += p;
                    out.push(Sexp::tagged(
                        "aframe",
                        [vec![Sexp::num(f), Sexp::num(c), Sexp::atom(self.kind()), gen_props(self.rng, 3, self.no_span_id)], body].concat(),
                    ));
                }
                9 if depth < self.max_depth && !mine.is_empty() => {
                    let (f, c) = mine.remove(self.rng.usize(mine.len()));
                    let (body, p) = self.abody(depth + 1, mine, c);
                    polls += p;
                    out.push(Sexp::tagged("ause", [vec![Sexp::num(f)], body].concat()));
                }
                _ => out.push(Sexp::tagged("sync", vec![self.obs(focus)])),
            }
        }
        (out, polls)
    }

    fn tasks(&mut self, depth: usize, idle: &mut Idle) -> Sexp {
        let nt = 1 + self.rng.usize(3);
        let mut tasks = Vec::new();
        let mut polls = Vec::new();
        for i in 0..nt {
            // each task gets its own share of the frames in scope; they do not come back
            let mut mine = Vec::new();
            let mut k = 0;
            while k < idle.len() {
                if self.rng.chance(1, 3) {
                    mine.push(idle.remove(k));
                } else {
                    k += 1;
                }
            }
            let (body, p) = if !mine.is_empty() && self.rng.chance(1, 2) {
                // a pre-created frame at the root of the task, like `frame.in_future(async { .. })`
                let (f, c) = mine.remove(self.rng.usize(mine.len()));
                let (body, p) = self.abody(depth, &mut mine, c);
                (vec![Sexp::tagged("ause", [vec![Sexp::num(f)], body].concat())], p)
            } else {
                self.abody(depth, &mut mine, 1)
            };
            tasks.push(Sexp::tagged("task", body));
            let want = p + 1;
            let n = match self.rng.below(6) {
                0 => self.rng.usize(want + 1), // may stay unfinished
                1 => want + 1,                 // polled once more after completion (ignored)
                _ => want,
            };
            for _ in 0..n {
                polls.push(i);
            }
        }
        // a random interleaving that keeps each task's own order
        let mut sched = Vec::new();
        let same = if self.rng.chance(2, 3) { Some(self.thread()) } else { None };
        while !polls.is_empty() {
            let i = polls.remove(self.rng.usize(polls.len()));
            let t = same.unwrap_or_else(|| self.rng.below(self.nthreads));
            sched.push(Sexp::list(vec![Sexp::num(i), Sexp::num(t)]));
        }
        Sexp::tagged("tasks", vec![Sexp::list(tasks), Sexp::tagged("sched", sched)])
    }
}

fn gen_c03(rng: &mut Rng, tier: Tier, n: usize) -> Vec<String> {
    let mut out = Vec::with_capacity(n);
    for _ in 0..n {
        let variant = if rng.chance(1, 3) { *rng.pick(&["concrete", "erased", "boxed"]) } else { *rng.pick(&VARIANTS) };
        let nthreads = 1 + rng.below(NTHREADS as u64);
        let budget = if tier == Tier::Thorough { 20 + rng.below(60) as i64 } else { 8 + rng.below(33) as i64 };
        let mut g = Gen { rng: &mut *rng, next_f: 0, budget, max_depth: 6, nthreads, no_span_id: variant == "tp" };
        let mut idle = Vec::new();
        let mut items = Vec::new();
        if g.rng.chance(1, 8) {
            items.extend(g.first_touch(&mut idle));
        }
        // several top-level blocks so the budget is used
        while g.budget > 0 {
            let (b, p) = g.block(0, &mut idle, false, 1);
            items.extend(b);
            if p {
                break;
            }
        }
        out.push(Sexp::tagged("c03", vec![Sexp::atom(variant), Sexp::list(items)]).to_string());
    }
    out
}
