//! C05 (macro forms) with the runtime's CLOCK held through every wrapper of core/src/clock.rs: the call sites are
//! generic over the runtime (`rt: *rt`), so the same four instrumented functions run against `Runtime<.., K, ..>` for
//! K = `CtlClock`, `&CtlClock`, `Some(CtlClock)`, `None`, `Box`, `Arc`, `AssertInternal`, `Box<dyn ErasedClock>` (not
//! `Send`) and `Box<dyn ErasedClock + Send + Sync>`. The plain forms read the clock in `start()` and at completion; the
//! `ok_lvl` forms also hand `rt.clock()` to `emit_core::emit` as the fallback for a span without an extent.
use super::{Boom, CtlClock, CtlF, RecE};
use emit_core::clock::ErasedClock;
use std::future::Future;
use std::pin::Pin;
use std::sync::Arc;

pub type RtK<K> = emit::runtime::Runtime<RecE, CtlF, emit::Empty, K, emit::Empty>;

macro_rules! body {
    ($exit:ident) => {{
        if $exit == 1 {
            return Ok(2);
        }
        if $exit == 2 {
            super::fail()?;
        }
        if $exit == 3 {
            panic!("scripted");
        }
        if $exit == 4 {
            return Err(Boom("boom"));
        }
        Ok(1)
    }};
}

#[emit::span(rt: *rt, "fx {n}")]
pub fn hx_sync<K: emit::Clock + 'static>(rt: &'static RtK<K>, exit: u8, n: u32) -> Result<u32, Boom> {
    body!(exit)
}

#[emit::span(rt: *rt, ok_lvl: emit::Level::Debug, "fx {n}")]
pub fn hx_sync_ok<K: emit::Clock + 'static>(rt: &'static RtK<K>, exit: u8, n: u32) -> Result<u32, Boom> {
    body!(exit)
}

#[emit::span(rt: *rt, "fx {n}")]
pub async fn hx_async<K: emit::Clock + 'static>(rt: &'static RtK<K>, exit: u8, n: u32) -> Result<u32, Boom> {
    body!(exit)
}

#[emit::span(rt: *rt, ok_lvl: emit::Level::Debug, "fx {n}")]
pub async fn hx_async_ok<K: emit::Clock + 'static>(rt: &'static RtK<K>, exit: u8, n: u32) -> Result<u32, Boom> {
    body!(exit)
}

pub const HOLDERS: [&str; 9] = ["direct", "ref", "some", "none", "box", "arc", "assert", "dyn", "dynss"];

type Fut = Pin<Box<dyn Future<Output = Result<u32, Boom>>>>;

/// one instrumented function on the runtime of one holder: (is_async, ok_lvl given) select the function
fn call<K: emit::Clock + 'static>(rt: &'static RtK<K>, is_async: bool, ok: bool, exit: u8, n: u32) -> Result<Result<u32, Boom>, Fut> {
    match (is_async, ok) {
        (false, false) => Ok(hx_sync(rt, exit, n)),
        (false, true) => Ok(hx_sync_ok(rt, exit, n)),
        (true, false) => Err(Box::pin(hx_async(rt, exit, n))),
        (true, true) => Err(Box::pin(hx_async_ok(rt, exit, n))),
    }
}

fn rt_of<K: 'static>(clock: K) -> &'static RtK<K> {
    Box::leak(Box::new(emit::runtime::Runtime::build(RecE, CtlF, emit::Empty, clock, emit::Empty)))
}

// one runtime per holder and thread (a `dyn ErasedClock` that is not `Send` cannot live in a `static`)
thread_local! {
    static DIRECT: &'static RtK<CtlClock> = rt_of(CtlClock);
    static REF: &'static RtK<&'static CtlClock> = rt_of(&CtlClock);
    static SOME: &'static RtK<Option<CtlClock>> = rt_of(Some(CtlClock));
    static NONE: &'static RtK<Option<CtlClock>> = rt_of(None);
    static BOX: &'static RtK<Box<CtlClock>> = rt_of(Box::new(CtlClock));
    static ARC: &'static RtK<Arc<CtlClock>> = rt_of(Arc::new(CtlClock));
    static ASSERT: &'static RtK<emit::runtime::AssertInternal<CtlClock>> = rt_of(emit::runtime::AssertInternal(CtlClock));
    static DYN: &'static RtK<Box<dyn ErasedClock>> = rt_of(Box::new(CtlClock) as Box<dyn ErasedClock>);
    static DYNSS: &'static RtK<Box<dyn ErasedClock + Send + Sync>> = rt_of(Box::new(CtlClock) as Box<dyn ErasedClock + Send + Sync>);
}

/// Run the function selected by (`is_async`, `ok`) with the clock held as `holder`; `Err` carries the future to drive.
pub fn run(holder: &str, is_async: bool, ok: bool, exit: u8, n: u32) -> Option<Result<Result<u32, Boom>, Fut>> {
    Some(match holder {
        "direct" => call(DIRECT.with(|r| *r), is_async, ok, exit, n),
        "ref" => call(REF.with(|r| *r), is_async, ok, exit, n),
        "some" => call(SOME.with(|r| *r), is_async, ok, exit, n),
        "none" => call(NONE.with(|r| *r), is_async, ok, exit, n),
        "box" => call(BOX.with(|r| *r), is_async, ok, exit, n),
        "arc" => call(ARC.with(|r| *r), is_async, ok, exit, n),
        "assert" => call(ASSERT.with(|r| *r), is_async, ok, exit, n),
        "dyn" => call(DYN.with(|r| *r), is_async, ok, exit, n),
        "dynss" => call(DYNSS.with(|r| *r), is_async, ok, exit, n),
        _ => return None,
    })
}
