//! C05 (macro forms) — `#[emit::span]` / `#[emit::info_span]` on sync and async fns, the `guard:` parameter and
//! `emit::new_span!` blocks (started at once, started after another clock reading, never started), for every combination of ok_lvl / err_lvl / err / panic_lvl and every exit path
//! (fall-through, early return, `?`, explicit `return Err`, panic). The instrumented functions are generated
//! (tools/gen_c05m_fixtures.py → fixtures.rs) and compiled against the CURRENT macros crate on every run.
//! Case: (c05m FORM LVL OK ERR MAPPED PAN ENABLED EXIT (clock R…) [HOLDER]) — see lean/EmitModel/Driver/C05.lean.
//! With HOLDER the call site is one of the four runtime-generic functions of holders.rs and the runtime holds the
//! scripted clock through that wrapper.

use std::cell::RefCell;
use std::collections::VecDeque;
use std::fmt;
use std::time::Duration;

use emit::{Clock, Emitter, Filter, Props};
use hcommon::{catch, Rng, Sexp, Stream, Tier};

mod fixtures;
mod holders;

pub fn streams() -> Vec<Stream> {
    vec![Stream { name: "c05m", gen, run }]
}

// ------------------------------------------------------------------ the static runtime, scripted through thread-locals

thread_local! {
    static ENABLED: RefCell<bool> = const { RefCell::new(true) };
    static CLOCK: RefCell<VecDeque<Option<u64>>> = const { RefCell::new(VecDeque::new()) };
    static LOG: RefCell<Vec<String>> = const { RefCell::new(Vec::new()) };
}

pub struct RecE;
impl Emitter for RecE {
    fn emit<E: emit::event::ToEvent>(&self, evt: E) {
        let evt = evt.to_event();
        let get = |k: &str| evt.props().get(k).map(|v| v.to_string()).unwrap_or_else(|| "none".into());
        let extent = match evt.extent().and_then(|e| e.as_range()) {
            Some(r) => format!("({} {})", r.start.to_unix().as_secs(), r.end.to_unix().as_secs()),
            None => match evt.extent() {
                Some(p) => format!("(point {})", p.as_point().to_unix().as_secs()),
                None => "none".into(),
            },
        };
        LOG.with(|l| {
            l.borrow_mut().push(format!(
                "(lvl={} err={} extent={} name={} kind={} mdl={} tpl={})",
                get("lvl"),
                get("err"),
                extent,
                Sexp::str(&get("span_name")),
                get("evt_kind"),
                Sexp::str(&evt.mdl().to_string()),
                Sexp::str(&evt.tpl().to_string()),
            ))
        });
    }
    fn blocking_flush(&self, _: Duration) -> bool {
        true
    }
}

/// the `setup:` function of the `ssetup` / `asetup` fixtures: from now on the filter accepts
pub fn enable_filter() {
    ENABLED.with(|e| *e.borrow_mut() = true);
}

/// The runtime filter of the fixtures is STATEFUL ("enabled or disabled by any filter"): it gives its scripted answer
/// to the first event it is shown and rejects everything after that — like a 1-in-N sampler. A span is put to the
/// filter once, when it starts; its completion goes to the emitter unfiltered, so the answer at the start is the
/// only one that counts.
pub struct CtlF;
impl Filter for CtlF {
    fn matches<E: emit::event::ToEvent>(&self, _: E) -> bool {
        ENABLED.with(|e| std::mem::replace(&mut *e.borrow_mut(), false))
    }
}

pub struct CtlClock;
impl Clock for CtlClock {
    fn now(&self) -> Option<emit::Timestamp> {
        CLOCK
            .with(|c| c.borrow_mut().pop_front())
            .flatten()
            .and_then(|s| emit::Timestamp::from_unix(Duration::from_secs(s)))
    }
}

pub static RT: emit::runtime::Runtime<RecE, CtlF, emit::Empty, CtlClock, emit::Empty> =
    emit::runtime::Runtime::build(RecE, CtlF, emit::Empty, CtlClock, emit::Empty);

#[derive(Debug)]
pub struct Inner;
impl fmt::Display for Inner {
    fn fmt(&self, f: &mut fmt::Formatter) -> fmt::Result {
        f.write_str("inner-boom")
    }
}
impl std::error::Error for Inner {}

#[derive(Debug)]
pub struct Boom(pub &'static str);
impl fmt::Display for Boom {
    fn fmt(&self, f: &mut fmt::Formatter) -> fmt::Result {
        f.write_str(self.0)
    }
}
impl std::error::Error for Boom {}

static INNER: Inner = Inner;
pub fn err_map(_: &Boom) -> &(dyn std::error::Error + 'static) {
    &INNER
}
pub fn fail() -> Result<u32, Boom> {
    Err(Boom("boom"))
}

fn block_on<F: std::future::Future>(f: F) -> F::Output {
    use std::task::{Context, Poll, RawWaker, RawWakerVTable, Waker};
    fn raw() -> RawWaker {
        fn no(_: *const ()) {}
        fn clone(_: *const ()) -> RawWaker {
            raw()
        }
        static VT: RawWakerVTable = RawWakerVTable::new(clone, no, no, no);
        RawWaker::new(std::ptr::null(), &VT)
    }
    let waker = unsafe { Waker::from_raw(raw()) };
    let mut cx = Context::from_waker(&waker);
    let mut f = std::pin::pin!(f);
    loop {
        if let Poll::Ready(v) = f.as_mut().poll(&mut cx) {
            return v;
        }
    }
}

fn opt(s: &Sexp) -> Option<Option<String>> {
    let a = s.as_atom()?;
    Some(if a == "none" { None } else { Some(a.to_string()) })
}

fn run(line: &str) -> String {
    (|| -> Option<String> {
        let s = Sexp::parse(line)?;
        let (tag, a) = s.as_tagged()?;
        if tag != "c05m" || !(a.len() == 9 || a.len() == 10) {
            return None;
        }
        let holder = if a.len() == 10 { Some(a[9].as_atom()?) } else { None };
        let form = a[0].as_atom()?;
        let (lvl, ok, err, mapped, pan) = (opt(&a[1])?, opt(&a[2])?, opt(&a[3])?, a[4].as_bool()?, opt(&a[5])?);
        let enabled = a[6].as_bool()?;
        let exit = match a[7].as_atom()? {
            "ok" => 0u8,
            "early" => 1,
            "qerr" => 2,
            "panic" => 3,
            "reterr" => 4,
            _ => return None,
        };
        let (ct, rs) = a[8].as_tagged()?;
        if ct != "clock" {
            return None;
        }
        let mut q = VecDeque::new();
        for r in rs {
            q.push_back(if r.as_atom()? == "none" { None } else { Some(r.as_u64()?) });
        }
        let table = fixtures::table();
        let e = table.iter().find(|e| {
            e.form == form
                && e.lvl.map(String::from) == lvl
                && e.ok.map(String::from) == ok
                && e.err.map(String::from) == err
                && e.mapped == mapped
                && e.pan.map(String::from) == pan
        })?;
        if !matches!(form, "sync" | "async") && !matches!(exit, 0 | 3) {
            return None;
        }
        if let Some(h) = holder {
            // the runtime-generic call sites exist for the plain and the `ok_lvl: debug` forms only
            let plain = matches!(form, "sync" | "async") && lvl.is_none() && err.is_none() && !mapped && pan.is_none();
            if !plain || !(ok.is_none() || ok.as_deref() == Some("debug")) || !holders::HOLDERS.contains(&h) {
                return None;
            }
        }
        ENABLED.with(|x| *x.borrow_mut() = enabled);
        CLOCK.with(|c| *c.borrow_mut() = q);
        LOG.with(|l| l.borrow_mut().clear());
        let r = catch(|| match (holder, &e.f) {
            (Some(h), _) => match holders::run(h, form == "async", ok.is_some(), exit, 7).expect("validated") {
                Ok(r) => r,
                Err(fut) => block_on(fut),
            },
            (None, fixtures::Fx::Sync(f)) => f(exit, 7),
            (None, fixtures::Fx::Async(f)) => block_on(f(exit, 7)),
        });
        let ret = match r {
            None => "panic".to_string(),
            Some(Ok(n)) => format!("ok{}", n),
            Some(Err(_)) => "err".to_string(),
        };
        let events = LOG.with(|l| l.borrow().join(" "));
        let n = LOG.with(|l| l.borrow().len());
        let out = format!("ret={} events=({})", ret, events);
        // a guard that is never started never completes
        // a call-site `when:` replaces the runtime's filter
        let enabled = match form {
            "bwhenf" => false,
            "bwhent" => true,
            // `setup:` runs before the span is created and switches the filter on
            "ssetup" | "asetup" => true,
            _ => enabled,
        };
        let expected = if enabled && form != "bunstarted" { 1 } else { 0 };
        Some(if n == expected { out } else { format!("{}\tFAIL:span-events={}-expected={}", out, n, expected) })
    })()
    .unwrap_or_else(|| "bad-case".into())
}

fn gen(rng: &mut Rng, _tier: Tier, n: usize) -> Vec<String> {
    let table = fixtures::table();
    let o = |x: Option<&str>| Sexp::atom(x.unwrap_or("none"));
    let mut out = Vec::new();
    // the matrix fixture × enabled × exit is small: enumerate it completely, then vary the clock at random
    let mut base = Vec::new();
    for e in &table {
        let exits: &[&str] = if matches!(e.form, "sync" | "async") { &["ok", "early", "qerr", "panic", "reterr"] } else { &["ok", "panic"] };
        for enabled in [true, false] {
            for exit in exits {
                base.push((e, enabled, *exit));
            }
        }
    }
    // the plain and `ok_lvl: debug` forms once more per clock holder (runtime-generic call sites)
    let held: Vec<&fixtures::Entry> =
        table.iter().filter(|e| matches!(e.form, "sync" | "async") && e.lvl.is_none() && e.err.is_none() && !e.mapped && e.pan.is_none() && matches!(e.ok, None | Some("debug"))).collect();
    let mut hbase = Vec::new();
    for e in &held {
        for h in holders::HOLDERS {
            for exit in ["ok", "qerr", "panic"] {
                hbase.push((*e, h, exit));
            }
        }
    }
    let line = |e: &fixtures::Entry, enabled: bool, exit: &str, clock: Vec<Sexp>, holder: Option<&str>| {
        let mut items = vec![
            Sexp::atom(e.form), o(e.lvl), o(e.ok), o(e.err), Sexp::bool(e.mapped), o(e.pan),
            Sexp::bool(enabled), Sexp::atom(exit), Sexp::tagged("clock", clock),
        ];
        if let Some(h) = holder {
            items.push(Sexp::atom(h));
        }
        Sexp::tagged("c05m", items).to_string()
    };
    for (e, h, exit) in &hbase {
        out.push(line(e, true, exit, vec![Sexp::num(3), Sexp::num(8), Sexp::num(9)], Some(h)));
    }
    let mut i = 0;
    while out.len() < n.max(base.len() + hbase.len()) {
        // one case in five of the random part goes through a clock holder
        if i >= base.len() && rng.chance(1, 5) {
            let (e, h, _) = hbase[rng.usize(hbase.len())];
            let exit = *rng.pick(&["ok", "early", "qerr", "panic", "reterr"]);
            let clock = (0..rng.usize(4)).map(|_| if rng.chance(1, 4) { Sexp::atom("none") } else { Sexp::num(rng.below(30)) }).collect();
            out.push(line(e, rng.chance(4, 5), exit, clock, Some(h)));
            continue;
        }
        let (e, enabled, exit) = base[i % base.len()];
        i += 1;
        let clock: Vec<Sexp> = if i <= base.len() {
            if e.form == "blate" { vec![Sexp::num(1), Sexp::num(3), Sexp::num(8)] } else { vec![Sexp::num(3), Sexp::num(8)] }
        } else {
            (0..rng.usize(4)).map(|_| if rng.chance(1, 4) { Sexp::atom("none") } else { Sexp::num(rng.below(30)) }).collect()
        };
        out.push(
            Sexp::tagged(
                "c05m",
                vec![
                    Sexp::atom(e.form), o(e.lvl), o(e.ok), o(e.err), Sexp::bool(e.mapped), o(e.pan),
                    Sexp::bool(enabled), Sexp::atom(exit), Sexp::tagged("clock", clock),
                ],
            )
            .to_string(),
        );
    }
    out
}
