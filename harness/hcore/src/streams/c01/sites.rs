//! C01 / C17 — static call sites of the level macros (macros need literal call sites; the rest of a case is data).
//!
//!   * `emit::debug! / info! / warn! / error!` on the four fixtures of `macro_fixtures()`, with and without a
//!     call-site `when:`, with `mdl:` and (fixture 1) with the implicit module path;
//!   * `emit::evt! / debug_evt! / info_evt! / warn_evt! / error_evt!` building an event value that is then emitted by
//!     `emit::emit!(evt: e)`, `emit::emit!(evt: e, "over {x}", x: 5)` or a level macro `emit::warn!(evt: e)`;
//!   * `#[emit::span] / #[emit::debug_span] / … / #[emit::error_span]` on functions and `emit::new_span! /
//!     new_debug_span! / … / new_error_span!`, with and without `when:`, with `mdl:` or the implicit module path.
//!
//! Every function returns `None` when the case line does not describe the call site it names (the model only
//! sees the line).

use emit::runtime::Runtime;
use emit::{Clock, Ctxt, Emitter, Empty, Event, Filter, Level, Path, Template};

use super::{macro_fixtures, FNode, OwnEvt, KV, V};

/// The module path the macros fill in when `mdl:` is absent.
pub const MODULE: &str = module_path!();

/// The fixture's own properties must lead the case's property list; the rest is the `props:` base.
fn split<'a>(own: &'a OwnEvt, n: usize) -> Option<&'a [KV]> {
    let fx = macro_fixtures();
    let fx = fx.get(n)?;
    let fp = (fx.props)();
    if own.tpl != fx.tpl || own.props.len() < fp.len() || own.props[..fp.len()] != fp[..] {
        return None;
    }
    Some(&own.props[fp.len()..])
}

// ------------------------------------------------------------------ emit::debug! / info! / warn! / error!

macro_rules! lvl_sites {
    ($m:ident, $rt:expr, $n:expr, $when:expr, $mdl:expr, $extent:expr, $base:expr, $implicit:expr) => {
        match ($n, $when, $implicit) {
            (0, None, false) => emit::$m!(rt: *$rt, mdl: $mdl, extent: $extent, props: $base, "fx0"),
            (0, Some(w), false) => emit::$m!(rt: *$rt, when: w, mdl: $mdl, extent: $extent, props: $base, "fx0"),
            (1, None, false) => emit::$m!(rt: *$rt, mdl: $mdl, extent: $extent, props: $base, "fx1 {a}", a: 1),
            (1, Some(w), false) => emit::$m!(rt: *$rt, when: w, mdl: $mdl, extent: $extent, props: $base, "fx1 {a}", a: 1),
            // no `mdl:` — the macro fills in `module_path!()`
            (1, None, true) => emit::$m!(rt: *$rt, extent: $extent, props: $base, "fx1 {a}", a: 1),
            (1, Some(w), true) => emit::$m!(rt: *$rt, when: w, extent: $extent, props: $base, "fx1 {a}", a: 1),
            (2, None, false) => {
                emit::$m!(rt: *$rt, mdl: $mdl, extent: $extent, props: $base, "fx2 {b} and {a}", a: -7, b: "bee")
            }
            (2, Some(w), false) => {
                emit::$m!(rt: *$rt, when: w, mdl: $mdl, extent: $extent, props: $base, "fx2 {b} and {a}", a: -7, b: "bee")
            }
            (3, None, false) => emit::$m!(rt: *$rt, mdl: $mdl, extent: $extent, props: $base, "fx3", a: "s", n: 0, z: 5),
            (3, Some(w), false) => {
                emit::$m!(rt: *$rt, when: w, mdl: $mdl, extent: $extent, props: $base, "fx3", a: "s", n: 0, z: 5)
            }
            _ => return None,
        }
    };
}

/// A case whose module is this file's own module path uses the call sites without `mdl:` (fixture 1 only).
fn implicit_mdl(own: &OwnEvt, n: usize) -> bool {
    n == 1 && own.mdl == MODULE
}

pub fn lvl_macro_emit<E: Emitter, F: Filter, C: Ctxt, T: Clock, R: emit::Rng>(
    rt: &Runtime<E, F, C, T, R>,
    lvl: Level,
    n: usize,
    when: Option<&FNode>,
    own: &OwnEvt,
) -> Option<()> {
    let base = split(own, n)?;
    let mdl = Path::new_ref_raw(&own.mdl);
    let extent = own.extent.clone();
    let implicit = implicit_mdl(own, n);
    match lvl {
        Level::Debug => lvl_sites!(debug, rt, n, when, mdl, extent, base, implicit),
        Level::Info => lvl_sites!(info, rt, n, when, mdl, extent, base, implicit),
        Level::Warn => lvl_sites!(warn, rt, n, when, mdl, extent, base, implicit),
        Level::Error => lvl_sites!(error, rt, n, when, mdl, extent, base, implicit),
    }
    Some(())
}

// ------------------------------------------------------------------ emit::*_evt! + emit::emit!(evt: e)

#[derive(Clone, Debug)]
pub enum EvtVia {
    /// `emit::emit!(rt, [when,] evt: e)`
    Plain,
    /// `emit::emit!(rt, [when,] evt: e, "over {x}", x: 5)` — template override, call-site property in front
    Tpl,
    /// `emit::<level>!(rt, [when,] evt: e)` — the outer macro's level goes in front of the event's own
    Lvl(Level),
}

fn emit_evt_via<E: Emitter, F: Filter, C: Ctxt, T: Clock, R: emit::Rng, EV: emit::event::ToEvent>(
    rt: &Runtime<E, F, C, T, R>,
    via: &EvtVia,
    when: Option<&FNode>,
    e: &EV,
) {
    match (via, when) {
        (EvtVia::Plain, None) => emit::emit!(rt: *rt, evt: e),
        (EvtVia::Plain, Some(w)) => emit::emit!(rt: *rt, when: w, evt: e),
        (EvtVia::Tpl, None) => emit::emit!(rt: *rt, evt: e, "over {x}", x: 5),
        (EvtVia::Tpl, Some(w)) => emit::emit!(rt: *rt, when: w, evt: e, "over {x}", x: 5),
        (EvtVia::Lvl(Level::Debug), None) => emit::debug!(rt: *rt, evt: e),
        (EvtVia::Lvl(Level::Debug), Some(w)) => emit::debug!(rt: *rt, when: w, evt: e),
        (EvtVia::Lvl(Level::Info), None) => emit::info!(rt: *rt, evt: e),
        (EvtVia::Lvl(Level::Info), Some(w)) => emit::info!(rt: *rt, when: w, evt: e),
        (EvtVia::Lvl(Level::Warn), None) => emit::warn!(rt: *rt, evt: e),
        (EvtVia::Lvl(Level::Warn), Some(w)) => emit::warn!(rt: *rt, when: w, evt: e),
        (EvtVia::Lvl(Level::Error), None) => emit::error!(rt: *rt, evt: e),
        (EvtVia::Lvl(Level::Error), Some(w)) => emit::error!(rt: *rt, when: w, evt: e),
    }
}

macro_rules! evt_sites {
    ($m:ident, $rt:expr, $n:expr, $via:expr, $when:expr, $mdl:expr, $extent:expr, $base:expr, $implicit:expr) => {
        match ($n, $implicit) {
            (0, false) => emit_evt_via($rt, $via, $when, &emit::$m!(mdl: $mdl, extent: $extent, props: $base, "fx0")),
            (1, false) => {
                emit_evt_via($rt, $via, $when, &emit::$m!(mdl: $mdl, extent: $extent, props: $base, "fx1 {a}", a: 1))
            }
            (1, true) => emit_evt_via($rt, $via, $when, &emit::$m!(extent: $extent, props: $base, "fx1 {a}", a: 1)),
            (3, false) => {
                let e = emit::$m!(mdl: $mdl, extent: $extent, props: $base, "fx3", a: "s", n: 0, z: 5);
                emit_evt_via($rt, $via, $when, &e)
            }
            _ => return None,
        }
    };
}

pub fn evt_macro_emit<E: Emitter, F: Filter, C: Ctxt, T: Clock, R: emit::Rng>(
    rt: &Runtime<E, F, C, T, R>,
    lvl: Option<Level>,
    n: usize,
    via: &EvtVia,
    when: Option<&FNode>,
    own: &OwnEvt,
) -> Option<()> {
    let base = split(own, n)?;
    let mdl = Path::new_ref_raw(&own.mdl);
    let extent = own.extent.clone();
    let implicit = implicit_mdl(own, n);
    match lvl {
        None => evt_sites!(evt, rt, n, via, when, mdl, extent, base, implicit),
        Some(Level::Debug) => evt_sites!(debug_evt, rt, n, via, when, mdl, extent, base, implicit),
        Some(Level::Info) => evt_sites!(info_evt, rt, n, via, when, mdl, extent, base, implicit),
        Some(Level::Warn) => evt_sites!(warn_evt, rt, n, via, when, mdl, extent, base, implicit),
        Some(Level::Error) => evt_sites!(error_evt, rt, n, via, when, mdl, extent, base, implicit),
    }
    Some(())
}

// ------------------------------------------------------------------ the span macros

#[derive(Clone, Copy, Debug)]
pub enum SpanForm {
    /// `#[emit::<level>_span(..)] fn`
    Attr,
    /// `emit::new_<level>_span!(..)` + `frame.call(..)`
    New,
}

pub const SPAN_TPL: &str = "sp {n}";
pub const SPAN_N: i64 = 7;

fn intern(s: &str) -> &'static str {
    use std::collections::HashMap;
    thread_local! { static T: std::cell::RefCell<HashMap<String, &'static str>> = std::cell::RefCell::new(HashMap::new()); }
    T.with(|t| *t.borrow_mut().entry(s.to_string()).or_insert_with(|| Box::leak(s.to_string().into_boxed_str())))
}

/// The six call sites of one level: function attribute and `new_*_span!`, each with `mdl:` (with and without
/// `when:`) and without `mdl:` (no `when:`).
macro_rules! span_sites {
    ($modname:ident, $attr:ident, $new:ident) => {
        mod $modname {
            use super::*;

            #[emit::$attr(rt: *rt, mdl: mdl, "sp {n}")]
            pub fn attr<E: Emitter, F: Filter, C: Ctxt, T: Clock, R: emit::Rng>(
                rt: &Runtime<E, F, C, T, R>,
                mdl: Path<'static>,
                n: i64,
                body: &dyn Fn(),
            ) {
                body()
            }

            #[emit::$attr(rt: *rt, mdl: mdl, when: w, "sp {n}")]
            pub fn attr_when<E: Emitter, F: Filter, C: Ctxt, T: Clock, R: emit::Rng>(
                rt: &Runtime<E, F, C, T, R>,
                mdl: Path<'static>,
                w: &FNode,
                n: i64,
                body: &dyn Fn(),
            ) {
                body()
            }

            #[emit::$attr(rt: *rt, "sp {n}")]
            pub fn attr_nomdl<E: Emitter, F: Filter, C: Ctxt, T: Clock, R: emit::Rng>(
                rt: &Runtime<E, F, C, T, R>,
                n: i64,
                body: &dyn Fn(),
            ) {
                body()
            }

            pub fn new<E: Emitter, F: Filter, C: Ctxt, T: Clock, R: emit::Rng>(
                rt: &Runtime<E, F, C, T, R>,
                mdl: Path<'static>,
                n: i64,
                body: &dyn Fn(),
            ) {
                let (mut guard, frame) = emit::$new!(rt: *rt, mdl: mdl, "sp {n}");
                frame.call(move || {
                    guard.start();
                    body();
                    drop(guard);
                })
            }

            pub fn new_when<E: Emitter, F: Filter, C: Ctxt, T: Clock, R: emit::Rng>(
                rt: &Runtime<E, F, C, T, R>,
                mdl: Path<'static>,
                w: &FNode,
                n: i64,
                body: &dyn Fn(),
            ) {
                let (mut guard, frame) = emit::$new!(rt: *rt, mdl: mdl, when: w, "sp {n}");
                frame.call(move || {
                    guard.start();
                    body();
                    drop(guard);
                })
            }

            pub fn new_nomdl<E: Emitter, F: Filter, C: Ctxt, T: Clock, R: emit::Rng>(
                rt: &Runtime<E, F, C, T, R>,
                n: i64,
                body: &dyn Fn(),
            ) {
                let (mut guard, frame) = emit::$new!(rt: *rt, "sp {n}");
                frame.call(move || {
                    guard.start();
                    body();
                    drop(guard);
                })
            }
        }
    };
}

span_sites!(sp_plain, span, new_span);
span_sites!(sp_debug, debug_span, new_debug_span);
span_sites!(sp_info, info_span, new_info_span);
span_sites!(sp_warn, warn_span, new_warn_span);
span_sites!(sp_error, error_span, new_error_span);

macro_rules! span_dispatch {
    ($m:ident, $rt:expr, $form:expr, $with_mdl:expr, $when:expr, $mdl:expr, $body:expr) => {
        match ($form, $with_mdl, $when) {
            (SpanForm::Attr, true, None) => $m::attr($rt, $mdl, SPAN_N, $body),
            (SpanForm::Attr, true, Some(w)) => $m::attr_when($rt, $mdl, w, SPAN_N, $body),
            (SpanForm::Attr, false, None) => $m::attr_nomdl($rt, SPAN_N, $body),
            (SpanForm::New, true, None) => $m::new($rt, $mdl, SPAN_N, $body),
            (SpanForm::New, true, Some(w)) => $m::new_when($rt, $mdl, w, SPAN_N, $body),
            (SpanForm::New, false, None) => $m::new_nomdl($rt, SPAN_N, $body),
            _ => return None,
        }
    };
}

/// One macro-instrumented span. Its body sends a marker event straight through the runtime's emitter WITH the
/// ambient context (no filter, no clock), so the properties the span's frame made current are visible whatever
/// the runtime filter thinks of the marker.
pub fn span_macro<E: Emitter, F: Filter, C: Ctxt, T: Clock, R: emit::Rng>(
    rt: &Runtime<E, F, C, T, R>,
    form: SpanForm,
    lvl: Option<Level>,
    with_mdl: bool,
    when: Option<&FNode>,
    own: &OwnEvt,
) -> Option<()> {
    // the line must describe the span the call site creates
    if own.tpl != SPAN_TPL || own.extent.is_some() || own.props[..] != [("n".to_string(), V::I(SPAN_N))] {
        return None;
    }
    let sub = MODULE.to_string() + "::";
    if !with_mdl && !own.mdl.starts_with(&sub) {
        return None;
    }
    let mdl = Path::new_raw(intern(&own.mdl));
    let body = || {
        let marker = Event::new(Path::new_ref_raw(&own.mdl), Template::literal("body"), Empty, Empty);
        emit_core::emit(rt.emitter(), Empty, rt.ctxt(), Empty, &marker);
    };
    let expect_mdl = |m: &str| own.mdl == format!("{}{}", sub, m);
    match lvl {
        None => {
            if !with_mdl && !expect_mdl("sp_plain") {
                return None;
            }
            span_dispatch!(sp_plain, rt, form, with_mdl, when, mdl, &body)
        }
        Some(Level::Debug) => {
            if !with_mdl && !expect_mdl("sp_debug") {
                return None;
            }
            span_dispatch!(sp_debug, rt, form, with_mdl, when, mdl, &body)
        }
        Some(Level::Info) => {
            if !with_mdl && !expect_mdl("sp_info") {
                return None;
            }
            span_dispatch!(sp_info, rt, form, with_mdl, when, mdl, &body)
        }
        Some(Level::Warn) => {
            if !with_mdl && !expect_mdl("sp_warn") {
                return None;
            }
            span_dispatch!(sp_warn, rt, form, with_mdl, when, mdl, &body)
        }
        Some(Level::Error) => {
            if !with_mdl && !expect_mdl("sp_error") {
                return None;
            }
            span_dispatch!(sp_error, rt, form, with_mdl, when, mdl, &body)
        }
    }
    Some(())
}

/// The module path a span call site without `mdl:` reports.
pub fn span_module(lvl: Option<Level>) -> String {
    let m = match lvl {
        None => "sp_plain",
        Some(Level::Debug) => "sp_debug",
        Some(Level::Info) => "sp_info",
        Some(Level::Warn) => "sp_warn",
        Some(Level::Error) => "sp_error",
    };
    format!("{}::{}", MODULE, m)
}
