//! C01 — an event is emitted iff the effective filter accepts the fully built event.
//!
//! Drives the REAL combinators of `emit_core` (`And`/`Or`/`Option`/`Box`/`Arc`/`&`/`dyn Erased…`/
//! `AssertInternal`/`Wrap`/`wrapping::FromFilter`/`wrapping::FromFn`/`Runtime`/`AmbientSlot`/`Setup`) and the
//! macro hooks `__private_emit`, `__private_emit_event`, `emit::emit!`.
//!
//! Random trees are realised through the adapter of DESIGN §3.4: `FNode` / `ENode` own the real combinator
//! values and forward to the real impl of the owned combinator after narrowing the event to
//! `&Event<&dyn ErasedProps>` at the node boundary. Stream `c01_static` runs fully statically typed fixtures
//! (no narrowing anywhere) through the same observations.
//!
//! Library leaf filters (`emit::level::{min_filter, MinLevelPathMap}`, `emit::kind::{is_span_filter,
//! is_metric_filter, KindFilter::new}`) sit in the filter trees next to the recording user leaves, and the
//! static call sites of sites.rs emit through `emit::debug!/info!/warn!/error!`, the `*_evt!` macros with
//! `emit::emit!(evt: e)`, and the level span macros (`#[emit::warn_span]`, `emit::new_error_span!`, …, with and
//! without `when:` / `mdl:`).
//!
//! Case format and output format: see lean/EmitModel/Driver/C01.lean.

use std::cell::RefCell;
use std::ops::ControlFlow;
use std::sync::{Arc, Mutex};
use std::time::Duration;

use emit::and::And;
use emit::emitter::wrapping::{self, ErasedWrapping};
use emit::emitter::{self, ErasedEmitter, Wrap};
use emit::event::ToEvent;
use emit::filter::{self, ErasedFilter};
use emit::or::Or;
use emit::props::ErasedProps;
use emit::runtime::{AmbientSlot, AssertInternal, Runtime};
use emit::value::ToValue;
use emit::{Clock, Ctxt, Emitter, Empty, Event, Extent, Filter, Level, Path, Props, Str, Template, Timestamp, Value};
use hcommon::{hex, Rng, Sexp, Stream, Tier};

mod sites;

pub fn streams() -> Vec<Stream> {
    vec![
        Stream { name: "c01", gen: gen_c01, run: run_c01 },
        Stream { name: "c01_static", gen: gen_static, run: run_static },
        // C17's share of this file: only the level-macro call sites, against level filters (same case grammar,
        // same runner, same model function)
        Stream { name: "c17_macro", gen: gen_c17_macro, run: run_c01 },
    ]
}

// ================================================================== values, events, the effect log

#[derive(Clone, Debug, PartialEq)]
pub enum V {
    I(i64),
    S(String),
    /// a typed `emit::Level` (what the level macros attach under `lvl`)
    L(Level),
    /// a `Display`-only value (how a frame of `TestCtxt` keeps kinds and ids it was handed)
    D(Shown),
}

#[derive(Clone, Debug, PartialEq)]
pub struct Shown(pub String);

impl std::fmt::Display for Shown {
    fn fmt(&self, f: &mut std::fmt::Formatter) -> std::fmt::Result {
        f.write_str(&self.0)
    }
}

impl ToValue for V {
    fn to_value(&self) -> Value<'_> {
        match self {
            V::I(i) => Value::from(*i),
            V::S(s) => Value::from(s.as_str()),
            V::L(l) => l.to_value(),
            V::D(s) => Value::capture_display(s),
        }
    }
}

/// What a frame keeps of a value it is handed (a buffered copy that still reads the same).
fn capture_v(v: &Value) -> V {
    if let Some(s) = v.to_cow_str() {
        V::S(s.into_owned())
    } else if let Some(i) = v.by_ref().cast::<i64>() {
        V::I(i)
    } else if let Some(l) = v.downcast_ref::<Level>() {
        V::L(*l)
    } else {
        V::D(Shown(v.to_string()))
    }
}

type KV = (String, V);

/// A user-implemented `Props` (only `for_each` is provided, like most third-party impls).
pub struct PropList(Vec<KV>);

impl Props for PropList {
    fn for_each<'kv, F: FnMut(Str<'kv>, Value<'kv>) -> ControlFlow<()>>(&'kv self, mut for_each: F) -> ControlFlow<()> {
        for (k, v) in &self.0 {
            for_each(Str::new_ref(k), v.to_value())?;
        }
        ControlFlow::Continue(())
    }
}

fn render_v(v: &V) -> String {
    match v {
        V::I(i) => format!("i{}", i),
        V::S(s) => format!("s{}", hex(s.as_bytes())),
        V::L(l) => format!("?{}", l),
        V::D(s) => format!("?{}", s),
    }
}

fn render_value(v: &Value) -> String {
    if let Some(s) = v.to_cow_str() {
        format!("s{}", hex(s.as_bytes()))
    } else if let Some(i) = v.by_ref().cast::<i64>() {
        format!("i{}", i)
    } else {
        format!("?{}", v)
    }
}

fn nanos(ts: &Timestamp) -> u128 {
    ts.to_unix().as_nanos()
}

fn render_extent(e: Option<&Extent>) -> String {
    match e {
        None => "n".into(),
        Some(e) => match e.as_range() {
            Some(r) => format!("r{}-{}", nanos(&r.start), nanos(&r.end)),
            None => format!("p{}", nanos(e.as_point())),
        },
    }
}

fn render_event<P: Props>(evt: &Event<P>) -> String {
    let mut props = Vec::new();
    let _ = evt.props().for_each(|k, v| {
        props.push(format!("{}={}", hex(k.get().as_bytes()), render_value(&v)));
        ControlFlow::Continue(())
    });
    format!(
        "{}~{}~{}~{}",
        hex(evt.mdl().to_string().as_bytes()),
        hex(evt.tpl().to_string().as_bytes()),
        render_extent(evt.extent()),
        props.join(",")
    )
}

enum Ob {
    F(usize, String),
    E(usize, String),
    Fl(usize, u128),
}

thread_local! {
    static LOG: RefCell<Vec<Ob>> = RefCell::new(Vec::new());
}

fn record(o: Ob) {
    LOG.with(|l| l.borrow_mut().push(o));
}

fn take_log() -> Vec<Ob> {
    LOG.with(|l| std::mem::take(&mut *l.borrow_mut()))
}

/// `F<i>{evt;evt}…E<j>{evt}…`: effects grouped per leaf (call order inside a group).
fn render_log(log: &[Ob]) -> String {
    let mut out = String::new();
    for (tag, is_f) in [("F", true), ("E", false)] {
        let mut ids: Vec<usize> = log
            .iter()
            .filter_map(|o| match o {
                Ob::F(i, _) if is_f => Some(*i),
                Ob::E(i, _) if !is_f => Some(*i),
                _ => None,
            })
            .collect();
        ids.sort();
        ids.dedup();
        for id in ids {
            let evs: Vec<&str> = log
                .iter()
                .filter_map(|o| match o {
                    Ob::F(i, e) if is_f && *i == id => Some(e.as_str()),
                    Ob::E(i, e) if !is_f && *i == id => Some(e.as_str()),
                    _ => None,
                })
                .collect();
            out.push_str(&format!("{}{}{{{}}}", tag, id, evs.join(";")));
        }
    }
    out
}

fn render_ids(log: &[Ob]) -> String {
    log.iter()
        .filter_map(|o| match o {
            Ob::F(i, _) => Some(i.to_string()),
            _ => None,
        })
        .collect::<Vec<_>>()
        .join(",")
}

fn render_flush(r: bool, log: &[Ob]) -> String {
    let mut ids: Vec<usize> = log.iter().filter_map(|o| if let Ob::Fl(i, _) = o { Some(*i) } else { None }).collect();
    ids.sort();
    ids.dedup();
    let groups: Vec<String> = ids
        .iter()
        .map(|id| {
            let ts: Vec<String> = log
                .iter()
                .filter_map(|o| match o {
                    Ob::Fl(i, t) if i == id => Some(t.to_string()),
                    _ => None,
                })
                .collect();
            format!("E{}:{}", id, ts.join(","))
        })
        .collect();
    format!("{}[{}]", r, groups.join(";"))
}

/// Oracle: with positional (unique) leaf numbers, one emission may reach an emitter leaf at most once.
fn delivered_twice(log: &[Ob]) -> bool {
    delivered_more_than(log, 1)
}

fn delivered_more_than(log: &[Ob], n: usize) -> bool {
    let mut seen = std::collections::HashMap::new();
    log.iter().any(|o| match o {
        Ob::E(i, _) => {
            let c = seen.entry(*i).or_insert(0usize);
            *c += 1;
            *c > n
        }
        _ => false,
    })
}

// ================================================================== leaf behaviours

#[derive(Clone, Debug)]
pub enum Pred {
    Const(bool),
    Mdl(String),
    HasKey(String),
    KeyIs(String, V),
    ExtentKind(u8),
    PropsGe(usize),
}

impl Pred {
    fn holds<P: Props>(&self, evt: &Event<P>) -> bool {
        match self {
            Pred::Const(b) => *b,
            Pred::Mdl(m) => *evt.mdl() == m.as_str(),
            Pred::HasKey(k) => evt.props().get(k.as_str()).is_some(),
            Pred::KeyIs(k, v) => evt.props().get(k.as_str()).map(|x| render_value(&x) == render_v(v)).unwrap_or(false),
            Pred::ExtentKind(n) => match evt.extent() {
                None => *n == 0,
                Some(e) => {
                    if e.is_range() {
                        *n == 2
                    } else {
                        *n == 1
                    }
                }
            },
            Pred::PropsGe(n) => {
                let mut c = 0usize;
                let _ = evt.props().for_each(|_, _| {
                    c += 1;
                    ControlFlow::Continue(())
                });
                c >= *n
            }
        }
    }
}

/// A user filter implementing the generic trait directly (sees the un-erased event type).
pub struct LeafF {
    idx: usize,
    pred: Pred,
}

impl Filter for LeafF {
    fn matches<E: ToEvent>(&self, evt: E) -> bool {
        let evt = evt.to_event();
        record(Ob::F(self.idx, render_event(&evt)));
        self.pred.holds(&evt)
    }
}

type BoxPredFn = Box<dyn Fn(Event<&dyn ErasedProps>) -> bool + Send + Sync>;

fn fn_leaf_f(idx: usize, pred: Pred) -> filter::FromFn<BoxPredFn> {
    filter::from_fn(Box::new(move |evt: Event<&dyn ErasedProps>| {
        record(Ob::F(idx, render_event(&evt)));
        pred.holds(&evt)
    }) as BoxPredFn)
}

#[derive(Clone, Debug)]
pub enum FlushB {
    Always(bool),
    Ge(u128),
}

/// A user emitter implementing the generic trait directly; `blocking_flush` records its timeout.
pub struct LeafE {
    idx: usize,
    fl: FlushB,
}

impl Emitter for LeafE {
    fn emit<E: ToEvent>(&self, evt: E) {
        record(Ob::E(self.idx, render_event(&evt.to_event())));
    }

    fn blocking_flush(&self, timeout: Duration) -> bool {
        let t = timeout.as_nanos();
        record(Ob::Fl(self.idx, t));
        match self.fl {
            FlushB::Always(b) => b,
            FlushB::Ge(n) => t >= n,
        }
    }
}

type BoxEmitFn = Box<dyn Fn(Event<&dyn ErasedProps>) + Send + Sync>;

fn fn_leaf_e(idx: usize) -> emitter::FromFn<BoxEmitFn> {
    emitter::from_fn(Box::new(move |evt: Event<&dyn ErasedProps>| {
        record(Ob::E(idx, render_event(&evt)));
    }) as BoxEmitFn)
}

#[derive(Clone, Debug)]
pub enum MapF {
    Id,
    AddProp(String, V),
    Prepend(String, V),
    SetMdl(String),
    SetTpl(String),
    NoExtent,
    SetExtent(Extent),
}

type BoxWrapFn = Box<dyn Fn(&dyn ErasedEmitter, Event<&dyn ErasedProps>) + Send + Sync>;

/// The body of a `wrapping::from_fn`: forward the transformed event exactly once.
fn map_fn(g: MapF) -> BoxWrapFn {
    match g {
        MapF::Id => Box::new(|out, evt| out.emit(evt)),
        MapF::AddProp(k, v) => Box::new(move |out, evt| out.emit(evt.map_props(|p| p.and_props((k.as_str(), &v))))),
        MapF::Prepend(k, v) => Box::new(move |out, evt| out.emit(evt.map_props(|p| (k.as_str(), &v).and_props(p)))),
        MapF::SetMdl(m) => Box::new(move |out, evt| out.emit(evt.with_mdl(Path::new_ref_raw(&m)))),
        MapF::SetTpl(t) => Box::new(move |out, evt| out.emit(evt.with_tpl(Template::literal_ref(&t)))),
        MapF::NoExtent => Box::new(|out, evt| out.emit(evt.with_extent(None::<Extent>))),
        MapF::SetExtent(e) => Box::new(move |out, evt| out.emit(evt.with_extent(e.clone()))),
    }
}

// ================================================================== test ctxt / clock

/// A user `Ctxt` that implements only the required methods (`open_push` / `open_disabled` are the trait's
/// defaults): the ambient properties are the base list until a frame is entered; a frame is the complete
/// property list it makes current.
pub struct TestCtxt {
    base: PropList,
    cur: Mutex<Option<Vec<KV>>>,
}

#[allow(non_snake_case)]
pub fn TestCtxt(base: PropList) -> TestCtxt {
    TestCtxt { base, cur: Mutex::new(None) }
}

impl Ctxt for TestCtxt {
    type Current = PropList;
    type Frame = Option<Vec<KV>>;

    fn open_root<P: Props>(&self, props: P) -> Self::Frame {
        let mut v = Vec::new();
        let _ = props.for_each(|k, val| {
            v.push((k.get().to_string(), capture_v(&val)));
            ControlFlow::Continue(())
        });
        Some(v)
    }
    fn enter(&self, frame: &mut Self::Frame) {
        std::mem::swap(&mut *self.cur.lock().unwrap(), frame);
    }
    fn with_current<R, F: FnOnce(&Self::Current) -> R>(&self, with: F) -> R {
        let cur = self.cur.lock().unwrap().clone();
        match cur {
            Some(v) => with(&PropList(v)),
            None => with(&self.base),
        }
    }
    fn exit(&self, frame: &mut Self::Frame) {
        std::mem::swap(&mut *self.cur.lock().unwrap(), frame);
    }
    fn close(&self, _: Self::Frame) {}
}

/// A constant random source: every span gets the same trace id (2a…2a) and span id, so that what a span
/// pushes onto the context can be compared verbatim. (The rng plays no role in emission.)
pub struct ConstRng;

impl emit::Rng for ConstRng {
    fn fill<A: AsMut<[u8]>>(&self, mut arr: A) -> Option<A> {
        for b in arr.as_mut() {
            *b = 0x2a;
        }
        Some(arr)
    }
}

pub struct TestClock(Option<Timestamp>);

impl Clock for TestClock {
    fn now(&self) -> Option<Timestamp> {
        self.0
    }
}

// ================================================================== the adapter: filters

type DynF = dyn ErasedFilter + Send + Sync;
type DynE = dyn ErasedEmitter + Send + Sync;
type DynW = dyn ErasedWrapping + Send + Sync;

pub enum FNode {
    Leaf(LeafF),
    FnLeaf(filter::FromFn<BoxPredFn>),
    Always(filter::Always),
    Empty(Empty),
    And(Box<And<FNode, FNode>>),
    Or(Box<Or<FNode, FNode>>),
    Opt(Box<Option<FNode>>),
    Ref(&'static FNode),
    Boxed(Box<FNode>),
    Shared(Arc<FNode>),
    DynBox(Box<DynF>),
    DynArc(Arc<DynF>),
    DynRef(&'static DynF),
    Internal(Box<AssertInternal<FNode>>),
    /// library leaf filters (they record nothing; the model knows their verdict from the case line)
    MinLvl(emit::level::MinLevelFilter),
    PathMap(emit::level::MinLevelPathMap),
    Kind(emit::kind::KindFilter),
}

impl Filter for FNode {
    fn matches<E: ToEvent>(&self, evt: E) -> bool {
        // narrow to ONE event type at the node boundary; the owned combinator's real impl runs below
        let evt = evt.to_event();
        let evt = evt.erase();
        let evt: &Event<&dyn ErasedProps> = &evt;
        match self {
            FNode::Leaf(f) => <LeafF as Filter>::matches(f, evt),
            FNode::FnLeaf(f) => <filter::FromFn<BoxPredFn> as Filter>::matches(f, evt),
            FNode::Always(f) => <filter::Always as Filter>::matches(f, evt),
            FNode::Empty(f) => <Empty as Filter>::matches(f, evt),
            FNode::And(f) => <And<FNode, FNode> as Filter>::matches(f, evt),
            FNode::Or(f) => <Or<FNode, FNode> as Filter>::matches(f, evt),
            FNode::Opt(f) => <Option<FNode> as Filter>::matches(f, evt),
            FNode::Ref(f) => <&'static FNode as Filter>::matches(f, evt),
            FNode::Boxed(f) => <Box<FNode> as Filter>::matches(f, evt),
            FNode::Shared(f) => <Arc<FNode> as Filter>::matches(f, evt),
            FNode::DynBox(f) => <Box<DynF> as Filter>::matches(f, evt),
            FNode::DynArc(f) => <Arc<DynF> as Filter>::matches(f, evt),
            FNode::DynRef(f) => <&'static DynF as Filter>::matches(f, evt),
            FNode::Internal(f) => <AssertInternal<FNode> as Filter>::matches(f, evt),
            FNode::MinLvl(f) => <emit::level::MinLevelFilter as Filter>::matches(f, evt),
            FNode::PathMap(f) => <emit::level::MinLevelPathMap as Filter>::matches(f, evt),
            FNode::Kind(f) => <emit::kind::KindFilter as Filter>::matches(f, evt),
        }
    }
}

// ================================================================== the adapter: emitters

type NestedRt = Runtime<ENode, FNode, TestCtxt, TestClock, Empty>;

pub enum ENode {
    Leaf(LeafE),
    FnLeaf(emitter::FromFn<BoxEmitFn>),
    Empty(Empty),
    And(Box<And<ENode, ENode>>),
    Opt(Box<Option<ENode>>),
    WrapF(Box<Wrap<ENode, wrapping::FromFilter<FNode>>>),
    WrapM(Box<Wrap<ENode, wrapping::FromFn<BoxWrapFn>>>),
    WrapDyn(Box<Wrap<ENode, &'static DynW>>),
    Ref(&'static ENode),
    Boxed(Box<ENode>),
    Shared(Arc<ENode>),
    DynBox(Box<DynE>),
    DynArc(Arc<DynE>),
    DynRef(&'static DynE),
    Internal(Box<AssertInternal<ENode>>),
    Rt(Box<NestedRt>),
    Slot(Box<AmbientSlot>),
}

impl Emitter for ENode {
    fn emit<E: ToEvent>(&self, evt: E) {
        let evt = evt.to_event();
        let evt = evt.erase();
        let evt: &Event<&dyn ErasedProps> = &evt;
        match self {
            ENode::Leaf(e) => <LeafE as Emitter>::emit(e, evt),
            ENode::FnLeaf(e) => <emitter::FromFn<BoxEmitFn> as Emitter>::emit(e, evt),
            ENode::Empty(e) => <Empty as Emitter>::emit(e, evt),
            ENode::And(e) => <And<ENode, ENode> as Emitter>::emit(e, evt),
            ENode::Opt(e) => <Option<ENode> as Emitter>::emit(e, evt),
            ENode::WrapF(e) => <Wrap<ENode, wrapping::FromFilter<FNode>> as Emitter>::emit(e, evt),
            ENode::WrapM(e) => <Wrap<ENode, wrapping::FromFn<BoxWrapFn>> as Emitter>::emit(e, evt),
            ENode::WrapDyn(e) => <Wrap<ENode, &'static DynW> as Emitter>::emit(e, evt),
            ENode::Ref(e) => <&'static ENode as Emitter>::emit(e, evt),
            ENode::Boxed(e) => <Box<ENode> as Emitter>::emit(e, evt),
            ENode::Shared(e) => <Arc<ENode> as Emitter>::emit(e, evt),
            ENode::DynBox(e) => <Box<DynE> as Emitter>::emit(e, evt),
            ENode::DynArc(e) => <Arc<DynE> as Emitter>::emit(e, evt),
            ENode::DynRef(e) => <&'static DynE as Emitter>::emit(e, evt),
            ENode::Internal(e) => <AssertInternal<ENode> as Emitter>::emit(e, evt),
            // `Emitter for Runtime` (runtime.rs:305-315)
            ENode::Rt(rt) => <NestedRt as Emitter>::emit(rt, evt),
            ENode::Slot(slot) => Emitter::emit(slot.get(), evt),
        }
    }

    fn blocking_flush(&self, timeout: Duration) -> bool {
        match self {
            ENode::Leaf(e) => e.blocking_flush(timeout),
            ENode::FnLeaf(e) => e.blocking_flush(timeout),
            ENode::Empty(e) => Emitter::blocking_flush(e, timeout),
            ENode::And(e) => <And<ENode, ENode> as Emitter>::blocking_flush(e, timeout),
            ENode::Opt(e) => <Option<ENode> as Emitter>::blocking_flush(e, timeout),
            ENode::WrapF(e) => e.blocking_flush(timeout),
            ENode::WrapM(e) => e.blocking_flush(timeout),
            ENode::WrapDyn(e) => e.blocking_flush(timeout),
            ENode::Ref(e) => <&'static ENode as Emitter>::blocking_flush(e, timeout),
            ENode::Boxed(e) => <Box<ENode> as Emitter>::blocking_flush(e, timeout),
            ENode::Shared(e) => <Arc<ENode> as Emitter>::blocking_flush(e, timeout),
            ENode::DynBox(e) => <Box<DynE> as Emitter>::blocking_flush(e, timeout),
            ENode::DynArc(e) => <Arc<DynE> as Emitter>::blocking_flush(e, timeout),
            ENode::DynRef(e) => <&'static DynE as Emitter>::blocking_flush(e, timeout),
            ENode::Internal(e) => <AssertInternal<ENode> as Emitter>::blocking_flush(e, timeout),
            ENode::Rt(rt) => <NestedRt as Emitter>::blocking_flush(rt, timeout),
            ENode::Slot(slot) => Emitter::blocking_flush(slot.get(), timeout),
        }
    }
}

// ================================================================== parsing a case

#[derive(Default)]
struct Counters {
    f: usize,
    e: usize,
}

fn val(s: &Sexp) -> Option<V> {
    let (t, a) = s.as_tagged()?;
    match (t, a.len()) {
        ("i", 1) => Some(V::I(a[0].as_i64()?)),
        ("s", 1) => Some(V::S(a[0].as_string()?)),
        ("l", 1) => Some(V::L(level(&a[0])?)),
        ("d", 1) => Some(V::D(Shown(a[0].as_string()?))),
        _ => None,
    }
}

pub fn level(s: &Sexp) -> Option<Level> {
    Some(match s.as_atom()? {
        "debug" => Level::Debug,
        "info" => Level::Info,
        "warn" => Level::Warn,
        "error" => Level::Error,
        _ => return None,
    })
}

/// `MIN DFLT` → `emit::level::min_filter(MIN)[.treat_unleveled_as(DFLT)]`
fn min_filter(mn: &Sexp, df: &Sexp) -> Option<emit::level::MinLevelFilter> {
    let f = emit::level::min_filter(level(mn)?);
    Some(if df.as_atom()? == "none" { f } else { f.treat_unleveled_as(level(df)?) })
}

fn kind(s: &Sexp) -> Option<emit::Kind> {
    Some(match s.as_atom()? {
        "span" => emit::Kind::Span,
        "metric" => emit::Kind::Metric,
        _ => return None,
    })
}

fn kv(s: &Sexp) -> Option<KV> {
    let l = s.as_list()?;
    if l.len() != 2 {
        return None;
    }
    Some((l[0].as_string()?, val(&l[1])?))
}

fn ts(n: u128) -> Option<Timestamp> {
    let secs = u64::try_from(n / 1_000_000_000).ok()?;
    Timestamp::from_unix(Duration::new(secs, (n % 1_000_000_000) as u32))
}

fn ext(s: &Sexp) -> Option<Option<Extent>> {
    if s.as_atom() == Some("none") {
        return Some(None);
    }
    let (t, a) = s.as_tagged()?;
    match (t, a.len()) {
        ("point", 1) => Some(Some(Extent::point(ts(a[0].as_u128()?)?))),
        ("range", 2) => Some(Some(Extent::range(ts(a[0].as_u128()?)?..ts(a[1].as_u128()?)?))),
        _ => None,
    }
}

fn pred(s: &Sexp) -> Option<Pred> {
    let (t, a) = s.as_tagged()?;
    Some(match (t, a.len()) {
        ("const", 1) => Pred::Const(a[0].as_bool()?),
        ("mdl", 1) => Pred::Mdl(a[0].as_string()?),
        ("haskey", 1) => Pred::HasKey(a[0].as_string()?),
        ("keyis", 2) => Pred::KeyIs(a[0].as_string()?, val(&a[1])?),
        ("extent", 1) => Pred::ExtentKind(match a[0].as_atom()? {
            "none" => 0,
            "point" => 1,
            "range" => 2,
            _ => return None,
        }),
        ("propsge", 1) => Pred::PropsGe(a[0].as_usize()?),
        _ => return None,
    })
}

fn flush_b(s: &Sexp) -> Option<FlushB> {
    match s.as_atom() {
        Some("true") => return Some(FlushB::Always(true)),
        Some("false") => return Some(FlushB::Always(false)),
        Some(_) => return None,
        None => {}
    }
    let (t, a) = s.as_tagged()?;
    match (t, a.len()) {
        ("ge", 1) => Some(FlushB::Ge(a[0].as_u128()?)),
        _ => None,
    }
}

fn map_f(s: &Sexp) -> Option<MapF> {
    match s.as_atom() {
        Some("id") => return Some(MapF::Id),
        Some("noextent") => return Some(MapF::NoExtent),
        Some(_) => return None,
        None => {}
    }
    let (t, a) = s.as_tagged()?;
    Some(match (t, a.len()) {
        ("addprop", 2) => MapF::AddProp(a[0].as_string()?, val(&a[1])?),
        ("prepend", 2) => MapF::Prepend(a[0].as_string()?, val(&a[1])?),
        ("setmdl", 1) => MapF::SetMdl(a[0].as_string()?),
        ("settpl", 1) => MapF::SetTpl(a[0].as_string()?),
        ("setextent", 1) => MapF::SetExtent(ext(&a[0])??),
        _ => return None,
    })
}

fn amb(s: &Sexp) -> Option<Vec<KV>> {
    let (t, a) = s.as_tagged()?;
    if t != "amb" {
        return None;
    }
    a.iter().map(kv).collect()
}

fn clk(s: &Sexp) -> Option<Option<Timestamp>> {
    if s.as_atom()? == "none" {
        return Some(None);
    }
    Some(Some(ts(s.as_u128()?)?))
}

fn leak<T>(v: T) -> &'static T {
    Box::leak(Box::new(v))
}

fn build_f(s: &Sexp, c: &mut Counters) -> Option<FNode> {
    match s.as_atom() {
        Some("always") => return Some(FNode::Always(filter::always())),
        Some("empty") => return Some(FNode::Empty(Empty)),
        Some(_) => return None,
        None => {}
    }
    let (t, a) = s.as_tagged()?;
    Some(match (t, a.len()) {
        ("leaf", 1) => {
            let p = pred(&a[0])?;
            let idx = c.f;
            c.f += 1;
            FNode::Leaf(LeafF { idx, pred: p })
        }
        ("fnleaf", 1) => {
            let p = pred(&a[0])?;
            let idx = c.f;
            c.f += 1;
            FNode::FnLeaf(fn_leaf_f(idx, p))
        }
        ("and", 2) => {
            let l = build_f(&a[0], c)?;
            let r = build_f(&a[1], c)?;
            FNode::And(Box::new(l.and_when(r)))
        }
        ("or", 2) => {
            let l = build_f(&a[0], c)?;
            let r = build_f(&a[1], c)?;
            FNode::Or(Box::new(l.or_when(r)))
        }
        ("none", 0) => FNode::Opt(Box::new(None)),
        ("some", 1) => FNode::Opt(Box::new(Some(build_f(&a[0], c)?))),
        ("ref", 1) => FNode::Ref(leak(build_f(&a[0], c)?)),
        ("boxed", 1) => FNode::Boxed(Box::new(build_f(&a[0], c)?)),
        ("shared", 1) => FNode::Shared(Arc::new(build_f(&a[0], c)?)),
        ("dynbox", 1) => FNode::DynBox(Box::new(build_f(&a[0], c)?)),
        ("dynarc", 1) => FNode::DynArc(Arc::new(build_f(&a[0], c)?)),
        ("dynref", 1) => FNode::DynRef(leak(build_f(&a[0], c)?)),
        ("internal", 1) => FNode::Internal(Box::new(AssertInternal(build_f(&a[0], c)?))),
        // library leaves take a leaf number (so that both sides number alike) but never record
        ("minlvl", 2) => {
            c.f += 1;
            FNode::MinLvl(min_filter(&a[0], &a[1])?)
        }
        ("pathmap", _) => {
            c.f += 1;
            let mut map = emit::level::MinLevelPathMap::new();
            for r in a {
                let (t, ra) = r.as_tagged()?;
                match (t, ra.len()) {
                    ("d", 2) => map.default_min_level(min_filter(&ra[0], &ra[1])?),
                    ("p", 3) => map.min_level(Path::new_owned_raw(ra[0].as_string()?), min_filter(&ra[1], &ra[2])?),
                    _ => return None,
                };
            }
            FNode::PathMap(map)
        }
        ("kind", 1) => {
            c.f += 1;
            FNode::Kind(match kind(&a[0])? {
                emit::Kind::Span => emit::kind::is_span_filter(),
                _ => emit::kind::is_metric_filter(),
            })
        }
        ("kindnew", 1) => {
            c.f += 1;
            FNode::Kind(emit::kind::KindFilter::new(kind(&a[0])?))
        }
        _ => return None,
    })
}

fn build_e(s: &Sexp, c: &mut Counters) -> Option<ENode> {
    match s.as_atom() {
        Some("fnleaf") => {
            let idx = c.e;
            c.e += 1;
            return Some(ENode::FnLeaf(fn_leaf_e(idx)));
        }
        Some("empty") => return Some(ENode::Empty(Empty)),
        Some(_) => return None,
        None => {}
    }
    let (t, a) = s.as_tagged()?;
    Some(match (t, a.len()) {
        ("leaf", 1) => {
            let fl = flush_b(&a[0])?;
            let idx = c.e;
            c.e += 1;
            ENode::Leaf(LeafE { idx, fl })
        }
        ("and", 2) => {
            let l = build_e(&a[0], c)?;
            let r = build_e(&a[1], c)?;
            ENode::And(Box::new(l.and_to(r)))
        }
        ("none", 0) => ENode::Opt(Box::new(None)),
        ("some", 1) => ENode::Opt(Box::new(Some(build_e(&a[0], c)?))),
        ("wrapf", 2) => {
            let f = build_f(&a[0], c)?;
            let e = build_e(&a[1], c)?;
            ENode::WrapF(Box::new(e.wrap_emitter(wrapping::from_filter(f))))
        }
        ("wrapfdyn", 2) => {
            let f = build_f(&a[0], c)?;
            let e = build_e(&a[1], c)?;
            let w: &'static DynW = Box::leak(Box::new(wrapping::from_filter(f)) as Box<DynW>);
            ENode::WrapDyn(Box::new(emitter::wrap(e, w)))
        }
        ("wrapm", 2) => {
            let g = map_f(&a[0])?;
            let e = build_e(&a[1], c)?;
            ENode::WrapM(Box::new(e.wrap_emitter(wrapping::from_fn(map_fn(g)))))
        }
        ("wrapmdyn", 2) => {
            let g = map_f(&a[0])?;
            let e = build_e(&a[1], c)?;
            let w: &'static DynW = Box::leak(Box::new(wrapping::from_fn(map_fn(g))) as Box<DynW>);
            ENode::WrapDyn(Box::new(emitter::wrap(e, w)))
        }
        ("ref", 1) => ENode::Ref(leak(build_e(&a[0], c)?)),
        ("boxed", 1) => ENode::Boxed(Box::new(build_e(&a[0], c)?)),
        ("shared", 1) => ENode::Shared(Arc::new(build_e(&a[0], c)?)),
        ("dynbox", 1) => ENode::DynBox(Box::new(build_e(&a[0], c)?)),
        ("dynarc", 1) => ENode::DynArc(Arc::new(build_e(&a[0], c)?)),
        ("dynref", 1) => ENode::DynRef(leak(build_e(&a[0], c)?)),
        ("internal", 1) => ENode::Internal(Box::new(AssertInternal(build_e(&a[0], c)?))),
        ("rt", 4) | ("slot", 4) => {
            let f = build_f(&a[0], c)?;
            let am = amb(&a[1])?;
            let ck = clk(&a[2])?;
            let e = build_e(&a[3], c)?;
            let rt = Runtime::build(e, f, TestCtxt(PropList(am)), TestClock(ck), Empty);
            if t == "rt" {
                ENode::Rt(Box::new(rt))
            } else {
                let slot = AmbientSlot::new();
                slot.init(rt)?;
                ENode::Slot(Box::new(slot))
            }
        }
        _ => return None,
    })
}

#[derive(Clone, Debug)]
enum Entry {
    Core,
    Rt,
    RtEmit,
    RtDyn,
    Hook(usize),
    HookEvt(Option<String>, usize),
    Macro(usize),
    /// `emit::debug!/info!/warn!/error!` call site of fixture `n`
    LvlMacro(Level, usize),
    /// `emit::evt!/debug_evt!/…/error_evt!` of fixture `n`, then `emit::emit!(evt: e)` (see `sites::EvtVia`)
    EvtMacro(Option<Level>, usize, sites::EvtVia),
    /// a span macro call site: form, level, whether `mdl:` is given
    SpanMacro(sites::SpanForm, Option<Level>, bool),
}

fn opt_level(s: &Sexp) -> Option<Option<Level>> {
    if s.as_atom()? == "plain" {
        Some(None)
    } else {
        level(s).map(Some)
    }
}

fn entry(s: &Sexp) -> Option<Entry> {
    match s.as_atom() {
        Some("core") => return Some(Entry::Core),
        Some("rt") => return Some(Entry::Rt),
        Some("rtemit") => return Some(Entry::RtEmit),
        Some("rtdyn") => return Some(Entry::RtDyn),
        Some(_) => return None,
        None => {}
    }
    let (t, a) = s.as_tagged()?;
    match (t, a.len()) {
        ("hook", 1) => Some(Entry::Hook(a[0].as_usize()?)),
        ("hookevt", 2) => {
            let tpl = if a[0].as_atom() == Some("none") { None } else { Some(a[0].as_string()?) };
            Some(Entry::HookEvt(tpl, a[1].as_usize()?))
        }
        ("macro", 1) => Some(Entry::Macro(a[0].as_usize()?)),
        ("lvlmacro", 2) => Some(Entry::LvlMacro(level(&a[0])?, a[1].as_usize()?)),
        ("evtmacro", 3) => {
            let via = match a[2].as_atom() {
                Some("plain") => sites::EvtVia::Plain,
                Some("tpl") => sites::EvtVia::Tpl,
                Some(_) => return None,
                None => match a[2].as_tagged()? {
                    ("lvl", [l]) => sites::EvtVia::Lvl(level(l)?),
                    _ => return None,
                },
            };
            Some(Entry::EvtMacro(opt_level(&a[0])?, a[1].as_usize()?, via))
        }
        ("spanmacro", 3) => {
            let form = match a[0].as_atom()? {
                "attr" => sites::SpanForm::Attr,
                "new" => sites::SpanForm::New,
                _ => return None,
            };
            let with_mdl = match a[2].as_atom()? {
                "mdl" => true,
                "nomdl" => false,
                _ => return None,
            };
            Some(Entry::SpanMacro(form, opt_level(&a[1])?, with_mdl))
        }
        _ => None,
    }
}

pub struct OwnEvt {
    mdl: String,
    tpl: String,
    extent: Option<Extent>,
    props: Vec<KV>,
}

fn own_evt(s: &Sexp) -> Option<OwnEvt> {
    let (t, a) = s.as_tagged()?;
    if t != "evt" || a.len() != 4 {
        return None;
    }
    let (pt, ps) = a[3].as_tagged()?;
    if pt != "props" {
        return None;
    }
    Some(OwnEvt {
        mdl: a[0].as_string()?,
        tpl: a[1].as_string()?,
        extent: ext(&a[2])?,
        props: ps.iter().map(kv).collect::<Option<Vec<_>>>()?,
    })
}

fn timeout(s: &Sexp) -> Option<Duration> {
    let n = s.as_u128()?;
    let secs = u64::try_from(n / 1_000_000_000).ok()?;
    Some(Duration::new(secs, (n % 1_000_000_000) as u32))
}

/// Everything of a case except the runtime's filter and emitter.
struct Rest {
    rt_kind: String,
    entry: Entry,
    amb: Vec<KV>,
    clk: Option<Timestamp>,
    when: Option<FNode>,
    evt: OwnEvt,
    timeout: Duration,
}

/// `(c01 VIA F E AMB CLK WHEN EVT T)`; `fe` builds the runtime's filter and emitter from the F and E fields.
fn parse_case<TF, TE>(
    s: &Sexp,
    fe: impl FnOnce(&Sexp, &Sexp, &mut Counters) -> Option<(TF, TE)>,
) -> Option<(TF, TE, Rest)> {
    let (tag, a) = s.as_tagged()?;
    if tag != "c01" || a.len() != 8 {
        return None;
    }
    let (vt, va) = a[0].as_tagged()?;
    if vt != "via" || va.len() != 2 {
        return None;
    }
    let rt_kind = va[0].as_atom()?.to_string();
    if !["gen", "slot", "setup", "initrt"].contains(&rt_kind.as_str()) {
        return None;
    }
    let entry = entry(&va[1])?;
    let mut c = Counters::default();
    let (f, e) = fe(&a[1], &a[2], &mut c)?;
    let am = amb(&a[3])?;
    let ck = clk(&a[4])?;
    let when = if a[5].as_atom() == Some("nowhen") {
        None
    } else {
        let (wt, wa) = a[5].as_tagged()?;
        if wt != "when" || wa.len() != 1 {
            return None;
        }
        Some(build_f(&wa[0], &mut c)?)
    };
    // a call-site filter exists only at the macro hooks
    if when.is_some() && matches!(entry, Entry::Core | Entry::Rt | Entry::RtEmit | Entry::RtDyn) {
        return None;
    }
    let evt = own_evt(&a[6])?;
    let timeout = timeout(&a[7])?;
    Some((f, e, Rest { rt_kind, entry, amb: am, clk: ck, when, evt, timeout }))
}

// ================================================================== macro call-site fixtures

struct MacroFixture {
    tpl: &'static str,
    props: fn() -> Vec<KV>,
}

fn macro_fixtures() -> Vec<MacroFixture> {
    vec![
        MacroFixture { tpl: "fx0", props: || vec![] },
        MacroFixture { tpl: "fx1 {a}", props: || vec![("a".into(), V::I(1))] },
        MacroFixture { tpl: "fx2 {b} and {a}", props: || vec![("a".into(), V::I(-7)), ("b".into(), V::S("bee".into()))] },
        MacroFixture {
            tpl: "fx3",
            props: || vec![("a".into(), V::S("s".into())), ("n".into(), V::I(0)), ("z".into(), V::I(5))],
        },
    ]
}

/// Run `emit::emit!` call site `n`. Returns false when the case does not fit the fixture.
fn macro_emit<E: Emitter, F: Filter, C: Ctxt, T: Clock, R: emit::Rng>(
    rt: &Runtime<E, F, C, T, R>,
    n: usize,
    when: Option<&FNode>,
    own: &OwnEvt,
) -> bool {
    let fx = macro_fixtures();
    let Some(fx) = fx.get(n) else { return false };
    let fp = (fx.props)();
    if own.tpl != fx.tpl || own.props.len() < fp.len() || own.props[..fp.len()] != fp[..] {
        return false;
    }
    let base: &[KV] = &own.props[fp.len()..];
    let mdl = Path::new_ref_raw(&own.mdl);
    let extent = own.extent.clone();
    match (n, when) {
        (0, None) => emit::emit!(rt: *rt, mdl: mdl, extent: extent, props: base, "fx0"),
        (0, Some(w)) => emit::emit!(rt: *rt, when: w, mdl: mdl, extent: extent, props: base, "fx0"),
        (1, None) => emit::emit!(rt: *rt, mdl: mdl, extent: extent, props: base, "fx1 {a}", a: 1),
        (1, Some(w)) => emit::emit!(rt: *rt, when: w, mdl: mdl, extent: extent, props: base, "fx1 {a}", a: 1),
        (2, None) => emit::emit!(rt: *rt, mdl: mdl, extent: extent, props: base, "fx2 {b} and {a}", a: -7, b: "bee"),
        (2, Some(w)) => {
            emit::emit!(rt: *rt, when: w, mdl: mdl, extent: extent, props: base, "fx2 {b} and {a}", a: -7, b: "bee")
        }
        (3, None) => emit::emit!(rt: *rt, mdl: mdl, extent: extent, props: base, "fx3", a: "s", n: 0, z: 5),
        (3, Some(w)) => emit::emit!(rt: *rt, when: w, mdl: mdl, extent: extent, props: base, "fx3", a: "s", n: 0, z: 5),
        _ => return false,
    }
    true
}

// ================================================================== observing a runtime

/// All observations of one case on one runtime value (generic in every component, so the same code
/// runs on the adapter nodes, on statically typed fixtures and on the erased `AmbientRuntime`).
fn observe<E: Emitter, F: Filter, C: Ctxt, T: Clock, R: emit::Rng>(
    rt: &Runtime<E, F, C, T, R>,
    rest: &Rest,
    flush_via_init: Option<&dyn Fn(Duration) -> bool>,
) -> Option<String> {
    let own = &rest.evt;
    let mut fails: Vec<String> = Vec::new();
    let evt = Event::new(Path::new_ref_raw(&own.mdl), Template::literal_ref(&own.tpl), own.extent.clone(), &own.props[..]);
    take_log();

    // 1. the runtime's filter alone, generic and type-erased
    let fv = rt.filter().matches(&evt);
    let fv_log = take_log();
    let fv_out = format!("{}[{}]", fv, render_ids(&fv_log));
    {
        let erased: &dyn ErasedFilter = rt.filter();
        let r2 = erased.matches(&evt);
        let l2 = take_log();
        let out2 = format!("{}[{}]", r2, render_ids(&l2));
        if out2 != fv_out || render_log(&l2) != render_log(&fv_log) {
            fails.push(format!("erased-filter-differs({})", out2));
        }
    }

    // 2. the call-site filter alone
    let wv_out = match &rest.when {
        Some(w) => {
            let r = w.matches(&evt);
            let l = take_log();
            format!("{}[{}]", r, render_ids(&l))
        }
        None => "-".to_string(),
    };

    // 3. emission through the chosen entry point
    let when = rest.when.as_ref();
    match &rest.entry {
        Entry::Core => emit_core::emit(rt.emitter(), rt.filter(), rt.ctxt(), rt.clock(), &evt),
        Entry::Rt => rt.emit(&evt),
        Entry::RtEmit => <Runtime<E, F, C, T, R> as Emitter>::emit(rt, &evt),
        Entry::RtDyn => {
            let d: &dyn ErasedEmitter = rt;
            d.emit(&evt)
        }
        Entry::Hook(k) => {
            let k = (*k).min(own.props.len());
            emit::__private::__private_emit(
                rt,
                &Path::new_ref_raw(&own.mdl),
                when,
                &own.extent,
                &Template::literal_ref(&own.tpl),
                &own.props[k..],
                &own.props[..k],
            )
        }
        Entry::HookEvt(tpl, k) => {
            let k = (*k).min(own.props.len());
            let inner = Event::new(
                Path::new_ref_raw(&own.mdl),
                Template::literal_ref(&own.tpl),
                own.extent.clone(),
                &own.props[k..],
            );
            let tpl = tpl.as_ref().map(|t| Template::literal_ref(t));
            emit::__private::__private_emit_event(rt, when, &inner, tpl.as_ref(), &own.props[..k])
        }
        Entry::Macro(n) => {
            if !macro_emit(rt, *n, when, own) {
                return None;
            }
        }
        Entry::LvlMacro(l, n) => sites::lvl_macro_emit(rt, *l, *n, when, own)?,
        Entry::EvtMacro(l, n, via) => sites::evt_macro_emit(rt, *l, *n, via, when, own)?,
        Entry::SpanMacro(form, l, with_mdl) => sites::span_macro(rt, *form, *l, *with_mdl, when, own)?,
    }
    let emit_log = take_log();
    // a span fixture makes two emissions: the body's marker and the span's completion
    let emissions = if matches!(rest.entry, Entry::SpanMacro(..)) { 2 } else { 1 };
    if delivered_more_than(&emit_log, emissions) {
        fails.push("leaf-received-twice(emit)".into());
    }

    // 4. straight to the emitter, generic and type-erased
    rt.emitter().emit(&evt);
    let direct_log = take_log();
    if delivered_twice(&direct_log) {
        fails.push("leaf-received-twice(direct)".into());
    }
    {
        let erased: &dyn ErasedEmitter = rt.emitter();
        erased.emit(&evt);
        let l2 = take_log();
        if render_log(&l2) != render_log(&direct_log) {
            fails.push(format!("erased-emitter-differs({})", render_log(&l2)));
        }
    }

    // 5. flushing
    let fl = match (&rest.entry, flush_via_init) {
        (_, Some(f)) => f(rest.timeout),
        (Entry::RtEmit, _) => <Runtime<E, F, C, T, R> as Emitter>::blocking_flush(rt, rest.timeout),
        (Entry::RtDyn, _) => {
            let d: &dyn ErasedEmitter = rt;
            d.blocking_flush(rest.timeout)
        }
        _ => rt.emitter().blocking_flush(rest.timeout),
    };
    let fl_log = take_log();

    let out = format!(
        "fv={} wv={} emit={} direct={} flush={}",
        fv_out,
        wv_out,
        render_log(&emit_log),
        render_log(&direct_log),
        render_flush(fl, &fl_log)
    );
    Some(if fails.is_empty() { out } else { format!("{}\tFAIL:{}", out, fails.join("+")) })
}

/// Hold the runtime as the case says (generic value / `AmbientSlot` / `Setup::init_slot`) and observe it.
fn run_with<TE, TF>(e: TE, f: TF, rest: &Rest) -> Option<String>
where
    TE: Emitter + Send + Sync + 'static,
    TF: Filter + Send + Sync + 'static,
{
    let ctxt = TestCtxt(PropList(rest.amb.clone()));
    let clock = TestClock(rest.clk);
    match rest.rt_kind.as_str() {
        "gen" => {
            let rt = Runtime::build(e, f, ctxt, clock, ConstRng);
            observe(&rt, rest, None)
        }
        "slot" => {
            let slot = AmbientSlot::new();
            slot.init(Runtime::build(e, f, ctxt, clock, ConstRng))?;
            observe(slot.get(), rest, None)
        }
        // `Setup::init_runtime()`: the builder's components as a standalone generic runtime
        "initrt" => {
            let rt = emit::setup().emit_to(e).emit_when(f).with_ctxt(ctxt).with_clock(clock).with_rng(ConstRng).init_runtime();
            observe(&rt, rest, None)
        }
        "setup" => {
            let slot = AmbientSlot::new();
            let init =
                emit::setup().emit_to(e).emit_when(f).with_ctxt(ctxt).with_clock(clock).with_rng(ConstRng).try_init_slot(&slot)?;
            let flush = |t: Duration| init.blocking_flush(t);
            observe(init.get(), rest, Some(&flush))
        }
        _ => None,
    }
}

/// `Setup::try_init_slot` on a finished builder, then the observations on the slot's erased runtime.
fn finish_setup<TE, TF>(
    setup: emit::Setup<TE, TF, TestCtxt, TestClock, ConstRng>,
    rest: &Rest,
) -> Option<String>
where
    TE: Emitter + Send + Sync + 'static,
    TF: Filter + Send + Sync + 'static,
{
    let slot = AmbientSlot::new();
    let init = setup.try_init_slot(&slot)?;
    let flush = |t: Duration| init.blocking_flush(t);
    observe(init.get(), rest, Some(&flush))
}

fn split_and(s: &Sexp) -> Option<(&Sexp, &Sexp)> {
    match s.as_tagged()? {
        ("and", [a, b]) => Some((a, b)),
        _ => None,
    }
}

fn run_c01(line: &str) -> String {
    (|| -> Option<String> {
        let s = Sexp::parse(line)?;
        // a top-level `and` of a runtime built by `emit::setup()` is composed by the builder itself:
        // emit_to(a).and_emit_to(b) / emit_when(a).and_emit_when(b) (src/setup.rs:152-230)
        let ((fa, fb), (ea, eb), rest) = parse_case(&s, |fs, es, c| {
            let by_setup = s.as_tagged()?.1.first()?.as_tagged()?.1.first()?.as_atom()? == "setup";
            let f = match split_and(fs) {
                Some((a, b)) if by_setup => {
                    let a = build_f(a, c)?;
                    (a, Some(build_f(b, c)?))
                }
                _ => (build_f(fs, c)?, None),
            };
            let e = match split_and(es) {
                Some((a, b)) if by_setup => {
                    let a = build_e(a, c)?;
                    (a, Some(build_e(b, c)?))
                }
                _ => (build_e(es, c)?, None),
            };
            Some((f, e))
        })?;
        if rest.rt_kind != "setup" {
            return run_with(ea, fa, &rest);
        }
        let base =
            emit::setup().with_ctxt(TestCtxt(PropList(rest.amb.clone()))).with_clock(TestClock(rest.clk)).with_rng(ConstRng);
        match (fb, eb) {
            (None, None) => finish_setup(base.emit_to(ea).emit_when(fa), &rest),
            (Some(fb), None) => finish_setup(base.emit_to(ea).emit_when(fa).and_emit_when(fb), &rest),
            (None, Some(eb)) => finish_setup(base.emit_to(ea).and_emit_to(eb).emit_when(fa), &rest),
            (Some(fb), Some(eb)) => {
                finish_setup(base.emit_to(ea).and_emit_to(eb).emit_when(fa).and_emit_when(fb), &rest)
            }
        }
    })()
    .unwrap_or_else(|| "bad-case".into())
}

// ================================================================== statically typed fixtures

fn lf(idx: usize, pred: Pred) -> LeafF {
    LeafF { idx, pred }
}
fn le(idx: usize, fl: FlushB) -> LeafE {
    LeafE { idx, fl }
}
fn hk(k: &str) -> Pred {
    Pred::HasKey(k.into())
}
fn ki(k: &str, i: i64) -> Pred {
    Pred::KeyIs(k.into(), V::I(i))
}
fn md(m: &str) -> Pred {
    Pred::Mdl(m.into())
}
fn hx(s: &str) -> String {
    format!("x{}", hex(s.as_bytes()))
}

/// Function-pointer leaves (`impl Filter for fn(Event<&dyn ErasedProps>) -> bool`, `impl Emitter for fn(…)`);
/// a plain `fn` cannot capture its leaf number, so these are tied to fixture 20.
fn fp_f0(evt: Event<&dyn ErasedProps>) -> bool {
    record(Ob::F(0, render_event(&evt)));
    hk("a").holds(&evt)
}
fn fp_e1(evt: Event<&dyn ErasedProps>) {
    record(Ob::E(1, render_event(&evt)));
}

/// Number of statically typed fixtures.
const N_STATIC: usize = 27;

/// The description (F, E fields of the case line) of fixture `n`, or — with `Some(rest)` — its execution.
/// The types below are fully static: no adapter node, no narrowing; the generic impls are instantiated at the
/// nested types themselves.
fn static_fixture(n: usize, run: Option<&Rest>) -> Option<(String, String, Option<String>)> {
    macro_rules! fixture {
        ($fd:expr, $ed:expr, $f:expr, $e:expr) => {{
            let fd: String = $fd;
            let ed: String = $ed;
            let out = match run {
                Some(rest) => Some(run_with($e, $f, rest)?),
                None => None,
            };
            Some((fd, ed, out))
        }};
    }
    let a = hx("a");
    let b = hx("b");
    let amb_k = hx("amb");
    let m = hx("m");
    match n {
        0 => fixture!(
            format!("(and (leaf (haskey {a})) (or (leaf (const false)) (some (leaf (extent point)))))"),
            "(and (leaf (ge 10)) fnleaf)".into(),
            lf(0, hk("a")).and_when(lf(1, Pred::Const(false)).or_when(Some(lf(2, Pred::ExtentKind(1))))),
            le(0, FlushB::Ge(10)).and_to(fn_leaf_e(1))
        ),
        1 => fixture!(
            format!("(or (and (leaf (mdl {m})) (and (leaf (haskey {amb_k})) (leaf (propsge 2)))) (leaf (extent range)))"),
            "(and (and (leaf true) (leaf false)) (and (leaf (ge 3)) (some (leaf true))))".into(),
            lf(0, md("m")).and_when(lf(1, hk("amb")).and_when(lf(2, Pred::PropsGe(2)))).or_when(lf(3, Pred::ExtentKind(2))),
            le(0, FlushB::Always(true))
                .and_to(le(1, FlushB::Always(false)))
                .and_to(le(2, FlushB::Ge(3)).and_to(Some(le(3, FlushB::Always(true)))))
        ),
        2 => fixture!(
            format!("(dynbox (and (boxed (leaf (haskey {a}))) (shared (or (none) (leaf (const true))))))"),
            format!("(dynbox (and (boxed (leaf true)) (shared (wrapf (leaf (haskey {b})) (leaf (ge 1))))))"),
            Box::new(Box::new(lf(0, hk("a"))).and_when(Arc::new(None::<LeafF>.or_when(lf(1, Pred::Const(true))))))
                as Box<DynF>,
            Box::new(
                Box::new(le(0, FlushB::Always(true)))
                    .and_to(Arc::new(le(1, FlushB::Ge(1)).wrap_emitter(wrapping::from_filter(lf(2, hk("b"))))))
            ) as Box<DynE>
        ),
        3 => fixture!(
            format!("(internal (or (leaf (keyis {a} (i 1))) (and always (leaf (haskey {amb_k})))))"),
            format!("(internal (wrapm (addprop {b} (i 9)) (and (leaf true) (wrapm (prepend {a} (i 0)) fnleaf))))"),
            AssertInternal(lf(0, ki("a", 1)).or_when(filter::always().and_when(lf(1, hk("amb"))))),
            AssertInternal(
                le(0, FlushB::Always(true))
                    .and_to(fn_leaf_e(1).wrap_emitter(wrapping::from_fn(map_fn(MapF::Prepend("a".into(), V::I(0))))))
                    .wrap_emitter(wrapping::from_fn(map_fn(MapF::AddProp("b".into(), V::I(9)))))
            )
        ),
        4 => fixture!(
            format!("(some (some (and (leaf (extent none)) (leaf (haskey {a})))))"),
            "(some (some (and (none) (leaf (ge 100)))))".into(),
            Some(Some(lf(0, Pred::ExtentKind(0)).and_when(lf(1, hk("a"))))),
            Some(Some(None::<LeafE>.and_to(le(0, FlushB::Ge(100)))))
        ),
        5 => fixture!(
            format!("(ref (or (ref (leaf (mdl {m}))) (ref (leaf (const true)))))"),
            "(ref (and (ref (leaf false)) (ref fnleaf)))".into(),
            leak(leak(lf(0, md("m"))).or_when(leak(lf(1, Pred::Const(true))))),
            leak(leak(le(0, FlushB::Always(false))).and_to(leak(fn_leaf_e(1))))
        ),
        6 => fixture!(
            format!("(fnleaf (haskey {amb_k}))"),
            format!("(wrapf (and (leaf (extent point)) (fnleaf (haskey {amb_k}))) (wrapf (leaf (const true)) (leaf true)))"),
            fn_leaf_f(0, hk("amb")),
            le(0, FlushB::Always(true))
                .wrap_emitter(wrapping::from_filter(lf(3, Pred::Const(true))))
                .wrap_emitter(wrapping::from_filter(lf(1, Pred::ExtentKind(1)).and_when(fn_leaf_f(2, hk("amb")))))
        ),
        7 => fixture!(
            "empty".into(),
            format!("(rt (leaf (haskey {amb_k})) (amb ({b} (i 2))) 99 (and (leaf true) (rt empty (amb) none fnleaf)))"),
            Empty,
            Runtime::build(
                le(0, FlushB::Always(true)).and_to(Runtime::build(
                    fn_leaf_e(1),
                    Empty,
                    TestCtxt(PropList(vec![])),
                    TestClock(None),
                    Empty
                )),
                lf(0, hk("amb")),
                TestCtxt(PropList(vec![("b".into(), V::I(2))])),
                TestClock(ts(99)),
                Empty
            )
        ),
        8 => fixture!(
            format!("(and (and (and (leaf (const true)) (leaf (haskey {a}))) (leaf (haskey {b}))) (leaf (propsge 3)))"),
            "(and (and (and (leaf (ge 1)) (leaf (ge 1))) (leaf (ge 2))) (leaf (ge 4)))".into(),
            lf(0, Pred::Const(true)).and_when(lf(1, hk("a"))).and_when(lf(2, hk("b"))).and_when(lf(3, Pred::PropsGe(3))),
            le(0, FlushB::Ge(1)).and_to(le(1, FlushB::Ge(1))).and_to(le(2, FlushB::Ge(2))).and_to(le(3, FlushB::Ge(4)))
        ),
        9 => fixture!(
            format!("(or (or (or (leaf (const false)) (leaf (haskey {a}))) (leaf (haskey {b}))) (leaf (extent range)))"),
            "(and (leaf true) (and (leaf true) (and (leaf true) (and (leaf (ge 1)) empty))))".into(),
            lf(0, Pred::Const(false)).or_when(lf(1, hk("a"))).or_when(lf(2, hk("b"))).or_when(lf(3, Pred::ExtentKind(2))),
            le(0, FlushB::Always(true)).and_to(
                le(1, FlushB::Always(true)).and_to(le(2, FlushB::Always(true)).and_to(le(3, FlushB::Ge(1)).and_to(Empty)))
            )
        ),
        10 => fixture!(
            format!("(shared (dynarc (and (leaf (haskey {a})) (dynref (leaf (haskey {amb_k}))))))"),
            "(shared (dynarc (and (leaf true) (dynref (leaf (ge 5))))))".into(),
            Arc::new(Arc::new(lf(0, hk("a")).and_when(leak(lf(1, hk("amb"))) as &'static DynF)) as Arc<DynF>),
            Arc::new(Arc::new(le(0, FlushB::Always(true)).and_to(leak(le(1, FlushB::Ge(5))) as &'static DynE)) as Arc<DynE>)
        ),
        11 => fixture!(
            format!("(and (none) (and (some (leaf (haskey {a}))) (none)))"),
            format!("(wrapfdyn (leaf (haskey {a})) (wrapmdyn (settpl {}) (leaf true)))", hx("T")),
            None::<Empty>.and_when(Some(lf(0, hk("a"))).and_when(None::<filter::Always>)),
            emitter::wrap(
                emitter::wrap(
                    le(0, FlushB::Always(true)),
                    Box::leak(Box::new(wrapping::from_fn(map_fn(MapF::SetTpl("T".into())))) as Box<DynW>) as &'static DynW
                ),
                Box::leak(Box::new(wrapping::from_filter(lf(1, hk("a")))) as Box<DynW>) as &'static DynW
            )
        ),
        12 => fixture!(
            format!("(boxed (boxed (internal (shared (leaf (keyis {amb_k} (i 1)))))))"),
            "(boxed (boxed (internal (shared (leaf (ge 7))))))".into(),
            Box::new(Box::new(AssertInternal(Arc::new(lf(0, ki("amb", 1)))))),
            Box::new(Box::new(AssertInternal(Arc::new(le(0, FlushB::Ge(7))))))
        ),
        13 => fixture!(
            format!("(or (and (leaf (extent none)) (leaf (extent point))) (or (leaf (extent range)) (leaf (mdl {m}))))"),
            format!("(and (wrapm noextent (leaf true)) (wrapm (setextent (point 5)) (wrapf (leaf (extent point)) (leaf true))))"),
            lf(0, Pred::ExtentKind(0))
                .and_when(lf(1, Pred::ExtentKind(1)))
                .or_when(lf(2, Pred::ExtentKind(2)).or_when(lf(3, md("m")))),
            le(0, FlushB::Always(true)).wrap_emitter(wrapping::from_fn(map_fn(MapF::NoExtent))).and_to(
                le(1, FlushB::Always(true))
                    .wrap_emitter(wrapping::from_filter(lf(4, Pred::ExtentKind(1))))
                    .wrap_emitter(wrapping::from_fn(map_fn(MapF::SetExtent(Extent::point(ts(5)?)))))
            )
        ),
        14 => fixture!(
            "always".into(),
            format!("(slot (leaf (haskey {a})) (amb ({a} (i 1))) none (and (leaf (ge 2)) (leaf (ge 3))))"),
            filter::always(),
            {
                let slot = AmbientSlot::new();
                slot.init(Runtime::build(
                    le(0, FlushB::Ge(2)).and_to(le(1, FlushB::Ge(3))),
                    lf(0, hk("a")),
                    TestCtxt(PropList(vec![("a".into(), V::I(1))])),
                    TestClock(None),
                    Empty,
                ))?;
                SlotEmitter(slot)
            }
        ),
        15 => fixture!(
            format!("(dynref (or (dynbox (leaf (haskey {b}))) (dynarc (and (leaf (haskey {a})) (leaf (haskey {amb_k}))))))"),
            "(dynref (and (dynbox fnleaf) (dynarc (and (leaf (ge 8)) (leaf false)))))".into(),
            leak((Box::new(lf(0, hk("b"))) as Box<DynF>)
                .or_when(Arc::new(lf(1, hk("a")).and_when(lf(2, hk("amb")))) as Arc<DynF>)) as &'static DynF,
            leak((Box::new(fn_leaf_e(0)) as Box<DynE>)
                .and_to(Arc::new(le(1, FlushB::Ge(8)).and_to(le(2, FlushB::Always(false)))) as Arc<DynE>))
                as &'static DynE
        ),
        16 => fixture!(
            format!("(and (or (leaf (haskey {a})) (leaf (haskey {b}))) (or (leaf (haskey {amb_k})) (leaf (extent point))))"),
            format!("(and (wrapf (leaf (haskey {a})) (leaf true)) (wrapf (leaf (haskey {b})) (and (leaf true) (wrapf (leaf (haskey {amb_k})) (leaf true)))))"),
            lf(0, hk("a")).or_when(lf(1, hk("b"))).and_when(lf(2, hk("amb")).or_when(lf(3, Pred::ExtentKind(1)))),
            le(0, FlushB::Always(true)).wrap_emitter(wrapping::from_filter(lf(4, hk("a")))).and_to(
                le(1, FlushB::Always(true))
                    .and_to(le(2, FlushB::Always(true)).wrap_emitter(wrapping::from_filter(lf(6, hk("amb")))))
                    .wrap_emitter(wrapping::from_filter(lf(5, hk("b"))))
            )
        ),
        17 => fixture!(
            format!("(some (boxed (or (some (leaf (const false))) (some (shared (leaf (propsge 1)))))))"),
            format!("(some (boxed (and (some (leaf (ge 1))) (some (shared (wrapm (setmdl {m}) (leaf (ge 1))))))))"),
            Some(Box::new(Some(lf(0, Pred::Const(false))).or_when(Some(Arc::new(lf(1, Pred::PropsGe(1))))))),
            Some(Box::new(Some(le(0, FlushB::Ge(1))).and_to(Some(Arc::new(
                le(1, FlushB::Ge(1)).wrap_emitter(wrapping::from_fn(map_fn(MapF::SetMdl("m".into()))))
            )))))
        ),
        18 => fixture!(
            format!("(and (fnleaf (haskey {a})) (and (fnleaf (haskey {amb_k})) (or (fnleaf (const false)) (fnleaf (extent point)))))"),
            "(and fnleaf (and fnleaf (and fnleaf empty)))".into(),
            fn_leaf_f(0, hk("a"))
                .and_when(fn_leaf_f(1, hk("amb")).and_when(fn_leaf_f(2, Pred::Const(false)).or_when(fn_leaf_f(3, Pred::ExtentKind(1))))),
            fn_leaf_e(0).and_to(fn_leaf_e(1).and_to(fn_leaf_e(2).and_to(Empty)))
        ),
        19 => fixture!(
            format!("(internal (dynbox (ref (shared (boxed (some (and (leaf (haskey {a})) (leaf (haskey {amb_k})))))))))"),
            format!("(internal (dynbox (ref (shared (boxed (some (and (leaf (ge 6)) (rt (leaf (haskey {b})) (amb ({b} (s {}))) 3 (leaf (ge 6))))))))))", hx("v")),
            {
                let inner = Some(lf(0, hk("a")).and_when(lf(1, hk("amb"))));
                AssertInternal(Box::new(leak(Arc::new(Box::new(inner)))) as Box<DynF>)
            },
            {
                let nested = Runtime::build(
                    le(1, FlushB::Ge(6)),
                    lf(2, hk("b")),
                    TestCtxt(PropList(vec![("b".into(), V::S("v".into()))])),
                    TestClock(ts(3)),
                    Empty,
                );
                let inner = Some(le(0, FlushB::Ge(6)).and_to(nested));
                AssertInternal(Box::new(leak(Arc::new(Box::new(inner)))) as Box<DynE>)
            }
        ),
        20 => fixture!(
            format!("(and (fnleaf (haskey {a})) (leaf (haskey {amb_k})))"),
            "(and (leaf (ge 2)) fnleaf)".into(),
            (fp_f0 as fn(Event<&dyn ErasedProps>) -> bool).and_when(lf(1, hk("amb"))),
            le(0, FlushB::Ge(2)).and_to(fp_e1 as fn(Event<&dyn ErasedProps>))
        ),
        21 => fixture!(
            format!("(or (internal (leaf (mdl {m}))) (dynbox (and (leaf (haskey {a})) (none))))"),
            format!("(wrapm (prepend {amb_k} (i 7)) (dynbox (rt (leaf (keyis {amb_k} (i 7))) (amb) none (and fnleaf (leaf (ge 1))))))"),
            AssertInternal(lf(0, md("m"))).or_when(Box::new(lf(1, hk("a")).and_when(None::<LeafF>)) as Box<DynF>),
            (Box::new(Runtime::build(
                fn_leaf_e(0).and_to(le(1, FlushB::Ge(1))),
                lf(2, ki("amb", 7)),
                TestCtxt(PropList(vec![])),
                TestClock(None),
                Empty
            )) as Box<DynE>)
                .wrap_emitter(wrapping::from_fn(map_fn(MapF::Prepend("amb".into(), V::I(7)))))
        ),
        22 => fixture!(
            format!("(and (or (leaf (haskey {a})) (some (or (leaf (haskey {b})) (some (leaf (haskey {amb_k})))))) (shared (dynarc (or (leaf (extent none)) (leaf (extent point))))))"),
            "(and (and (wrapf (leaf (extent range)) (leaf true)) (wrapf (leaf (extent point)) (leaf true))) (wrapf (leaf (extent none)) (leaf true)))".into(),
            lf(0, hk("a"))
                .or_when(Some(lf(1, hk("b")).or_when(Some(lf(2, hk("amb"))))))
                .and_when(Arc::new(Arc::new(lf(3, Pred::ExtentKind(0)).or_when(lf(4, Pred::ExtentKind(1)))) as Arc<DynF>)),
            le(0, FlushB::Always(true))
                .wrap_emitter(wrapping::from_filter(lf(5, Pred::ExtentKind(2))))
                .and_to(le(1, FlushB::Always(true)).wrap_emitter(wrapping::from_filter(lf(6, Pred::ExtentKind(1)))))
                .and_to(le(2, FlushB::Always(true)).wrap_emitter(wrapping::from_filter(lf(7, Pred::ExtentKind(0)))))
        ),
        23 => fixture!(
            "(leaf (propsge 2))".into(),
            format!("(wrapm (addprop {k} (i 1)) (wrapm (addprop {k} (i 2)) (and (wrapm (prepend {k} (i 3)) (leaf (ge 2))) (wrapf (leaf (keyis {k} (i 1))) (wrapm (settpl {z}) fnleaf)))))", k = hx("k"), z = hx("Z")),
            lf(0, Pred::PropsGe(2)),
            le(0, FlushB::Ge(2))
                .wrap_emitter(wrapping::from_fn(map_fn(MapF::Prepend("k".into(), V::I(3)))))
                .and_to(
                    fn_leaf_e(1)
                        .wrap_emitter(wrapping::from_fn(map_fn(MapF::SetTpl("Z".into()))))
                        .wrap_emitter(wrapping::from_filter(lf(1, ki("k", 1))))
                )
                .wrap_emitter(wrapping::from_fn(map_fn(MapF::AddProp("k".into(), V::I(2)))))
                .wrap_emitter(wrapping::from_fn(map_fn(MapF::AddProp("k".into(), V::I(1)))))
        ),
        // library leaf filters at their own static types (they take a leaf number but record nothing)
        24 => fixture!(
            format!("(and (minlvl warn none) (leaf (haskey {a})))"),
            "(and (leaf true) (wrapf (kind span) (leaf (ge 1))))".into(),
            emit::level::min_filter(Level::Warn).and_when(lf(1, hk("a"))),
            le(0, FlushB::Always(true))
                .and_to(le(1, FlushB::Ge(1)).wrap_emitter(wrapping::from_filter(emit::kind::is_span_filter())))
        ),
        25 => fixture!(
            format!(
                "(or (pathmap (p {m} warn none) (p {mn} debug info) (d error none)) (kindnew metric))",
                mn = hx("m::n")
            ),
            "(dynbox (wrapf (minlvl info error) fnleaf))".into(),
            {
                let mut map = emit::level::min_by_path_filter([
                    (Path::new_raw("m"), emit::level::min_filter(Level::Warn)),
                    (Path::new_raw("m::n"), emit::level::min_filter(Level::Debug).treat_unleveled_as(Level::Info)),
                ]);
                map.default_min_level(emit::level::min_filter(Level::Error));
                map.or_when(emit::kind::KindFilter::new(emit::Kind::Metric))
            },
            Box::new(fn_leaf_e(0).wrap_emitter(wrapping::from_filter(
                emit::level::min_filter(Level::Info).treat_unleveled_as(Level::Error)
            ))) as Box<DynE>
        ),
        26 => fixture!(
            "(internal (minlvl info none))".into(),
            "(and fnleaf (rt (kind span) (amb) 4 (leaf true)))".into(),
            AssertInternal(emit::level::min_filter(Level::Info)),
            fn_leaf_e(0).and_to(Runtime::build(
                le(1, FlushB::Always(true)),
                emit::kind::is_span_filter(),
                TestCtxt(PropList(vec![])),
                TestClock(ts(4)),
                Empty
            ))
        ),
        _ => None,
    }
}

/// A statically typed holder of an initialised slot (the adapter's `ENode::Slot` without the enum).
struct SlotEmitter(AmbientSlot);

impl Emitter for SlotEmitter {
    fn emit<E: ToEvent>(&self, evt: E) {
        Emitter::emit(self.0.get(), evt)
    }
    fn blocking_flush(&self, timeout: Duration) -> bool {
        Emitter::blocking_flush(self.0.get(), timeout)
    }
}

fn run_static(line: &str) -> String {
    (|| -> Option<String> {
        let s = Sexp::parse(line)?;
        let (tag, a) = s.as_tagged()?;
        if tag != "static" || a.len() != 2 {
            return None;
        }
        let n = a[0].as_usize()?;
        let (fd, ed, _) = static_fixture(n, None)?;
        // the line must describe exactly this fixture (the model only sees the description)
        let (_, _, rest) = parse_case(&a[1], |fs, es, c| {
            if fs.to_string() != fd || es.to_string() != ed {
                return None;
            }
            // consume the leaf numbers of the fixture's filter and emitter
            build_f(fs, c)?;
            build_e(es, c)?;
            Some(((), ()))
        })?;
        static_fixture(n, Some(&rest))?.2
    })()
    .unwrap_or_else(|| "bad-case".into())
}

// ================================================================== generators

const KEYS: &[&str] = &["a", "b", "c", "lvl", "amb", "k", "lvl", "evt_kind"];
const LEVELS: &[&str] = &["debug", "info", "warn", "error"];
/// paths registered in generated `MinLevelPathMap`s: the modules of MDLS, their parents, a sibling sharing a
/// textual prefix, and the module paths of the call sites without `mdl:`
const REG_PATHS: &[&str] = &[
    "m", "m::n", "x", "app", "app::db", "ap", "m::nn", "hcore", "hcore::streams::c01", "hcore::streams::c01::sites",
    "hcore::streams::c01::sites::sp_warn", "hcore::streams::c01::sites::sp_debug",
];
const MDLS: &[&str] = &["m", "m::n", "x", "app::db"];
const TPLS: &[&str] = &["t", "hello {x}", ""];

fn pk(r: &mut Rng, xs: &[&'static str]) -> &'static str {
    xs[r.usize(xs.len())]
}

fn g_val(r: &mut Rng) -> Sexp {
    if r.chance(2, 3) {
        Sexp::tagged("i", vec![Sexp::num(r.range(0, 3) as i64 - 1)])
    } else {
        Sexp::tagged("s", vec![Sexp::str(pk(r, &["u", "v", "", "é"]))])
    }
}

fn g_kv(r: &mut Rng) -> Sexp {
    let k = pk(r, KEYS);
    let v = match k {
        // what a level filter reads: typed levels, lenient texts, junk, numbers
        "lvl" if r.chance(4, 5) => match r.below(6) {
            0 | 1 | 2 => Sexp::tagged("l", vec![Sexp::atom(pk(r, LEVELS))]),
            3 => Sexp::tagged("s", vec![Sexp::str(pk(r, &["warn", "ERROR", "Information", " dbg ", "err", "wrn(3)", "x", ""]))]),
            4 => Sexp::tagged("d", vec![Sexp::str(pk(r, &["error", "debug", "Warning", "nope"]))]),
            _ => g_val(r),
        },
        // what a kind filter reads
        "evt_kind" if r.chance(4, 5) => {
            Sexp::tagged("s", vec![Sexp::str(pk(r, &["span", "metric", " SPAN ", "Metric", "spanx", "sp", ""]))])
        }
        _ => g_val(r),
    };
    Sexp::list(vec![Sexp::str(k), v])
}

fn g_minf(r: &mut Rng) -> (Sexp, Sexp) {
    let df = if r.chance(1, 3) { Sexp::atom(pk(r, LEVELS)) } else { Sexp::atom("none") };
    (Sexp::atom(pk(r, LEVELS)), df)
}

/// A library leaf filter: `min_filter`, a `MinLevelPathMap`, `is_span_filter` / `is_metric_filter` / `KindFilter::new`.
fn g_lib_filter(r: &mut Rng) -> Sexp {
    match r.below(8) {
        0 | 1 | 2 => {
            let (mn, df) = g_minf(r);
            Sexp::tagged("minlvl", vec![mn, df])
        }
        3 | 4 | 5 => {
            let n = r.below(5);
            let regs = (0..n)
                .map(|_| {
                    let (mn, df) = g_minf(r);
                    if r.chance(1, 6) {
                        Sexp::tagged("d", vec![mn, df])
                    } else {
                        Sexp::tagged("p", vec![Sexp::str(pk(r, REG_PATHS)), mn, df])
                    }
                })
                .collect();
            Sexp::tagged("pathmap", regs)
        }
        6 => Sexp::tagged("kind", vec![Sexp::atom(pk(r, &["span", "metric"]))]),
        _ => Sexp::tagged("kindnew", vec![Sexp::atom(pk(r, &["span", "metric"]))]),
    }
}

fn g_ts(r: &mut Rng) -> u64 {
    match r.below(5) {
        0 => r.below(4),
        1 => 1_000_000_000 * r.range(1, 3),
        2 => r.below(1 << 40),
        3 => r.below(1 << 62),
        _ => r.range(5, 9),
    }
}

fn g_ext(r: &mut Rng) -> Sexp {
    match r.below(4) {
        0 | 1 => Sexp::atom("none"),
        2 => Sexp::tagged("point", vec![Sexp::num(g_ts(r))]),
        _ => {
            let a = g_ts(r);
            let b = if r.chance(1, 4) { a } else { g_ts(r) };
            Sexp::tagged("range", vec![Sexp::num(a), Sexp::num(b)])
        }
    }
}

fn g_pred(r: &mut Rng) -> Sexp {
    match r.below(12) {
        0 => Sexp::tagged("const", vec![Sexp::bool(r.bool())]),
        1 => Sexp::tagged("const", vec![Sexp::bool(true)]),
        2 | 3 => Sexp::tagged("mdl", vec![Sexp::str(pk(r, MDLS))]),
        4 | 5 | 6 => Sexp::tagged("haskey", vec![Sexp::str(pk(r, KEYS))]),
        7 | 8 => Sexp::tagged("keyis", vec![Sexp::str(pk(r, KEYS)), g_val(r)]),
        9 | 10 => Sexp::tagged("extent", vec![Sexp::atom(*r.pick(&["none", "point", "range"]))]),
        _ => Sexp::tagged("propsge", vec![Sexp::num(r.below(6))]),
    }
}

const LAYERS: &[&str] = &["ref", "boxed", "shared", "dynbox", "dynarc", "dynref", "internal"];

/// `lib` = how many leaves in 8 are library filters (level / kind) instead of recording user leaves.
fn g_filter(r: &mut Rng, depth: usize, budget: &mut usize, lib: u64) -> Sexp {
    if depth == 0 || *budget == 0 || r.chance(1, 5) {
        if r.chance(lib, 8) {
            return g_lib_filter(r);
        }
        return match r.below(10) {
            0 => Sexp::atom("always"),
            1 => Sexp::atom("empty"),
            2 => Sexp::list(vec![Sexp::atom("none")]),
            3 | 4 => Sexp::tagged("fnleaf", vec![g_pred(r)]),
            _ => Sexp::tagged("leaf", vec![g_pred(r)]),
        };
    }
    *budget -= 1;
    match r.below(10) {
        0 | 1 | 2 => Sexp::tagged("and", vec![g_filter(r, depth - 1, budget, lib), g_filter(r, depth - 1, budget, lib)]),
        3 | 4 | 5 => Sexp::tagged("or", vec![g_filter(r, depth - 1, budget, lib), g_filter(r, depth - 1, budget, lib)]),
        6 => Sexp::tagged("some", vec![g_filter(r, depth - 1, budget, lib)]),
        _ => Sexp::tagged(pk(r, LAYERS), vec![g_filter(r, depth - 1, budget, lib)]),
    }
}

fn g_flush_b(r: &mut Rng, t: u128) -> Sexp {
    match r.below(6) {
        0 => Sexp::atom("false"),
        1 | 2 => Sexp::atom("true"),
        _ => {
            // a threshold near one of the halvings of the case's timeout
            let base = t >> r.below(5);
            let n = match r.below(3) {
                0 => base,
                1 => base.saturating_add(1),
                _ => base.saturating_sub(1),
            };
            Sexp::tagged("ge", vec![Sexp::num(n)])
        }
    }
}

fn g_map(r: &mut Rng) -> Sexp {
    match r.below(8) {
        0 => Sexp::atom("id"),
        1 | 2 => Sexp::tagged("addprop", vec![Sexp::str(pk(r, KEYS)), g_val(r)]),
        3 | 4 => Sexp::tagged("prepend", vec![Sexp::str(pk(r, KEYS)), g_val(r)]),
        5 => Sexp::tagged("setmdl", vec![Sexp::str(pk(r, MDLS))]),
        6 => {
            if r.bool() {
                Sexp::atom("noextent")
            } else {
                let e = loop {
                    let e = g_ext(r);
                    if e.as_atom() != Some("none") {
                        break e;
                    }
                };
                Sexp::tagged("setextent", vec![e])
            }
        }
        _ => Sexp::tagged("settpl", vec![Sexp::str(pk(r, TPLS))]),
    }
}

fn g_amb(r: &mut Rng) -> Sexp {
    let n = r.below(5);
    Sexp::tagged("amb", (0..n).map(|_| g_kv(r)).collect())
}

fn g_clk(r: &mut Rng) -> Sexp {
    if r.chance(1, 3) {
        Sexp::atom("none")
    } else {
        Sexp::num(g_ts(r))
    }
}

fn g_emitter(r: &mut Rng, depth: usize, budget: &mut usize, t: u128, nested: &mut usize) -> Sexp {
    if depth == 0 || *budget == 0 || r.chance(1, 9) {
        return match r.below(10) {
            0 => Sexp::atom("empty"),
            1 => Sexp::list(vec![Sexp::atom("none")]),
            2 | 3 | 4 => Sexp::atom("fnleaf"),
            _ => Sexp::tagged("leaf", vec![g_flush_b(r, t)]),
        };
    }
    *budget -= 1;
    match r.below(23) {
        20..=22 | 0..=5 => Sexp::tagged(
            "and",
            vec![g_emitter(r, depth - 1, budget, t, nested), g_emitter(r, depth - 1, budget, t, nested)],
        ),
        6 => Sexp::tagged("some", vec![g_emitter(r, depth - 1, budget, t, nested)]),
        7 | 8 | 9 => {
            let mut fb = (*budget).min(4);
            let f = g_filter(r, depth.min(3), &mut fb, 1);
            let tag = if r.chance(1, 3) { "wrapfdyn" } else { "wrapf" };
            Sexp::tagged(tag, vec![f, g_emitter(r, depth - 1, budget, t, nested)])
        }
        10 | 11 | 12 => {
            let tag = if r.chance(1, 3) { "wrapmdyn" } else { "wrapm" };
            Sexp::tagged(tag, vec![g_map(r), g_emitter(r, depth - 1, budget, t, nested)])
        }
        13 if *nested < 2 => {
            *nested += 1;
            let mut fb = (*budget).min(4);
            let f = g_filter(r, depth.min(3), &mut fb, 1);
            let tag = if r.chance(1, 3) { "slot" } else { "rt" };
            Sexp::tagged(tag, vec![f, g_amb(r), g_clk(r), g_emitter(r, depth - 1, budget, t, nested)])
        }
        _ => Sexp::tagged(pk(r, LAYERS), vec![g_emitter(r, depth - 1, budget, t, nested)]),
    }
}

fn g_timeout(r: &mut Rng) -> u128 {
    match r.below(8) {
        0 => 0,
        1 => r.range(1, 9) as u128,
        2 => 1_000_000_000,
        3 => 1_000_000_001,
        4 => r.below(1 << 20) as u128,
        5 => r.next() as u128,
        6 => (u64::MAX as u128) * 1_000_000_000 + 999_999_999,
        _ => (r.next() as u128) * 1_000_000_000 + r.below(1_000_000_000) as u128,
    }
}

fn g_props(r: &mut Rng, prefix: Vec<Sexp>) -> Sexp {
    let n = r.below(7);
    let mut v = vec![Sexp::atom("props")];
    v.extend(prefix);
    for _ in 0..n {
        v.push(g_kv(r));
    }
    Sexp::List(v)
}

fn kv_sexp(kv: &KV) -> Sexp {
    Sexp::list(vec![
        Sexp::str(&kv.0),
        match &kv.1 {
            V::I(i) => Sexp::tagged("i", vec![Sexp::num(*i)]),
            V::S(s) => Sexp::tagged("s", vec![Sexp::str(s)]),
            V::L(l) => Sexp::tagged("l", vec![Sexp::atom(l.to_string())]),
            V::D(s) => Sexp::tagged("d", vec![Sexp::str(&s.0)]),
        },
    ])
}

fn g_lvl_or_plain(r: &mut Rng) -> Sexp {
    if r.chance(1, 5) {
        Sexp::atom("plain")
    } else {
        Sexp::atom(pk(r, LEVELS))
    }
}

/// VIA, WHEN, EVT for a random case, and how many leaves in 8 of the case's filters should be library filters
/// (the level-macro call sites are mostly run against level filters).
fn g_via_when_evt(r: &mut Rng, depth: usize) -> (Sexp, Sexp, Sexp, u64) {
    g_via_when_evt_from(r, depth, 0)
}

/// `first` = the lowest entry-point class drawn (12 = only the level-macro call sites).
fn g_via_when_evt_from(r: &mut Rng, depth: usize, first: u64) -> (Sexp, Sexp, Sexp, u64) {
    let rt_kind = *r.pick(&["gen", "gen", "gen", "slot", "setup", "gen", "slot", "setup", "initrt"]);
    let mut tpl = pk(r, TPLS).to_string();
    let mut prefix = Vec::new();
    let mut mdl = pk(r, MDLS).to_string();
    let mut lib = 1;
    let mut span = false;
    let mut allow_when = true;
    let (entry, hookish) = match first + r.below(18 - first) {
        // the level emit macros, the *_evt! macros + emit!(evt:), the level span macros
        12 | 13 => {
            let fx = macro_fixtures();
            let n = r.usize(fx.len());
            tpl = fx[n].tpl.to_string();
            prefix = (fx[n].props)().iter().map(kv_sexp).collect();
            if n == 1 && r.chance(1, 3) {
                mdl = sites::MODULE.to_string();
            }
            lib = 6;
            (Sexp::tagged("lvlmacro", vec![Sexp::atom(pk(r, LEVELS)), Sexp::num(n)]), true)
        }
        14 | 15 => {
            let fx = macro_fixtures();
            let n = *r.pick(&[0usize, 1, 1, 3]);
            tpl = fx[n].tpl.to_string();
            prefix = (fx[n].props)().iter().map(kv_sexp).collect();
            if n == 1 && r.chance(1, 3) {
                mdl = sites::MODULE.to_string();
            }
            let via = match r.below(4) {
                0 | 1 => Sexp::atom("plain"),
                2 => Sexp::atom("tpl"),
                _ => Sexp::tagged("lvl", vec![Sexp::atom(pk(r, LEVELS))]),
            };
            lib = 6;
            (Sexp::tagged("evtmacro", vec![g_lvl_or_plain(r), Sexp::num(n), via]), true)
        }
        16 | 17 => {
            let lvl = g_lvl_or_plain(r);
            let form = Sexp::atom(pk(r, &["attr", "new"]));
            let with_mdl = r.chance(3, 4);
            if !with_mdl {
                mdl = sites::span_module(level(&lvl));
                allow_when = false;
            }
            span = true;
            lib = 6;
            (Sexp::tagged("spanmacro", vec![form, lvl, Sexp::atom(if with_mdl { "mdl" } else { "nomdl" })]), true)
        }
        0 => (Sexp::atom("core"), false),
        1 | 2 => (Sexp::atom("rt"), false),
        3 => (Sexp::atom("rtemit"), false),
        4 => (Sexp::atom("rtdyn"), false),
        5 | 6 | 7 => (Sexp::tagged("hook", vec![Sexp::num(r.below(5))]), true),
        8 | 9 => {
            let t = if r.bool() { Sexp::atom("none") } else { Sexp::str(pk(r, &["override", ""])) };
            (Sexp::tagged("hookevt", vec![t, Sexp::num(r.below(5))]), true)
        }
        _ => {
            let fx = macro_fixtures();
            let n = r.usize(fx.len());
            tpl = fx[n].tpl.to_string();
            prefix = (fx[n].props)().iter().map(kv_sexp).collect();
            (Sexp::tagged("macro", vec![Sexp::num(n)]), true)
        }
    };
    let when = if hookish && allow_when && r.chance(3, 5) {
        let mut b = 6;
        Sexp::tagged("when", vec![g_filter(r, depth.min(4), &mut b, lib)])
    } else {
        Sexp::atom("nowhen")
    };
    let evt = if span {
        // the span call sites fix the template, the captured property and (a span has none yet) the extent
        let n = Sexp::list(vec![Sexp::str("n"), Sexp::tagged("i", vec![Sexp::num(sites::SPAN_N)])]);
        Sexp::tagged("evt", vec![Sexp::str(&mdl), Sexp::str(sites::SPAN_TPL), Sexp::atom("none"), Sexp::tagged("props", vec![n])])
    } else {
        Sexp::tagged("evt", vec![Sexp::str(&mdl), Sexp::str(&tpl), g_ext(r), g_props(r, prefix)])
    };
    (Sexp::tagged("via", vec![Sexp::atom(rt_kind), entry]), when, evt, lib)
}

fn gen_c01(r: &mut Rng, tier: Tier, n: usize) -> Vec<String> {
    // `Rng::new(seed)` maps neighbouring seeds to shifted copies of one SplitMix64 stream; forking through the
    // output mixer decorrelates them, so different seeds really are different samples
    let r = &mut r.fork();
    let max_depth = if tier == Tier::Thorough { 10 } else { 6 };
    let mut out = Vec::with_capacity(n);
    for i in 0..n {
        let depth = (1 + r.usize(max_depth)).max(1 + r.usize(max_depth));
        let t = g_timeout(r);
        let mut fb = if tier == Tier::Thorough { 40 } else { 14 };
        let mut eb = if tier == Tier::Thorough { 60 } else { 22 };
        // every 10th case has a trivial filter or emitter so that the other side is seen in isolation
        let (via, when, evt, lib) = g_via_when_evt(r, depth);
        let f = if i % 10 == 3 { Sexp::atom("empty") } else { g_filter(r, if lib > 1 { depth.min(3) } else { depth }, &mut fb, lib) };
        let mut nested = 0;
        let e = if i % 10 == 7 { Sexp::tagged("leaf", vec![Sexp::atom("true")]) } else { g_emitter(r, depth, &mut eb, t, &mut nested) };
        out.push(Sexp::tagged("c01", vec![via, f, e, g_amb(r), g_clk(r), when, evt, Sexp::num(t)]).to_string());
    }
    out
}

/// Level-macro call sites only, mostly against level filters, small destinations.
fn gen_c17_macro(r: &mut Rng, _tier: Tier, n: usize) -> Vec<String> {
    let r = &mut r.fork();
    let mut out = Vec::with_capacity(n);
    for _ in 0..n {
        let t = g_timeout(r);
        let (via, when, evt, _) = g_via_when_evt_from(r, 3, 12);
        let mut fb = 6;
        let fd = 1 + r.usize(3);
        let f = g_filter(r, fd, &mut fb, 7);
        let mut eb = 4;
        let mut nested = 2; // no nested runtimes
        let ed = 1 + r.usize(2);
        let e = g_emitter(r, ed, &mut eb, t, &mut nested);
        out.push(Sexp::tagged("c01", vec![via, f, e, g_amb(r), g_clk(r), when, evt, Sexp::num(t)]).to_string());
    }
    out
}

fn gen_static(r: &mut Rng, _tier: Tier, n: usize) -> Vec<String> {
    let r = &mut r.fork();
    let mut out = Vec::with_capacity(n);
    for i in 0..n {
        let k = i % N_STATIC;
        let (fd, ed, _) = static_fixture(k, None).expect("fixture");
        let f = Sexp::parse(&fd).expect("fixture filter description");
        let e = Sexp::parse(&ed).expect("fixture emitter description");
        let t = g_timeout(r);
        let (via, when, evt, _) = g_via_when_evt(r, 4);
        let case = Sexp::tagged("c01", vec![via, f, e, g_amb(r), g_clk(r), when, evt, Sexp::num(t)]);
        out.push(Sexp::tagged("static", vec![Sexp::num(k), case]).to_string());
    }
    out
}
