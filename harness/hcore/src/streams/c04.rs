//! C04 — nested spans always form one consistent trace tree.
//! Drives the REAL span machinery on a private runtime
//! (`Runtime::new().with_emitter(recording).with_filter(scripted).with_ctxt(W(ThreadLocalCtxt::new())).with_rng(scripted)`
//! for the ctxt wrappers W = none, `AssertInternal`, `&`, `Box`, `Arc`, `Option`, `Box<dyn ErasedCtxt>`, `Arc<dyn ErasedCtxt>`,
//! `Arc<dyn ErasedCtxt>` over `AssertInternal`; plus the fully erased runtime of an `AmbientSlot` initialised through
//! `emit::setup()`; the case line names the variant; every call site is generic over the runtime):
//!   * `#[emit::span(rt: *rt, "node", id)]` on a sync fn and on an async fn (two static call sites, driven
//!     recursively by the tree), `emit::new_span!` + `Frame::call` / `Frame::in_future`, and `SpanGuard::new` directly
//!     (with extra user ctxt props) + `Frame::call` / `Frame::in_future`;
//!   * `#[emit::span(.., ok_lvl / err_lvl / err: .., ..)]` on sync and async fns returning `Result` (four more static call
//!     sites) whose bodies end `Ok(())`, with `fail()?` or with `return Err(..)` as scripted: the Ok arm completes through
//!     `__private_complete_span_ok`, the Err arm through `__private_complete_span_err`, both inside the frame;
//!   * the MANUAL span API (kinds `manual`, `amanual`, `manual2`): `SpanCtxt::current(ctxt)`, `new_child(rng)` (or
//!     `new_root(rng)` when nothing is current; `SpanCtxt::empty()` for a span the case marks rejected), `SpanCtxt::push`
//!     for the frame, the body inside `Frame::call` / `Frame::in_future`, and a `Span::new` event emitted through
//!     `Runtime::emit` inside the frame when the body ends (also by unwinding); `manual2` assembles the child by hand:
//!     `TraceId::random`, `Rng::fill` + `SpanId::new`, `TraceId::new`, `SpanCtxt::new`;
//!   * the runtime's rng held as `Some(rng)`, `None`, `Box`, `Arc`, `AssertInternal`, `Box<dyn ErasedRng + Send + Sync>`
//!     (variants `rng*`); the scripted rng CHANGES a reading once it was drawn, so a holder drawing twice shows;
//!   * variant `tp`: the ctxt is `emit_traceparent::TraceparentCtxt<ThreadLocalCtxt>` (cases restricted to the class
//!     on which it shows the same ids, see `tp_class`);
//!   * events through `emit::emit!`, observations through `SpanCtxt::current`;
//!   * bodies carried to another actor thread inside `Frame::current(ctxt).in_fn`, async subtrees wrapped in
//!     `Frame::current(ctxt).in_future` and polled by hand, the k-th poll on a scripted thread; `(yield)` suspends;
//!     `(par ..)` joins sibling branches polled in a scripted interleaving;
//!   * the filter verdict is scripted per node (keyed on the `id` ctxt prop the start event carries), the rng readings
//!     are scripted per node (u128 for the trace id, u64 for the span id; `none` and `0` allowed);
//!   * incoming ids are placed in the context by an outer `Frame::push` as typed `TraceId`/`SpanId`, as `u128`/`u64`,
//!     as hex strings, or malformed.
//!   * `(panic)` panics at that position of a span body (sync paths, or inside a poll of an async path) and unwinds
//!     through the real guards to the nearest `(catch ..)` = `catch_unwind`; what runs after the catch point on the
//!     same thread is compared like everything else (the unwound spans still complete once, inside their frames);
//! Output: one record per emitted event / completed span / `SpanCtxt::current` reading — kind, tag (event id, ambient
//! node id, observation id), trace id, span parent, span id — sorted (emission order across interleaved tasks is not
//! what C04 constrains). Case format: lean/EmitModel/Driver/C04.lean.

use super::c03::{Actors, BoxFut, YieldOnce};
use emit::platform::thread_local_ctxt::ThreadLocalCtxt;
use emit::props::ErasedProps;
use emit::span::{SpanCtxt, SpanGuard};
use emit::{Ctxt, Frame, Props};
use hcommon::{Rng, Sexp, Stream, Tier};
use std::collections::{HashSet, VecDeque};
use std::future::Future;
use std::ops::ControlFlow;
use std::pin::Pin;
use std::sync::{Arc, LazyLock, Mutex};
use std::task::{Context, Poll, Waker};

pub fn streams() -> Vec<Stream> {
    vec![Stream { name: "c04", gen: gen_c04, run: run_c04 }]
}

// ------------------------------------------------------------------ the private runtime

type EmitFn = fn(emit::Event<&dyn ErasedProps>);
type FilterFn = fn(emit::Event<&dyn ErasedProps>) -> bool;
/// The component types of one runtime variant (they differ in the ctxt WRAPPER around the same `ThreadLocalCtxt`;
/// the ambient-slot variant also erases everything else).
pub trait Parts: 'static {
    type E: emit::Emitter + Send + Sync + 'static;
    type F: emit::Filter + Send + Sync + 'static;
    type Fr: Send + 'static;
    type C: Ctxt<Frame = Self::Fr> + Send + Sync + 'static;
    type K: emit::Clock + Send + Sync + 'static;
    type G: emit::Rng + Send + Sync + 'static;
    fn rt() -> &'static RtOf<Self>;
}

type RtOf<P> = emit::runtime::Runtime<<P as Parts>::E, <P as Parts>::F, <P as Parts>::C, <P as Parts>::K, <P as Parts>::G>;

type TlcFrame = emit::platform::thread_local_ctxt::ThreadLocalCtxtFrame;
type DynCtxt = dyn emit::ctxt::ErasedCtxt + Send + Sync;
type DynFrame = <DynCtxt as Ctxt>::Frame;

/// a typed private runtime `Runtime::new().with_emitter(recording).with_filter(scripted).with_ctxt($ctor).with_rng(scripted)`
macro_rules! typed_variant {
    ($marker:ident, $ctxt:ty, $frame:ty, $ctor:expr) => {
        typed_variant!($marker, $ctxt, $frame, $ctor, ScriptRng, ScriptRng);
    };
    ($marker:ident, $ctxt:ty, $frame:ty, $ctor:expr, $rng:ty, $rng_ctor:expr) => {
        pub struct $marker;
        impl Parts for $marker {
            type E = emit::emitter::FromFn<EmitFn>;
            type F = emit::filter::FromFn<FilterFn>;
            type Fr = $frame;
            type C = $ctxt;
            type K = emit::Empty;
            type G = $rng;
            fn rt() -> &'static RtOf<Self> {
                static RT: LazyLock<RtOf<$marker>> = LazyLock::new(|| {
                    emit::runtime::Runtime::new()
                        .with_emitter(emit::emitter::from_fn(record as EmitFn))
                        .with_filter(emit::filter::from_fn(verdict as FilterFn))
                        .with_ctxt($ctor)
                        .with_rng($rng_ctor)
                });
                LazyLock::force(&RT)
            }
        }
    };
}

fn leak<T>(v: T) -> &'static T {
    Box::leak(Box::new(v))
}

typed_variant!(VConcrete, ThreadLocalCtxt, TlcFrame, ThreadLocalCtxt::new());
typed_variant!(VAssert, emit::runtime::AssertInternal<ThreadLocalCtxt>, TlcFrame, emit::runtime::AssertInternal(ThreadLocalCtxt::new()));
typed_variant!(VRef, &'static ThreadLocalCtxt, TlcFrame, leak(ThreadLocalCtxt::new()));
typed_variant!(VBox, Box<ThreadLocalCtxt>, TlcFrame, Box::new(ThreadLocalCtxt::new()));
typed_variant!(VArc, Arc<ThreadLocalCtxt>, TlcFrame, Arc::new(ThreadLocalCtxt::new()));
typed_variant!(VOption, Option<ThreadLocalCtxt>, Option<TlcFrame>, Some(ThreadLocalCtxt::new()));
typed_variant!(VBoxDyn, Box<DynCtxt>, DynFrame, Box::new(ThreadLocalCtxt::new()) as Box<DynCtxt>);
typed_variant!(VArcDyn, Arc<DynCtxt>, DynFrame, Arc::new(ThreadLocalCtxt::new()) as Arc<DynCtxt>);
typed_variant!(VAssertDyn, Arc<DynCtxt>, DynFrame, Arc::new(emit::runtime::AssertInternal(ThreadLocalCtxt::new())) as Arc<DynCtxt>);

// how the runtime holds its rng
type DynRng = dyn emit::rng::ErasedRng + Send + Sync;
typed_variant!(VRngSome, ThreadLocalCtxt, TlcFrame, ThreadLocalCtxt::new(), Option<ScriptRng>, Some(ScriptRng));
typed_variant!(VRngNone, ThreadLocalCtxt, TlcFrame, ThreadLocalCtxt::new(), Option<ScriptRng>, None);
typed_variant!(VRngBox, ThreadLocalCtxt, TlcFrame, ThreadLocalCtxt::new(), Box<ScriptRng>, Box::new(ScriptRng));
typed_variant!(VRngArc, ThreadLocalCtxt, TlcFrame, ThreadLocalCtxt::new(), Arc<ScriptRng>, Arc::new(ScriptRng));
typed_variant!(VRngAssert, ThreadLocalCtxt, TlcFrame, ThreadLocalCtxt::new(), emit::runtime::AssertInternal<ScriptRng>, emit::runtime::AssertInternal(ScriptRng));
typed_variant!(VRngDyn, ThreadLocalCtxt, TlcFrame, ThreadLocalCtxt::new(), Box<DynRng>, Box::new(ScriptRng) as Box<DynRng>);
// the traceparent context around the thread-local one
typed_variant!(
    VTp,
    emit_traceparent::TraceparentCtxt<ThreadLocalCtxt>,
    emit_traceparent::TraceparentCtxtFrame<TlcFrame>,
    emit_traceparent::TraceparentCtxt::new(ThreadLocalCtxt::new())
);

/// the type-erased runtime of an ambient slot: `emit::setup()…init_slot(&SLOT)`, then `SLOT.get()`
pub struct VSlot;
impl Parts for VSlot {
    type E = emit::runtime::AmbientEmitter<'static>;
    type F = emit::runtime::AmbientFilter<'static>;
    type Fr = DynFrame;
    type C = emit::runtime::AmbientCtxt<'static>;
    type K = emit::runtime::AmbientClock<'static>;
    type G = emit::runtime::AmbientRng<'static>;
    fn rt() -> &'static RtOf<Self> {
        static SLOT: emit::runtime::AmbientSlot = emit::runtime::AmbientSlot::new();
        static INIT: std::sync::Once = std::sync::Once::new();
        INIT.call_once(|| {
            let _ = emit::setup()
                .emit_to(emit::emitter::from_fn(record as EmitFn))
                .emit_when(emit::filter::from_fn(verdict as FilterFn))
                .with_ctxt(ThreadLocalCtxt::new())
                .with_clock(emit::Empty)
                .with_rng(ScriptRng)
                .init_slot(&SLOT);
        });
        SLOT.get()
    }
}

pub const VARIANTS: [&str; 17] = [
    "concrete", "assert", "ref", "box", "arc", "option", "boxdyn", "arcdyn", "assertdyn", "slot", "rngsome", "rngnone", "rngbox", "rngarc",
    "rngassert", "rngdyn", "tp",
];

static LOG: Mutex<Vec<String>> = Mutex::new(Vec::new());
static DISABLED: LazyLock<Mutex<HashSet<u64>>> = LazyLock::new(|| Mutex::new(HashSet::new()));
static RNG_SCRIPT: Mutex<(Option<u128>, Option<u64>)> = Mutex::new((None, None));

pub struct ScriptRng;

impl emit::Rng for ScriptRng {
    fn fill<A: AsMut<[u8]>>(&self, mut arr: A) -> Option<A> {
        // a reading that was drawn is replaced by a different one: a span draws each of its two readings at most
        // once, so only a holder (or a span) that draws twice ever sees the replacement
        let (t, s) = {
            let mut g = RNG_SCRIPT.lock().unwrap();
            let cur = *g;
            match arr.as_mut().len() {
                16 => g.0 = g.0.map(|x| !x),
                8 => g.1 = g.1.map(|x| !x),
                _ => {}
            }
            cur
        };
        {
            let buf = arr.as_mut();
            match buf.len() {
                16 => buf.copy_from_slice(&t?.to_le_bytes()),
                8 => buf.copy_from_slice(&s?.to_le_bytes()),
                _ => return None,
            }
        }
        Some(arr)
    }
}

fn show<T: std::fmt::Display>(v: Option<T>) -> String {
    match v {
        Some(v) => v.to_string(),
        None => "-".into(),
    }
}

fn show_ids(kind: &str, tag: Option<u64>, trace: Option<emit::TraceId>, parent: Option<emit::SpanId>, span: Option<emit::SpanId>) -> String {
    format!(
        "{}.{}.{}.{}.{}",
        kind,
        show(tag),
        show(trace.map(|t| t.to_u128())),
        show(parent.map(|s| s.to_u64())),
        show(span.map(|s| s.to_u64()))
    )
}

/// the recording emitter
fn record(evt: emit::Event<&dyn ErasedProps>) {
    let p = evt.props();
    let is_span = p.pull::<emit::Kind, _>("evt_kind") == Some(emit::Kind::Span);
    let (kind, tag) = if is_span { ("s", p.pull::<u64, _>("id")) } else { ("e", p.pull::<u64, _>("eid")) };
    let line = show_ids(kind, tag, p.pull::<emit::TraceId, _>("trace_id"), p.pull::<emit::SpanId, _>("span_parent"), p.pull::<emit::SpanId, _>("span_id"));
    LOG.lock().unwrap().push(line);
}

/// the scripted filter: a span's start event is rejected iff its node id is listed; everything else passes
fn verdict(evt: emit::Event<&dyn ErasedProps>) -> bool {
    let p = evt.props();
    if p.pull::<emit::Kind, _>("evt_kind") == Some(emit::Kind::Span) {
        if let Some(id) = p.pull::<u64, _>("id") {
            return !DISABLED.lock().unwrap().contains(&id);
        }
    }
    true
}

// ------------------------------------------------------------------ the case language

#[derive(Clone, Debug)]
enum IdVal {
    Trace(u128),
    Span(u64),
    Num(u128),
    Text(String),
}

enum Held {
    Trace(emit::TraceId),
    Span(emit::SpanId),
    U64(u64),
    U128(u128),
    Text(String),
}

impl Held {
    fn of(v: &IdVal) -> Option<Held> {
        Some(match v {
            IdVal::Trace(n) => Held::Trace(emit::TraceId::from_u128(*n)?),
            IdVal::Span(n) => Held::Span(emit::SpanId::from_u64(*n)?),
            IdVal::Num(n) if *n <= u64::MAX as u128 => Held::U64(*n as u64),
            IdVal::Num(n) => Held::U128(*n),
            IdVal::Text(s) => Held::Text(s.clone()),
        })
    }
    fn value(&self) -> emit::Value<'_> {
        match self {
            Held::Trace(t) => emit::Value::from_any(t),
            Held::Span(s) => emit::Value::from_any(s),
            Held::U64(n) => emit::Value::from(*n),
            Held::U128(n) => emit::Value::from(*n),
            Held::Text(s) => emit::Value::from(s.as_str()),
        }
    }
}

type PropList = Vec<(String, IdVal)>;

/// the dynamic props of a case as a `Props` value
struct DynProps(Vec<(String, Held)>);

impl DynProps {
    fn of(ps: &PropList) -> DynProps {
        DynProps(ps.iter().map(|(k, v)| (k.clone(), Held::of(v).expect("validated"))).collect())
    }
}

impl Props for DynProps {
    fn for_each<'kv, F: FnMut(emit::Str<'kv>, emit::Value<'kv>) -> ControlFlow<()>>(&'kv self, mut for_each: F) -> ControlFlow<()> {
        for (k, v) in &self.0 {
            for_each(emit::Str::new_ref(k), v.value())?;
        }
        ControlFlow::Continue(())
    }
}

/// how the body of a `Result`-returning span fn ends (after its children ran)
#[derive(Clone, Copy, PartialEq, Debug)]
enum Exit {
    Ok,
    ErrQ,   // `fail()?`
    ErrRet, // `return Err(..)`
}

#[derive(Clone, Copy, PartialEq, Debug)]
enum SKind {
    Sync,
    NewSpan,
    Direct,
    Async,
    ANewSpan,
    ADirect,
    /// `#[emit::span(.., ok_lvl / err_lvl / err, ..)]` on a sync fn returning `Result` (two call sites)
    RSync(u8, Exit),
    /// the same on an async fn (two call sites)
    RAsync(u8, Exit),
    /// the hand-rolled span API: `SpanCtxt::current` → `new_child` / `new_root` → `SpanCtxt::push` → body → `Span::new` event
    Manual,
    AManual,
    /// the same with the child ctxt assembled by hand (`TraceId::random`, `Rng::fill`, `SpanId::new`, `SpanCtxt::new`)
    Manual2,
}

impl SKind {
    fn is_async(self) -> bool {
        matches!(self, SKind::Async | SKind::ANewSpan | SKind::ADirect | SKind::RAsync(..) | SKind::AManual)
    }
    fn parse(a: &str) -> Option<SKind> {
        let exit = |e: &str| {
            Some(match e {
                "ok" => Exit::Ok,
                "errq" => Exit::ErrQ,
                "errret" => Exit::ErrRet,
                _ => return None,
            })
        };
        Some(match a {
            "sync" => SKind::Sync,
            "newspan" => SKind::NewSpan,
            "direct" => SKind::Direct,
            "async" => SKind::Async,
            "anewspan" => SKind::ANewSpan,
            "adirect" => SKind::ADirect,
            "manual" => SKind::Manual,
            "amanual" => SKind::AManual,
            "manual2" => SKind::Manual2,
            _ => {
                let (site, e) = a.split_once('.')?;
                match site {
                    "rsync" => SKind::RSync(0, exit(e)?),
                    "rsync2" => SKind::RSync(1, exit(e)?),
                    "rasync" => SKind::RAsync(0, exit(e)?),
                    "rasync2" => SKind::RAsync(1, exit(e)?),
                    _ => return None,
                }
            }
        })
    }
}

enum T {
    Event { eid: u64, own: PropList },
    Cur(u64),
    Span { id: u64, kind: SKind, en: bool, rt: Option<u128>, rs: Option<u64>, user: PropList, children: Arc<Vec<T>> },
    Hop(usize, Arc<Vec<T>>),
    Exec(Vec<usize>, Arc<Vec<T>>),
    Yield,
    Par(Vec<Arc<Vec<T>>>, Vec<usize>),
    Panic,
    Catch(Arc<Vec<T>>),
}

/// does running this raise a panic that leaves it (only used to reject cases outside the modelled usage)
fn panics(t: &T) -> bool {
    match t {
        T::Panic => true,
        T::Catch(_) => false,
        T::Span { children, .. } | T::Hop(_, children) | T::Exec(_, children) => children.iter().any(panics),
        T::Par(bs, _) => bs.iter().any(|b| b.iter().any(panics)),
        _ => false,
    }
}

const NTHREADS: usize = 3;

fn parse_idval(s: &Sexp) -> Option<IdVal> {
    let (t, a) = s.as_tagged()?;
    if a.len() != 1 {
        return None;
    }
    let v = match t {
        "trace" => IdVal::Trace(a[0].as_u128()?),
        "span" => IdVal::Span(a[0].as_u64()?),
        "num" => IdVal::Num(a[0].as_u128()?),
        "text" => IdVal::Text(a[0].as_string()?),
        _ => return None,
    };
    Held::of(&v)?;
    Some(v)
}

fn parse_props(s: &Sexp, tag: &str) -> Option<PropList> {
    let (t, items) = s.as_tagged()?;
    if t != tag {
        return None;
    }
    let mut out = Vec::new();
    for it in items {
        let kv = it.as_list()?;
        if kv.len() != 2 {
            return None;
        }
        out.push((kv[0].as_string()?, parse_idval(&kv[1])?));
    }
    Some(out)
}

fn thread(s: &Sexp) -> Option<usize> {
    let t = s.as_usize()?;
    if t < NTHREADS {
        Some(t)
    } else {
        None
    }
}

fn parse_list(xs: &[Sexp], in_async: bool) -> Option<Arc<Vec<T>>> {
    xs.iter().map(|x| parse_t(x, in_async)).collect::<Option<Vec<T>>>().map(Arc::new)
}

fn parse_t(s: &Sexp, in_async: bool) -> Option<T> {
    let (tag, a) = s.as_tagged()?;
    Some(match (tag, a.len()) {
        ("event", 2) => T::Event { eid: a[0].as_u64()?, own: parse_props(&a[1], "props")? },
        ("cur", 1) => T::Cur(a[0].as_u64()?),
        ("span", n) if n >= 6 => {
            let kind = SKind::parse(a[1].as_atom()?)?;
            if kind.is_async() && !in_async {
                return None;
            }
            let opt = |s: &Sexp| -> Option<Option<u128>> {
                if s.as_atom()? == "none" {
                    Some(None)
                } else {
                    Some(Some(s.as_u128()?))
                }
            };
            let rs = match opt(&a[4])? {
                None => None,
                Some(n) => Some(u64::try_from(n).ok()?),
            };
            let user = parse_props(&a[5], "props")?;
            // the macro call sites have no slot for dynamic ctxt props; `id` is reserved for the node id
            if !user.is_empty() && !matches!(kind, SKind::Direct | SKind::ADirect) {
                return None;
            }
            T::Span { id: a[0].as_u64()?, kind, en: a[2].as_bool()?, rt: opt(&a[3])?, rs, user, children: parse_list(&a[6..], kind.is_async())? }
        }
        ("hop", n) if n >= 1 => T::Hop(thread(&a[0])?, parse_list(&a[1..], false)?),
        ("exec", n) if n >= 1 => {
            let (tt, ts) = a[0].as_tagged()?;
            if tt != "threads" || ts.is_empty() {
                return None;
            }
            T::Exec(ts.iter().map(thread).collect::<Option<Vec<_>>>()?, parse_list(&a[1..], true)?)
        }
        ("yield", 0) if in_async => T::Yield,
        ("par", 2) if in_async => {
            let mut bs = Vec::new();
            for b in a[0].as_list()? {
                let (bt, items) = b.as_tagged()?;
                if bt != "branch" {
                    return None;
                }
                bs.push(parse_list(items, true)?);
            }
            let (st, es) = a[1].as_tagged()?;
            if st != "sched" {
                return None;
            }
            // a panic leaving a branch would drop the sibling futures outside their frames: not modelled
            if bs.iter().any(|b| b.iter().any(panics)) {
                return None;
            }
            T::Par(bs, es.iter().map(|e| e.as_usize()).collect::<Option<Vec<_>>>()?)
        }
        ("panic", 0) => T::Panic,
        ("catch", _) => T::Catch(parse_list(a, false)?),
        _ => return None,
    })
}

/// The filter script: node id → verdict. Two nodes sharing an id with different verdicts cannot be scripted
/// (the filter only sees the id): such a case is rejected.
fn collect_verdicts(ts: &[T], out: &mut std::collections::HashMap<u64, bool>) -> bool {
    for t in ts {
        let ok = match t {
            T::Span { id, en, children, .. } => *out.entry(*id).or_insert(*en) == *en && collect_verdicts(children, out),
            T::Hop(_, c) | T::Exec(_, c) | T::Catch(c) => collect_verdicts(c, out),
            T::Par(bs, _) => bs.iter().all(|b| collect_verdicts(b, out)),
            _ => true,
        };
        if !ok {
            return false;
        }
    }
    true
}

// ------------------------------------------------------------------ the static call sites

#[emit::span(rt: *rt, "node", id)]
fn span_sync<P: Parts>(rt: &'static RtOf<P>, id: u64, children: &Arc<Vec<T>>, actors: &Arc<Actors>) {
    run_sync_list::<P>(children, actors)
}

#[emit::span(rt: *rt, "node", id)]
async fn span_async<P: Parts>(rt: &'static RtOf<P>, id: u64, children: Arc<Vec<T>>, actors: Arc<Actors>) {
    run_async_list::<P>(children, actors).await
}

// the Result-aware completion: `complete_with(__private_complete_span_ok / _err)` runs inside the frame too

fn fail() -> Result<(), std::io::Error> {
    Err(std::io::Error::new(std::io::ErrorKind::Other, "scripted failure"))
}

fn as_err(err: &std::io::Error) -> &(dyn std::error::Error + 'static) {
    err
}

macro_rules! result_exit {
    ($exit:expr) => {
        match $exit {
            Exit::Ok => {}
            Exit::ErrQ => fail()?,
            Exit::ErrRet => return Err(std::io::Error::new(std::io::ErrorKind::Other, "scripted return")),
        }
    };
}

#[emit::span(rt: *rt, ok_lvl: emit::Level::Info, "node", id)]
fn span_rsync<P: Parts>(rt: &'static RtOf<P>, id: u64, exit: Exit, children: &Arc<Vec<T>>, actors: &Arc<Actors>) -> Result<(), std::io::Error> {
    run_sync_list::<P>(children, actors);
    result_exit!(exit);
    Ok(())
}

#[emit::span(rt: *rt, err_lvl: "warn", err: (|_| "failed"), "node", id)]
fn span_rsync2<P: Parts>(rt: &'static RtOf<P>, id: u64, exit: Exit, children: &Arc<Vec<T>>, actors: &Arc<Actors>) -> Result<(), std::io::Error> {
    run_sync_list::<P>(children, actors);
    result_exit!(exit);
    Ok(())
}

#[emit::span(rt: *rt, err_lvl: emit::Level::Warn, "node", id)]
async fn span_rasync<P: Parts>(rt: &'static RtOf<P>, id: u64, exit: Exit, children: Arc<Vec<T>>, actors: Arc<Actors>) -> Result<(), std::io::Error> {
    run_async_list::<P>(children, actors).await;
    result_exit!(exit);
    Ok(())
}

#[emit::span(rt: *rt, ok_lvl: emit::Level::Debug, err: as_err, "node", id)]
async fn span_rasync2<P: Parts>(rt: &'static RtOf<P>, id: u64, exit: Exit, children: Arc<Vec<T>>, actors: Arc<Actors>) -> Result<(), std::io::Error> {
    run_async_list::<P>(children, actors).await;
    result_exit!(exit);
    Ok(())
}

fn span_direct<P: Parts>(
    id: u64,
    user: &PropList,
) -> (SpanGuard<'static, &'static P::K, emit::Empty, emit::span::completion::Default<'static, &'static P::E, &'static P::C>>, Frame<&'static P::C>) {
    let rt = P::rt();
    let user = DynProps::of(user);
    SpanGuard::new(
        rt.filter(),
        rt.ctxt(),
        rt.clock(),
        rt.rng(),
        emit::span::completion::default(rt.emitter(), rt.ctxt()),
        ("id", id).and_props(&user),
        emit::Path::new_raw("c04"),
        "node",
        emit::Empty,
    )
}

/// Runs its closure when dropped — at the end of the body, or while a panic unwinds through it.
struct Defer<F: FnOnce()>(Option<F>);

impl<F: FnOnce()> Drop for Defer<F> {
    fn drop(&mut self) {
        if let Some(f) = self.0.take() {
            f()
        }
    }
}

/// The frame of a hand-rolled span, made where the span begins (inside the enclosing frames).
fn manual_frame<P: Parts>(en: bool, by_hand: bool) -> Frame<&'static P::C> {
    use std::num::{NonZeroU128, NonZeroU64};
    let rt = P::rt();
    if !en {
        // a span the user decided not to record: a frame that adds nothing
        return SpanCtxt::empty().push(rt.ctxt());
    }
    let cur = SpanCtxt::current(rt.ctxt());
    let child = if by_hand {
        let trace = match cur.trace_id() {
            Some(t) => Some(emit::TraceId::new(NonZeroU128::new(t.to_u128()).expect("a trace id is never zero"))),
            None => emit::TraceId::random(rt.rng()),
        };
        let span = emit::Rng::fill(rt.rng(), [0u8; 8]).map(u64::from_le_bytes).and_then(NonZeroU64::new).map(emit::SpanId::new);
        SpanCtxt::new(trace, cur.span_id().copied(), span)
    } else if cur == SpanCtxt::empty() {
        SpanCtxt::new_root(rt.rng())
    } else {
        cur.new_child(rt.rng())
    };
    child.push(rt.ctxt())
}

/// The completion of a hand-rolled span: a `Span::new` event through the runtime, inside the frame. The node id
/// travels as the event's own property (the frame of `SpanCtxt::push` holds the ids only).
fn manual_done<P: Parts>(en: bool, id: u64) -> Defer<impl FnOnce()> {
    Defer(Some(move || {
        if en {
            P::rt().emit(emit::span::Span::new(emit::Path::new_raw("c04"), "node", emit::Empty, ("id", id)));
        }
    }))
}

fn set_rng(rt: Option<u128>, rs: Option<u64>) {
    *RNG_SCRIPT.lock().unwrap() = (rt, rs);
}

fn run_sync_list<P: Parts>(ts: &Arc<Vec<T>>, actors: &Arc<Actors>) {
    for t in ts.iter() {
        run_sync::<P>(t, actors);
    }
}

fn run_sync<P: Parts>(t: &T, actors: &Arc<Actors>) {
    let rt = P::rt();
    match t {
        T::Event { eid, own } => {
            let own = DynProps::of(own);
            emit::emit!(rt: *rt, props: own, "evt", eid);
        }
        T::Cur(cid) => {
            let c = SpanCtxt::current(rt.ctxt());
            let line = show_ids("c", Some(*cid), c.trace_id().copied(), c.span_parent().copied(), c.span_id().copied());
            LOG.lock().unwrap().push(line);
        }
        T::Span { id, kind, en, rt: r_t, rs, user, children } => {
            set_rng(*r_t, *rs);
            match kind {
                SKind::Manual | SKind::Manual2 => {
                    let frame = manual_frame::<P>(*en, *kind == SKind::Manual2);
                    let (id, en) = (*id, *en);
                    frame.call(move || {
                        let _done = manual_done::<P>(en, id);
                        run_sync_list::<P>(children, actors);
                    });
                }
                SKind::Sync => span_sync::<P>(rt, *id, children, actors),
                SKind::RSync(site, exit) => {
                    let r = if *site == 0 { span_rsync::<P>(rt, *id, *exit, children, actors) } else { span_rsync2::<P>(rt, *id, *exit, children, actors) };
                    assert_eq!(r.is_ok(), *exit == Exit::Ok);
                }
                SKind::NewSpan => {
                    let id = *id;
                    let (mut guard, frame) = emit::new_span!(rt: *rt, "node", id);
                    frame.call(move || {
                        guard.start();
                        run_sync_list::<P>(children, actors);
                    });
                }
                SKind::Direct => {
                    let (mut guard, frame) = span_direct::<P>(*id, user);
                    frame.call(move || {
                        guard.start();
                        run_sync_list::<P>(children, actors);
                    });
                }
                _ => unreachable!("validated at parse time"),
            }
        }
        T::Hop(th, children) => {
            let (children, actors2) = (children.clone(), actors.clone());
            let f = Frame::current(rt.ctxt()).in_fn(move || run_sync_list::<P>(&children, &actors2));
            actors.hop(*th, Box::new(f));
        }
        T::Exec(threads, children) => {
            let fut: BoxFut = Box::pin(Frame::current(rt.ctxt()).in_future(run_async_list::<P>(children.clone(), actors.clone())));
            let slot: Arc<Mutex<Option<BoxFut>>> = Arc::new(Mutex::new(Some(fut)));
            for k in 0..100_000usize {
                let slot2 = slot.clone();
                actors.hop(
                    threads[k % threads.len()],
                    Box::new(move || {
                        let mut fut = slot2.lock().unwrap().take().expect("future");
                        let mut cx = Context::from_waker(Waker::noop());
                        if fut.as_mut().poll(&mut cx).is_pending() {
                            *slot2.lock().unwrap() = Some(fut);
                        }
                    }),
                );
                if slot.lock().unwrap().is_none() {
                    break;
                }
            }
        }
        T::Panic => panic!("scripted panic"),
        T::Catch(children) => {
            let _ = std::panic::catch_unwind(std::panic::AssertUnwindSafe(|| run_sync_list::<P>(children, actors)));
        }
        T::Yield | T::Par(..) => unreachable!("validated at parse time"),
    }
}

fn run_async_list<P: Parts>(ts: Arc<Vec<T>>, actors: Arc<Actors>) -> BoxFut {
    let rt = P::rt();
    Box::pin(async move {
        for t in ts.iter() {
            match t {
                T::Yield => YieldOnce(false).await,
                T::Par(branches, sched) => {
                    Join {
                        branches: branches.iter().map(|b| Some(run_async_list::<P>(b.clone(), actors.clone()))).collect(),
                        sched: sched.iter().copied().collect(),
                        rr: 0,
                    }
                    .await
                }
                T::Span { id, kind, en, rt: r_t, rs, user, children } if kind.is_async() => {
                    set_rng(*r_t, *rs);
                    match kind {
                        SKind::AManual => {
                            let frame = manual_frame::<P>(*en, false);
                            let body = run_async_list::<P>(children.clone(), actors.clone());
                            let (id, en) = (*id, *en);
                            frame
                                .in_future(async move {
                                    let _done = manual_done::<P>(en, id);
                                    body.await;
                                })
                                .await
                        }
                        SKind::Async => span_async::<P>(rt, *id, children.clone(), actors.clone()).await,
                        SKind::RAsync(site, exit) => {
                            let r = if *site == 0 {
                                span_rasync::<P>(rt, *id, *exit, children.clone(), actors.clone()).await
                            } else {
                                span_rasync2::<P>(rt, *id, *exit, children.clone(), actors.clone()).await
                            };
                            assert_eq!(r.is_ok(), *exit == Exit::Ok);
                        }
                        SKind::ANewSpan => {
                            let id = *id;
                            let (mut guard, frame) = emit::new_span!(rt: *rt, "node", id);
                            let body = run_async_list::<P>(children.clone(), actors.clone());
                            frame
                                .in_future(async move {
                                    guard.start();
                                    body.await;
                                    drop(guard);
                                })
                                .await
                        }
                        _ => {
                            let (mut guard, frame) = span_direct::<P>(*id, user);
                            let body = run_async_list::<P>(children.clone(), actors.clone());
                            frame
                                .in_future(async move {
                                    guard.start();
                                    body.await;
                                    drop(guard);
                                })
                                .await
                        }
                    }
                }
                other => run_sync::<P>(other, &actors),
            }
        }
    })
}

/// sibling branches polled one per `poll`, in the scripted order first, round robin afterwards
struct Join {
    branches: Vec<Option<BoxFut>>,
    sched: VecDeque<usize>,
    rr: usize,
}

impl Future for Join {
    type Output = ();
    fn poll(mut self: Pin<&mut Self>, cx: &mut Context<'_>) -> Poll<()> {
        let this = &mut *self;
        let n = this.branches.len();
        let mut pick = None;
        while let Some(i) = this.sched.pop_front() {
            if i < n && this.branches[i].is_some() {
                pick = Some(i);
                break;
            }
        }
        if pick.is_none() && n > 0 {
            pick = (0..n).map(|k| (this.rr + k) % n).find(|i| this.branches[*i].is_some());
            this.rr += 1;
        }
        if let Some(i) = pick {
            if this.branches[i].as_mut().unwrap().as_mut().poll(cx).is_ready() {
                this.branches[i] = None;
            }
        }
        if this.branches.iter().all(|b| b.is_none()) {
            Poll::Ready(())
        } else {
            Poll::Pending
        }
    }
}

fn run_c04(line: &str) -> String {
    (|| -> Option<String> {
        let s = Sexp::parse(line)?;
        let (tag, args) = s.as_tagged()?;
        if tag != "c04" {
            return None;
        }
        // (c04 VARIANT (incoming ..) (T..)); the two-argument form is the concrete variant;
        // (c04 tp (incoming) (T..) (header TRACE SPAN FLAGS push|push2)): the incoming ids arrive as a W3C traceparent
        let (variant, args) = match args.len() {
            2 => ("concrete", args),
            3 | 4 => (args[0].as_atom()?, &args[1..]),
            _ => return None,
        };
        let incoming = parse_props(&args[0], "incoming")?;
        let tree = parse_list(args[1].as_list()?, false)?;
        let header = match args.get(2) {
            None => None,
            Some(h) => {
                let (t, a) = h.as_tagged()?;
                // a sampled traceparent with both ids, instead of (not on top of) incoming props, under `tp` only
                if t != "header" || a.len() != 4 || variant != "tp" || !incoming.is_empty() {
                    return None;
                }
                let (trace, span, flags) = (a[0].as_u128()?, a[1].as_u64()?, u8::try_from(a[2].as_u64()?).ok()?);
                let via2 = match a[3].as_atom()? {
                    "push" => false,
                    "push2" => true,
                    _ => return None,
                };
                if trace == 0 || span == 0 || flags % 2 == 0 {
                    return None;
                }
                Some((trace, span, flags, via2))
            }
        };
        if let Some((trace, span, ..)) = header {
            // for the class check the header is what the equivalent incoming props would be
            let as_props = vec![("trace_id".to_string(), IdVal::Trace(trace)), ("span_id".to_string(), IdVal::Span(span))];
            if !tp_class(&as_props, &tree) {
                return None;
            }
            return run_variant::<VTp>(incoming, tree, header);
        }
        Some(match variant {
            "concrete" => run_variant::<VConcrete>(incoming, tree, None)?,
            "assert" => run_variant::<VAssert>(incoming, tree, None)?,
            "ref" => run_variant::<VRef>(incoming, tree, None)?,
            "box" => run_variant::<VBox>(incoming, tree, None)?,
            "arc" => run_variant::<VArc>(incoming, tree, None)?,
            "option" => run_variant::<VOption>(incoming, tree, None)?,
            "boxdyn" => run_variant::<VBoxDyn>(incoming, tree, None)?,
            "arcdyn" => run_variant::<VArcDyn>(incoming, tree, None)?,
            "assertdyn" => run_variant::<VAssertDyn>(incoming, tree, None)?,
            "slot" => run_variant::<VSlot>(incoming, tree, None)?,
            "rngsome" => run_variant::<VRngSome>(incoming, tree, None)?,
            "rngnone" => run_variant::<VRngNone>(incoming, tree, None)?,
            "rngbox" => run_variant::<VRngBox>(incoming, tree, None)?,
            "rngarc" => run_variant::<VRngArc>(incoming, tree, None)?,
            "rngassert" => run_variant::<VRngAssert>(incoming, tree, None)?,
            "rngdyn" => run_variant::<VRngDyn>(incoming, tree, None)?,
            "tp" if !tp_class(&incoming, &tree) => return None,
            "tp" => run_variant::<VTp>(incoming, tree, None)?,
            _ => return None,
        })
    })()
    .unwrap_or_else(|| "bad-case".into())
}

/// The cases on which `TraceparentCtxt<ThreadLocalCtxt>` shows the ids the plain context shows (the reasons are with
/// `tpClass` in lean/EmitModel/Model/Span.lean): every span enabled, with valid rng readings and no user ctxt props;
/// span ids pairwise distinct and distinct from the incoming one; incoming props without a usable span id, or with a
/// usable trace id too and no `span_parent`.
fn tp_class(incoming: &PropList, tree: &[T]) -> bool {
    fn spans(ts: &[T], out: &mut Vec<u64>) -> bool {
        ts.iter().all(|t| match t {
            T::Span { en, rt, rs, user, children, .. } => {
                let ok = *en && matches!(rt, Some(n) if *n != 0) && matches!(rs, Some(n) if *n != 0) && user.is_empty();
                if let Some(n) = rs {
                    out.push(*n);
                }
                ok && spans(children, out)
            }
            T::Hop(_, c) | T::Exec(_, c) | T::Catch(c) => spans(c, out),
            T::Par(bs, _) => bs.iter().all(|b| spans(b, out)),
            _ => true,
        })
    }
    let mut ids = Vec::new();
    if !spans(tree, &mut ids) {
        return false;
    }
    let first = |k: &str| incoming.iter().find(|(key, _)| key == k).map(|(_, v)| Held::of(v).expect("validated"));
    let inc_span = first("span_id").and_then(|h| h.value().cast::<emit::SpanId>());
    if let Some(s) = inc_span {
        ids.push(s.to_u64());
        let trace_ok = first("trace_id").and_then(|h| h.value().cast::<emit::TraceId>()).is_some();
        if !trace_ok || first("span_parent").is_some() {
            return false;
        }
    }
    let n = ids.len();
    ids.sort();
    ids.dedup();
    ids.len() == n
}

fn run_variant<P: Parts>(incoming: PropList, tree: Arc<Vec<T>>, header: Option<(u128, u64, u8, bool)>) -> Option<String> {
    let mut verdicts = std::collections::HashMap::new();
    if !collect_verdicts(&tree, &mut verdicts) {
        return None;
    }
    *DISABLED.lock().unwrap() = verdicts.into_iter().filter(|(_, en)| !en).map(|(id, _)| id).collect::<HashSet<u64>>();
    LOG.lock().unwrap().clear();
    let fails: Arc<Mutex<Vec<String>>> = Arc::new(Mutex::new(Vec::new()));
    let fails2 = fails.clone();
    let ok = Actors::run_case(
        NTHREADS,
        move |actors| {
            Box::new(move || {
                let incoming = DynProps::of(&incoming);
                let body = || Frame::push(P::rt().ctxt(), &incoming).call(|| run_sync_list::<P>(&tree, &actors));
                match header {
                    None => body(),
                    // the request's `traceparent` header, pushed the way emit_traceparent documents it
                    Some((trace, span, flags, via2)) => {
                        use emit_traceparent::{TraceFlags, Traceparent, Tracestate};
                        let tp = Traceparent::new(emit::TraceId::from_u128(trace), emit::SpanId::from_u64(span), TraceFlags::from_u8(flags));
                        if via2 {
                            emit_traceparent::push(tp, Tracestate::new_raw("")).call(body)
                        } else {
                            tp.push().call(body)
                        }
                    }
                }
            })
        },
        |t| {
            let fails = fails2.clone();
            Box::new(move || {
                let mut n = 0;
                P::rt().ctxt().with_current(|cur| {
                    let _ = cur.for_each(|_, _| {
                        n += 1;
                        ControlFlow::Continue(())
                    });
                });
                if n != 0 {
                    fails.lock().unwrap().push(format!("trace-left(thread={},n={})", t, n));
                }
            })
        },
    );
    let mut recs = std::mem::take(&mut *LOG.lock().unwrap());
    recs.sort();
    let mut out = recs.join(";");
    if !ok {
        out.push_str(";panic");
    }
    let fails = fails.lock().unwrap();
    Some(if fails.is_empty() { out } else { format!("{}\tFAIL:{}", out, fails.join("|")) })
}

// ------------------------------------------------------------------ generator

struct Gen<'a> {
    rng: &'a mut Rng,
    next_id: u64,
    budget: i64,
    max_depth: usize,
    used_span: Vec<u64>,
    used_trace: Vec<u128>,
    /// the case runs under `TraceparentCtxt`: stay inside `tp_class`
    tp: bool,
}

fn idval(tag: &str, n: impl std::fmt::Display) -> Sexp {
    Sexp::tagged(tag, vec![Sexp::num(n)])
}

impl<'a> Gen<'a> {
    fn fresh(&mut self) -> u64 {
        self.next_id += 1;
        self.next_id
    }

    fn span_reading(&mut self) -> Sexp {
        if self.tp {
            // valid and never repeated
            loop {
                let n = if self.rng.chance(1, 3) { self.rng.range(1, 60) } else { self.rng.next() | 1 };
                if !self.used_span.contains(&n) {
                    self.used_span.push(n);
                    return Sexp::num(n);
                }
            }
        }
        match self.rng.below(24) {
            0 => Sexp::atom("none"),
            1 => Sexp::num(0),
            2 if !self.used_span.is_empty() => Sexp::num(*self.rng.pick(&self.used_span)), // a repeating source
            _ => {
                let n = match self.rng.below(4) {
                    0 => self.rng.range(1, 40),
                    1 => u64::MAX - self.rng.below(40),
                    _ => self.rng.next() | 1,
                };
                self.used_span.push(n);
                Sexp::num(n)
            }
        }
    }

    fn trace_reading(&mut self) -> Sexp {
        let lo = if self.tp { 2 } else { 0 };
        match lo + self.rng.below(16 - lo) {
            0 => Sexp::atom("none"),
            1 => Sexp::num(0),
            _ => {
                let n = match self.rng.below(4) {
                    0 => self.rng.range(1, 40) as u128,
                    1 => u128::MAX - self.rng.below(40) as u128,
                    _ => ((self.rng.next() as u128) << 64) | (self.rng.next() as u128) | 1,
                };
                self.used_trace.push(n);
                Sexp::num(n)
            }
        }
    }

    /// a value placed under an id key: the same id in its three forms, or something that is not an id
    fn id_value(&mut self, is_trace: bool) -> Sexp {
        self.id_value_of(is_trace, false)
    }

    fn id_value_of(&mut self, is_trace: bool, well_formed: bool) -> Sexp {
        let n: u128 = if is_trace {
            match self.rng.below(3) {
                0 => self.rng.range(1, 40) as u128,
                _ => ((self.rng.next() as u128) << 64) | (self.rng.next() as u128) | 1,
            }
        } else {
            match self.rng.below(3) {
                0 => self.rng.range(1, 40) as u128,
                _ => (self.rng.next() | 1) as u128,
            }
        };
        if !is_trace {
            self.used_span.push(n as u64);
        }
        let hex = if is_trace { format!("{:032x}", n) } else { format!("{:016x}", n) };
        match self.rng.below(if well_formed { 10 } else { 14 }) {
            0..=2 => idval(if is_trace { "trace" } else { "span" }, n),
            3..=5 => idval("num", n),
            6..=8 => Sexp::tagged("text", vec![Sexp::str(&hex)]),
            9 => Sexp::tagged("text", vec![Sexp::str(&hex.to_uppercase())]),
            // malformed: wrong type of id, zero, wrong length, non-hex, decimal text, too large a number
            10 => idval(if is_trace { "span" } else { "trace" }, n.max(1) & (u64::MAX as u128) | 1),
            11 => {
                let bad = match self.rng.below(6) {
                    0 => hex[1..].to_string(),
                    1 => format!("{}0", hex),
                    2 => hex.replacen(|c: char| c.is_ascii_hexdigit(), "g", 1),
                    3 => "0".repeat(hex.len()),
                    4 => String::new(),
                    _ => format!("{}é", &hex[2..]),
                };
                Sexp::tagged("text", vec![Sexp::str(&bad)])
            }
            12 => idval("num", 0),
            _ => {
                if is_trace {
                    Sexp::tagged("text", vec![Sexp::str(&n.to_string())])
                } else {
                    idval("num", (u64::MAX as u128) + 1 + self.rng.below(1000) as u128)
                }
            }
        }
    }

    fn id_props(&mut self, tag: &str, chance: u64) -> Sexp {
        let mut items = Vec::new();
        if self.rng.chance(chance, 10) {
            for (k, is_trace, p) in [("trace_id", true, 8), ("span_id", false, 7), ("span_parent", false, 3)] {
                if self.rng.chance(p, 10) {
                    items.push(Sexp::list(vec![Sexp::str(k), self.id_value(is_trace)]));
                }
            }
            if self.rng.chance(1, 4) {
                items.push(Sexp::list(vec![Sexp::str("user"), idval("num", self.rng.below(10))]));
            }
        }
        Sexp::tagged(tag, items)
    }

    /// incoming props under `TraceparentCtxt`: nothing, ids without a usable span id (they pass through to the wrapped
    /// context), or a whole traceparent (usable trace id and span id, no span_parent)
    fn tp_incoming(&mut self) -> Sexp {
        let mut items = Vec::new();
        match self.rng.below(4) {
            0 => {}
            1 => {
                items.push(Sexp::list(vec![Sexp::str("trace_id"), self.id_value(true)]));
                if self.rng.bool() {
                    items.push(Sexp::list(vec![Sexp::str("span_parent"), self.id_value(false)]));
                }
            }
            _ => {
                items.push(Sexp::list(vec![Sexp::str("trace_id"), self.id_value_of(true, true)]));
                items.push(Sexp::list(vec![Sexp::str("span_id"), self.id_value_of(false, true)]));
                if self.rng.bool() {
                    items.swap(0, 1);
                }
            }
        }
        if self.rng.chance(1, 4) {
            items.push(Sexp::list(vec![Sexp::str("user"), idval("num", self.rng.below(10))]));
        }
        Sexp::tagged("incoming", items)
    }

    /// an async span polled on several threads that suspends at least twice, with children after a suspension
    fn suspended_span(&mut self) -> Sexp {
        let nt = 1 + self.rng.usize(3);
        let threads = (0..nt).map(|_| Sexp::num(self.rng.below(NTHREADS as u64))).collect();
        let id = self.fresh();
        let kind = *self.rng.pick(&["async", "async", "anewspan", "amanual", "amanual", "rasync.ok", "rasync2.errq", "adirect"]);
        let (rt, rs) = (self.trace_reading(), self.span_reading());
        let y = || Sexp::tagged("yield", vec![]);
        let mut children = vec![Sexp::tagged("event", vec![Sexp::num(self.fresh()), Sexp::tagged("props", vec![])]), y(), Sexp::tagged("cur", vec![Sexp::num(self.fresh())]), y()];
        children.extend(self.list(2, true, 3, false, false).0);
        children.push(y());
        children.push(Sexp::tagged("cur", vec![Sexp::num(self.fresh())]));
        self.budget -= 4;
        let span = Sexp::tagged("span", [vec![Sexp::num(id), Sexp::atom(kind), Sexp::bool(true), rt, rs, Sexp::tagged("props", vec![])], children].concat());
        Sexp::tagged("exec", vec![Sexp::tagged("threads", threads), span])
    }

    /// A body. `in_catch`: a catch point encloses it (panics welcome); `no_panic`: below a `par` branch.
    /// Returns (items, whether the body panics) — nothing is generated after a panicking item.
    fn list(&mut self, depth: usize, in_async: bool, fanout: usize, in_catch: bool, no_panic: bool) -> (Vec<Sexp>, bool) {
        let mut out = Vec::new();
        let n = 1 + self.rng.usize(fanout);
        for _ in 0..n {
            if self.budget <= 0 {
                break;
            }
            self.budget -= 1;
            let deep = depth < self.max_depth;
            let mut p = false;
            let item = match self.rng.below(23) {
                0..=3 => {
                    let own = if self.rng.chance(1, 8) { self.id_props("props", 10) } else { Sexp::tagged("props", vec![]) };
                    Sexp::tagged("event", vec![Sexp::num(self.fresh()), own])
                }
                4 | 5 => Sexp::tagged("cur", vec![Sexp::num(self.fresh())]),
                6..=14 if deep => {
                    let id = self.fresh();
                    let exit = *self.rng.pick(&["ok", "errq", "errret"]);
                    let kind: String = if in_async {
                        match self.rng.below(14) {
                            0 | 1 => "async".into(),
                            2 => "anewspan".into(),
                            3 => "adirect".into(),
                            4 => "sync".into(),
                            5 => "newspan".into(),
                            6 => "direct".into(),
                            7 => format!("rasync.{}", exit),
                            8 => format!("rasync2.{}", exit),
                            9 => format!("rsync.{}", exit),
                            10 => format!("rsync2.{}", exit),
                            11 | 12 => "amanual".into(),
                            _ => (*self.rng.pick(&["manual", "manual2"])).into(),
                        }
                    } else {
                        match self.rng.below(9) {
                            7 => "manual".into(),
                            8 => "manual2".into(),
                            0 | 1 => "sync".into(),
                            2 => "newspan".into(),
                            3 => "direct".into(),
                            4 | 5 => format!("rsync.{}", exit),
                            _ => format!("rsync2.{}", exit),
                        }
                    };
                    let kind = kind.as_str();
                    let child_async = matches!(kind, "async" | "anewspan" | "adirect" | "amanual") || kind.starts_with("rasync");
                    let en = Sexp::bool(self.tp || !self.rng.chance(1, 4));
                    let (rt, rs) = (self.trace_reading(), self.span_reading());
                    let user = if matches!(kind, "direct" | "adirect") && !self.tp { self.id_props("props", 2) } else { Sexp::tagged("props", vec![]) };
                    let (children, cp) = self.list(depth + 1, child_async, 4, in_catch, no_panic);
                    p = cp;
                    Sexp::tagged("span", [vec![Sexp::num(id), Sexp::atom(kind), en, rt, rs, user], children].concat())
                }
                15 if deep => {
                    let t = self.rng.below(NTHREADS as u64);
                    let (children, cp) = self.list(depth + 1, false, 3, in_catch, no_panic);
                    p = cp;
                    Sexp::tagged("hop", [vec![Sexp::num(t)], children].concat())
                }
                16 | 17 if deep && !in_async => {
                    let nt = 1 + self.rng.usize(3);
                    let threads = (0..nt).map(|_| Sexp::num(self.rng.below(NTHREADS as u64))).collect();
                    let (children, cp) = self.list(depth + 1, true, 4, in_catch, no_panic);
                    p = cp;
                    Sexp::tagged("exec", [vec![Sexp::tagged("threads", threads)], children].concat())
                }
                16 if in_async => Sexp::tagged("yield", vec![]),
                17 | 18 if deep && in_async => {
                    let nb = 2 + self.rng.usize(2);
                    let branches: Vec<Sexp> = (0..nb).map(|_| Sexp::tagged("branch", self.list(depth + 1, true, 3, false, true).0)).collect();
                    let ns = self.rng.usize(8);
                    let sched = (0..ns).map(|_| Sexp::num(self.rng.below(nb as u64))).collect();
                    Sexp::tagged("par", vec![Sexp::list(branches), Sexp::tagged("sched", sched)])
                }
                // a catch point: its body usually panics somewhere below; what follows it is compared
                19 | 20 if deep => {
                    let (children, _) = self.list(depth + 1, false, 4, true, no_panic);
                    Sexp::tagged("catch", children)
                }
                21 if !no_panic && (in_catch || self.rng.chance(1, 12)) => {
                    p = true;
                    Sexp::tagged("panic", vec![])
                }
                _ if in_async && self.rng.chance(1, 2) => Sexp::tagged("yield", vec![]),
                _ => Sexp::tagged("event", vec![Sexp::num(self.fresh()), Sexp::tagged("props", vec![])]),
            };
            out.push(item);
            if p {
                return (out, true);
            }
        }
        (out, false)
    }
}

fn gen_c04(rng: &mut Rng, tier: Tier, n: usize) -> Vec<String> {
    let mut out = Vec::with_capacity(n);
    for _ in 0..n {
        let budget = if tier == Tier::Thorough { 15 + rng.below(60) as i64 } else { 6 + rng.below(30) as i64 };
        let variant = if rng.chance(1, 4) { "concrete" } else { *rng.pick(&VARIANTS) };
        let tp = variant == "tp";
        let mut g = Gen { rng: &mut *rng, next_id: 0, budget, max_depth: 6, used_span: Vec::new(), used_trace: Vec::new(), tp };
        // under `tp` one case in three receives its incoming ids as a sampled W3C traceparent (any odd flags byte)
        let header = if tp && g.rng.chance(1, 3) {
            let trace = ((g.rng.next() as u128) << 64) | (g.rng.next() as u128) | 1;
            let span = g.rng.next() | 1;
            g.used_span.push(span);
            let flags = match g.rng.below(4) {
                0 => 1,
                1 => 3,
                2 => 0xff,
                _ => g.rng.below(128) * 2 + 1,
            };
            Some(Sexp::tagged("header", vec![Sexp::num(trace), Sexp::num(span), Sexp::num(flags), Sexp::atom(if g.rng.bool() { "push" } else { "push2" })]))
        } else {
            None
        };
        let incoming = if header.is_some() {
            Sexp::tagged("incoming", vec![])
        } else if tp {
            g.tp_incoming()
        } else {
            g.id_props("incoming", 5)
        };
        let mut items = Vec::new();
        // under the traceparent context (and now and then elsewhere): repeated polls of one span on changing threads
        if tp || g.rng.chance(1, 10) {
            items.push(g.suspended_span());
        }
        while g.budget > 0 {
            let (b, p) = g.list(0, false, 4, false, false);
            items.extend(b);
            if p {
                break;
            }
        }
        let mut top = vec![Sexp::atom(variant), incoming, Sexp::list(items)];
        if let Some(h) = header {
            top.push(h);
        }
        out.push(Sexp::tagged("c04", top).to_string());
    }
    out
}
