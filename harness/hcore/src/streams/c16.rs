//! C16 — templates render and compare by meaning, for any text.
//! Drives the REAL `emit::Template` / `emit::template::{Part, Formatter, Write}`.
//!
//! case formats (see lean/EmitModel/Driver/C16.lean):
//!   (eq T T…)            T ::= (tpl KIND P…)   KIND ::= ref | owned | toowned | byref | lit
//!                         P ::= (t xTEXT) | (h xLABEL F)   F ::= - | N (index into FORMATTERS)

use emit::template::{Formatter, Part};
use emit::{Template, Value};
use hcommon::{Rng, Sexp, Stream, Tier};
use std::fmt;

pub fn streams() -> Vec<Stream> {
    vec![Stream { name: "c16_eq", gen: gen_eq, run: run_eq }]
}

// ------------------------------------------------------------------ the case language

#[derive(Clone, Debug, PartialEq)]
enum P {
    Text(String),
    Hole(String, Option<usize>),
}

#[derive(Clone, Copy, Debug, PartialEq)]
enum Kind {
    Ref,
    Owned,
    ToOwned,
    ByRef,
    Lit,
}

#[derive(Clone, Debug)]
struct T {
    kind: Kind,
    parts: Vec<P>,
}

/// The formatter functions a hole can carry (the model knows them by index).
fn f_brackets(v: Value, f: &mut fmt::Formatter) -> fmt::Result {
    write!(f, "[{}]", v)
}
fn f_width6(v: Value, f: &mut fmt::Formatter) -> fmt::Result {
    write!(f, "{:>6}", v.to_string())
}
fn f_const(_: Value, f: &mut fmt::Formatter) -> fmt::Result {
    f.write_str("#")
}
const FORMATTERS: [fn(Value, &mut fmt::Formatter) -> fmt::Result; 3] = [f_brackets, f_width6, f_const];

fn parse_part(s: &Sexp) -> Option<P> {
    let (tag, a) = s.as_tagged()?;
    match (tag, a.len()) {
        ("t", 1) => Some(P::Text(a[0].as_string()?)),
        ("h", 2) => {
            let f = if a[1].as_atom()? == "-" {
                None
            } else {
                let i = a[1].as_usize()?;
                if i >= FORMATTERS.len() {
                    return None;
                }
                Some(i)
            };
            Some(P::Hole(a[0].as_string()?, f))
        }
        _ => None,
    }
}

fn parse_tpl(s: &Sexp) -> Option<T> {
    let (tag, a) = s.as_tagged()?;
    if tag != "tpl" || a.is_empty() {
        return None;
    }
    let kind = match a[0].as_atom()? {
        "ref" => Kind::Ref,
        "owned" => Kind::Owned,
        "toowned" => Kind::ToOwned,
        "byref" => Kind::ByRef,
        "lit" => Kind::Lit,
        _ => return None,
    };
    let parts = a[1..].iter().map(parse_part).collect::<Option<Vec<_>>>()?;
    if kind == Kind::Lit && !matches!(&parts[..], [P::Text(_)]) {
        return None;
    }
    Some(T { kind, parts })
}

fn show_part(p: &P) -> Sexp {
    match p {
        P::Text(t) => Sexp::tagged("t", vec![Sexp::str(t)]),
        P::Hole(l, f) => Sexp::tagged(
            "h",
            vec![Sexp::str(l), f.map(Sexp::num).unwrap_or_else(|| Sexp::atom("-"))],
        ),
    }
}

fn show_tpl(t: &T) -> Sexp {
    let k = match t.kind {
        Kind::Ref => "ref",
        Kind::Owned => "owned",
        Kind::ToOwned => "toowned",
        Kind::ByRef => "byref",
        Kind::Lit => "lit",
    };
    let mut v = vec![Sexp::atom(k)];
    v.extend(t.parts.iter().map(show_part));
    Sexp::tagged("tpl", v)
}

// ------------------------------------------------------------------ building REAL templates

fn borrowed_parts<'a>(ps: &'a [P]) -> Vec<Part<'a>> {
    ps.iter()
        .map(|p| match p {
            P::Text(t) => Part::text_ref(t),
            P::Hole(l, None) => Part::hole_ref(l),
            P::Hole(l, Some(i)) => Part::hole_ref(l).with_formatter(Formatter::new(FORMATTERS[*i])),
        })
        .collect()
}

fn owned_parts(ps: &[P]) -> Vec<Part<'static>> {
    ps.iter()
        .map(|p| match p {
            P::Text(t) => Part::text_owned(t.clone()),
            P::Hole(l, None) => Part::hole_owned(l.clone()),
            P::Hole(l, Some(i)) => Part::hole_owned(l.clone()).with_formatter(Formatter::new(FORMATTERS[*i])),
        })
        .collect()
}

/// Build every template of the case through the constructor its KIND names and hand the real values to `f`.
fn with_templates<R>(ts: &[T], f: impl FnOnce(&[Template]) -> R) -> R {
    let borrowed: Vec<Vec<Part>> = ts.iter().map(|t| borrowed_parts(&t.parts)).collect();
    let owned: Vec<Option<Template<'static>>> = ts
        .iter()
        .zip(&borrowed)
        .map(|(t, b)| match t.kind {
            Kind::Owned | Kind::ByRef => Some(Template::new_owned(owned_parts(&t.parts))),
            Kind::ToOwned => Some(Template::new_ref(b).to_owned()),
            _ => None,
        })
        .collect();
    let tpls: Vec<Template> = ts
        .iter()
        .enumerate()
        .map(|(i, t)| match t.kind {
            Kind::Ref => Template::new_ref(&borrowed[i]),
            Kind::Owned | Kind::ToOwned => owned[i].clone().unwrap(),
            Kind::ByRef => owned[i].as_ref().unwrap().by_ref(),
            Kind::Lit => match &t.parts[..] {
                [P::Text(s)] => Template::literal_ref(s),
                _ => unreachable!(),
            },
        })
        .collect();
    f(&tpls)
}

/// The meaning of a template read back through the public `parts()` API: holes (label) and the text between them.
#[derive(PartialEq, Debug)]
enum Seg {
    Text(String),
    Hole(String),
}

fn meaning(t: &Template) -> Vec<Seg> {
    let mut out: Vec<Seg> = Vec::new();
    for p in t.parts() {
        if let Some(text) = p.as_text() {
            if text.get().is_empty() {
                continue;
            }
            if let Some(Seg::Text(last)) = out.last_mut() {
                last.push_str(text.get());
            } else {
                out.push(Seg::Text(text.get().to_string()));
            }
        } else if let Some(l) = p.label() {
            out.push(Seg::Hole(l.get().to_string()));
        }
    }
    out
}

// ------------------------------------------------------------------ c16_eq

fn run_eq(line: &str) -> String {
    (|| -> Option<String> {
        let s = Sexp::parse(line)?;
        let (tag, args) = s.as_tagged()?;
        if tag != "eq" || args.len() < 2 {
            return None;
        }
        let ts = args.iter().map(parse_tpl).collect::<Option<Vec<_>>>()?;
        Some(with_templates(&ts, |tpls| {
            let n = tpls.len();
            let mut m = vec![vec!['?'; n]; n];
            for i in 0..n {
                for j in 0..n {
                    m[i][j] = match hcommon::catch(|| tpls[i] == tpls[j]) {
                        Some(true) => 't',
                        Some(false) => 'f',
                        None => 'p',
                    };
                }
            }
            let out = m.iter().map(|r| r.iter().collect::<String>()).collect::<Vec<_>>().join("/");
            // implementation-side oracle: the property on the real outputs alone
            let mut fail = Vec::new();
            let means: Vec<Vec<Seg>> = tpls.iter().map(meaning).collect();
            for i in 0..n {
                for j in 0..n {
                    if m[i][j] == 'p' {
                        fail.push(format!("panic({},{})", i, j));
                        continue;
                    }
                    if i == j && m[i][j] != 't' {
                        fail.push(format!("not-reflexive({})", i));
                    }
                    if m[i][j] != m[j][i] {
                        fail.push(format!("not-symmetric({},{})", i, j));
                    }
                    if (m[i][j] == 't') != (means[i] == means[j]) {
                        fail.push(format!("eq-differs-from-meaning({},{})", i, j));
                    }
                    if m[i][j] == 't' && tpls[i].to_string() != tpls[j].to_string() {
                        fail.push(format!("equal-but-render-differently({},{})", i, j));
                    }
                    for k in 0..n {
                        if m[i][j] == 't' && m[j][k] == 't' && m[i][k] != 't' {
                            fail.push(format!("not-transitive({},{},{})", i, j, k));
                        }
                    }
                }
            }
            if fail.is_empty() {
                out
            } else {
                format!("{}\tFAIL:{}", out, fail[0])
            }
        }))
    })()
    .unwrap_or_else(|| "bad-case".into())
}

// ------------------------------------------------------------------ generators

/// 1-, 2-, 3- and 4-byte characters; several share their leading UTF-8 bytes (é/è, €/‚, 🎈/📌), braces included.
const CHARS: [char; 16] = ['a', 'b', 'a', ' ', '{', '}', 'é', 'è', 'ß', '€', '‚', '한', '🎈', '📌', 'x', '0'];
const LABELS: [&str; 8] = ["x", "y", "", "é", "xy", "x", "a b", "{"];

#[derive(Clone, Debug, PartialEq)]
enum Atom {
    Text(Vec<char>),
    Hole(String),
}

fn gen_meaning(rng: &mut Rng, max_segs: usize) -> Vec<Atom> {
    let n = rng.usize(max_segs + 1);
    (0..n)
        .map(|_| {
            if rng.chance(2, 5) {
                Atom::Hole(rng.pick(&LABELS).to_string())
            } else {
                let k = 1 + rng.usize(4);
                Atom::Text((0..k).map(|_| *rng.pick(&CHARS)).collect())
            }
        })
        .collect()
}

fn mutate(rng: &mut Rng, m: &mut Vec<Atom>) {
    if m.is_empty() {
        m.push(if rng.bool() { Atom::Text(vec![*rng.pick(&CHARS)]) } else { Atom::Hole(rng.pick(&LABELS).to_string()) });
        return;
    }
    let i = rng.usize(m.len());
    match rng.below(8) {
        0 | 1 => match &mut m[i] {
            // replace a character (often by one of a different UTF-8 width)
            Atom::Text(cs) => {
                let j = rng.usize(cs.len());
                cs[j] = *rng.pick(&CHARS);
            }
            Atom::Hole(l) => *l = rng.pick(&LABELS).to_string(),
        },
        2 => match &mut m[i] {
            Atom::Text(cs) => {
                let j = rng.usize(cs.len() + 1);
                cs.insert(j, *rng.pick(&CHARS));
            }
            Atom::Hole(l) => l.push('x'),
        },
        3 => match &mut m[i] {
            Atom::Text(cs) if cs.len() > 1 => {
                let j = rng.usize(cs.len());
                cs.remove(j);
            }
            _ => {
                m.remove(i);
            }
        },
        4 => m.insert(i, Atom::Hole(rng.pick(&LABELS).to_string())),
        5 => {
            // a hole becomes the text its label renders as (same rendering under no props, different meaning)
            if let Atom::Hole(l) = &m[i] {
                m[i] = Atom::Text(format!("{{{}}}", l).chars().collect());
            } else {
                m.truncate(i);
            }
        }
        6 => {
            if i + 1 < m.len() {
                m.swap(i, i + 1);
            } else {
                m.truncate(i);
            }
        }
        _ => m.push(Atom::Text(vec![*rng.pick(&CHARS)])),
    }
}

/// Lay a meaning out as parts: text split at random character boundaries, empty fragments sprinkled anywhere.
fn layout(rng: &mut Rng, m: &[Atom], empties: bool) -> Vec<P> {
    let mut out = Vec::new();
    let maybe_empty = |rng: &mut Rng, out: &mut Vec<P>| {
        if empties && rng.chance(1, 5) {
            out.push(P::Text(String::new()));
            if rng.chance(1, 4) {
                out.push(P::Text(String::new()));
            }
        }
    };
    for a in m {
        maybe_empty(rng, &mut out);
        match a {
            Atom::Hole(l) => {
                let f = if rng.chance(1, 4) { Some(rng.usize(FORMATTERS.len())) } else { None };
                out.push(P::Hole(l.clone(), f));
            }
            Atom::Text(cs) => {
                let mut cur = String::new();
                for (i, c) in cs.iter().enumerate() {
                    cur.push(*c);
                    if i + 1 < cs.len() && rng.chance(2, 5) {
                        out.push(P::Text(std::mem::take(&mut cur)));
                        maybe_empty(rng, &mut out);
                    }
                }
                out.push(P::Text(cur));
            }
        }
    }
    maybe_empty(rng, &mut out);
    out
}

fn pick_kind(rng: &mut Rng, parts: &[P]) -> Kind {
    if matches!(parts, [P::Text(_)]) && rng.bool() {
        return Kind::Lit;
    }
    *rng.pick(&[Kind::Ref, Kind::Ref, Kind::Owned, Kind::ToOwned, Kind::ByRef])
}

fn eq_case(ts: &[T]) -> String {
    Sexp::tagged("eq", ts.iter().map(show_tpl).collect()).to_string()
}

fn gen_eq(rng: &mut Rng, tier: Tier, n: usize) -> Vec<String> {
    let mut out = Vec::new();
    let t = |kind: Kind, parts: Vec<P>| T { kind, parts };
    let tx = |s: &str| P::Text(s.to_string());
    let h = |s: &str| P::Hole(s.to_string(), None);
    // explicit edge cases
    for (a, b) in [
        (vec![], vec![]),
        (vec![], vec![tx("")]),
        (vec![tx("")], vec![tx(""), tx("")]),
        (vec![tx("a")], vec![tx("a")]),
        (vec![tx("a")], vec![tx("b")]),
        (vec![tx("é")], vec![tx("è")]),
        (vec![h("x")], vec![h("x")]),
        (vec![h("x")], vec![h("y")]),
        (vec![h("x")], vec![tx("{x}")]),
        (vec![tx("a"), tx("b"), h("c"), tx(""), tx("de")], vec![tx(""), tx("ab"), h("c"), tx("de"), tx("")]),
        (vec![tx("a"), h("x")], vec![tx("a"), h("x"), h("x")]),
        (vec![h("x"), tx("")], vec![h("x")]),
    ] {
        out.push(eq_case(&[t(Kind::Ref, a), t(Kind::Ref, b)]));
    }
    let max_segs = if tier == Tier::Thorough { 8 } else { 5 };
    while out.len() < n {
        let base = gen_meaning(rng, max_segs);
        let k = if rng.chance(2, 5) { 3 } else { 2 };
        let mut ts = Vec::new();
        for _ in 0..k {
            let mut m = base.clone();
            if rng.chance(2, 5) {
                mutate(rng, &mut m);
                if rng.chance(1, 4) {
                    mutate(rng, &mut m);
                }
            }
            let empties = rng.chance(3, 4);
            let parts = layout(rng, &m, empties);
            let kind = pick_kind(rng, &parts);
            ts.push(T { kind, parts });
        }
        out.push(eq_case(&ts));
    }
    out
}
