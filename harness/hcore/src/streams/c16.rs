//! C16 — templates render and compare by meaning, for any text.
//! Drives the REAL `emit::Template` / `emit::template::{Part, Formatter, Write}`.
//!
//! case formats (see lean/EmitModel/Driver/C16.lean):
//!   (eq T T…)            T ::= (tpl KIND P…)   KIND ::= ref | owned | toowned | byref | lit
//!                         P ::= (t xTEXT) | (h xLABEL F)   F ::= - | N (index into FORMATTERS)
//!   (render T (props (xKEY V)…) PK FAIL)    V ::= (s xSTR) | (i N) | (b BOOL)
//!                         PK ::= slice | (and K) | erased | with      FAIL ::= - | N
//!   (macro IDX xSRC (props (xKEY V)…) (ext (xLABEL xFLAGS)…))
//!                         fixture number IDX of `fixtures::all()`: SRC is the source text of its template literal
//!                         (between the quotes), the props are the values its holes / extra pairs evaluate to, `ext`
//!                         the `#[emit::fmt]` flags given on extra pairs (flags inside the literal are in SRC)
//!   (scan xSRC)           the real fv_template scanner + syn (the third-party code the macros are built on) run on the
//!                         literal with source text SRC, through a visitor shaped like emit's `TemplateVisitor`

use emit::template::{self, Formatter, Part};
use emit::{Props, Template, Value};
use hcommon::{Rng, Sexp, Stream, Tier};
use std::fmt;

pub fn streams() -> Vec<Stream> {
    vec![
        Stream { name: "c16_eq", gen: gen_eq, run: run_eq },
        Stream { name: "c16_render", gen: gen_render, run: run_render },
        Stream { name: "c16_macro", gen: gen_macro, run: run_macro },
        Stream { name: "c16_scan", gen: gen_scan, run: run_scan },
    ]
}

// ------------------------------------------------------------------ the case language

#[derive(Clone, Debug, PartialEq)]
enum P {
    Text(String),
    Hole(String, Option<usize>),
}

#[derive(Clone, Copy, Debug, PartialEq)]
enum Kind {
    Ref,
    Owned,
    ToOwned,
    ByRef,
    Lit,
}

#[derive(Clone, Debug)]
struct T {
    kind: Kind,
    parts: Vec<P>,
}

/// The formatter functions a hole can carry (the model knows them by index).
fn f_brackets(v: Value, f: &mut fmt::Formatter) -> fmt::Result {
    write!(f, "[{}]", v)
}
fn f_width6(v: Value, f: &mut fmt::Formatter) -> fmt::Result {
    write!(f, "{:>6}", v.to_string())
}
fn f_const(_: Value, f: &mut fmt::Formatter) -> fmt::Result {
    f.write_str("#")
}
const FORMATTERS: [fn(Value, &mut fmt::Formatter) -> fmt::Result; 3] = [f_brackets, f_width6, f_const];

fn parse_part(s: &Sexp) -> Option<P> {
    let (tag, a) = s.as_tagged()?;
    match (tag, a.len()) {
        ("t", 1) => Some(P::Text(a[0].as_string()?)),
        ("h", 2) => {
            let f = if a[1].as_atom()? == "-" {
                None
            } else {
                let i = a[1].as_usize()?;
                if i >= FORMATTERS.len() {
                    return None;
                }
                Some(i)
            };
            Some(P::Hole(a[0].as_string()?, f))
        }
        _ => None,
    }
}

fn parse_tpl(s: &Sexp) -> Option<T> {
    let (tag, a) = s.as_tagged()?;
    if tag != "tpl" || a.is_empty() {
        return None;
    }
    let kind = match a[0].as_atom()? {
        "ref" => Kind::Ref,
        "owned" => Kind::Owned,
        "toowned" => Kind::ToOwned,
        "byref" => Kind::ByRef,
        "lit" => Kind::Lit,
        _ => return None,
    };
    let parts = a[1..].iter().map(parse_part).collect::<Option<Vec<_>>>()?;
    if kind == Kind::Lit && !matches!(&parts[..], [P::Text(_)]) {
        return None;
    }
    Some(T { kind, parts })
}

fn show_part(p: &P) -> Sexp {
    match p {
        P::Text(t) => Sexp::tagged("t", vec![Sexp::str(t)]),
        P::Hole(l, f) => Sexp::tagged(
            "h",
            vec![Sexp::str(l), f.map(Sexp::num).unwrap_or_else(|| Sexp::atom("-"))],
        ),
    }
}

fn show_tpl(t: &T) -> Sexp {
    let k = match t.kind {
        Kind::Ref => "ref",
        Kind::Owned => "owned",
        Kind::ToOwned => "toowned",
        Kind::ByRef => "byref",
        Kind::Lit => "lit",
    };
    let mut v = vec![Sexp::atom(k)];
    v.extend(t.parts.iter().map(show_part));
    Sexp::tagged("tpl", v)
}

// ------------------------------------------------------------------ building REAL templates

/// The strings of a case carved out of shared buffers: a string that is a prefix of another one of the case is a
/// slice of that one's buffer, so the two START AT THE SAME ADDRESS and differ in length only (what slicing labels and
/// literals out of one source text gives). Equality, lookup and rendering are by content, never by address.
pub struct Pool(Vec<String>);

impl Pool {
    pub fn new<'s>(strings: impl IntoIterator<Item = &'s str>) -> Pool {
        let mut all: Vec<&str> = strings.into_iter().collect();
        all.sort();
        all.dedup();
        // keep the strings that are not a proper prefix of another one
        let maximal: Vec<String> =
            all.iter().filter(|s| !all.iter().any(|t| t.len() > s.len() && t.starts_with(**s))).map(|s| s.to_string()).collect();
        Pool(maximal)
    }
    pub fn get<'a>(&'a self, s: &'a str) -> &'a str {
        match self.0.iter().filter(|b| b.starts_with(s)).max_by_key(|b| b.len()) {
            Some(b) => &b[..s.len()],
            None => s,
        }
    }
}

fn strings_of(ps: &[P]) -> impl Iterator<Item = &str> {
    ps.iter().map(|p| match p {
        P::Text(t) => t.as_str(),
        P::Hole(l, _) => l.as_str(),
    })
}

fn borrowed_parts<'a>(ps: &'a [P], pool: &'a Pool) -> Vec<Part<'a>> {
    ps.iter()
        .map(|p| match p {
            P::Text(t) => Part::text_ref(pool.get(t)),
            P::Hole(l, None) => Part::hole_ref(pool.get(l)),
            P::Hole(l, Some(i)) => Part::hole_ref(pool.get(l)).with_formatter(Formatter::new(FORMATTERS[*i])),
        })
        .collect()
}

fn owned_parts(ps: &[P]) -> Vec<Part<'static>> {
    ps.iter()
        .map(|p| match p {
            P::Text(t) => Part::text_owned(t.clone()),
            P::Hole(l, None) => Part::hole_owned(l.clone()),
            P::Hole(l, Some(i)) => Part::hole_owned(l.clone()).with_formatter(Formatter::new(FORMATTERS[*i])),
        })
        .collect()
}

/// Build every template of the case through the constructor its KIND names and hand the real values to `f`.
fn with_templates<R>(ts: &[T], f: impl FnOnce(&[Template]) -> R) -> R {
    with_templates_in(ts, &Pool::new(ts.iter().flat_map(|t| strings_of(&t.parts))), f)
}

fn with_templates_in<R>(ts: &[T], pool: &Pool, f: impl FnOnce(&[Template]) -> R) -> R {
    let borrowed: Vec<Vec<Part>> = ts.iter().map(|t| borrowed_parts(&t.parts, pool)).collect();
    let owned: Vec<Option<Template<'static>>> = ts
        .iter()
        .zip(&borrowed)
        .map(|(t, b)| match t.kind {
            Kind::Owned | Kind::ByRef => Some(Template::new_owned(owned_parts(&t.parts))),
            Kind::ToOwned => Some(Template::new_ref(b).to_owned()),
            _ => None,
        })
        .collect();
    let tpls: Vec<Template> = ts
        .iter()
        .enumerate()
        .map(|(i, t)| match t.kind {
            Kind::Ref => Template::new_ref(&borrowed[i]),
            Kind::Owned | Kind::ToOwned => owned[i].clone().unwrap(),
            Kind::ByRef => owned[i].as_ref().unwrap().by_ref(),
            Kind::Lit => match &t.parts[..] {
                [P::Text(s)] => Template::literal_ref(pool.get(s)),
                _ => unreachable!(),
            },
        })
        .collect();
    f(&tpls)
}

/// The meaning of a template read back through the public `parts()` API: holes (label) and the text between them.
#[derive(PartialEq, Debug)]
enum Seg {
    Text(String),
    Hole(String),
}

fn meaning(t: &Template) -> Vec<Seg> {
    let mut out: Vec<Seg> = Vec::new();
    for p in t.parts() {
        if let Some(text) = p.as_text() {
            if text.get().is_empty() {
                continue;
            }
            if let Some(Seg::Text(last)) = out.last_mut() {
                last.push_str(text.get());
            } else {
                out.push(Seg::Text(text.get().to_string()));
            }
        } else if let Some(l) = p.label() {
            out.push(Seg::Hole(l.get().to_string()));
        }
    }
    out
}

// ------------------------------------------------------------------ c16_eq

fn run_eq(line: &str) -> String {
    (|| -> Option<String> {
        let s = Sexp::parse(line)?;
        let (tag, args) = s.as_tagged()?;
        if tag != "eq" || args.len() < 2 {
            return None;
        }
        let ts = args.iter().map(parse_tpl).collect::<Option<Vec<_>>>()?;
        Some(with_templates(&ts, |tpls| {
            let n = tpls.len();
            let mut m = vec![vec!['?'; n]; n];
            for i in 0..n {
                for j in 0..n {
                    m[i][j] = match hcommon::catch(|| tpls[i] == tpls[j]) {
                        Some(true) => 't',
                        Some(false) => 'f',
                        None => 'p',
                    };
                }
            }
            let out = m.iter().map(|r| r.iter().collect::<String>()).collect::<Vec<_>>().join("/");
            // implementation-side oracle: the property on the real outputs alone
            let mut fail = Vec::new();
            let means: Vec<Vec<Seg>> = tpls.iter().map(meaning).collect();
            for i in 0..n {
                for j in 0..n {
                    if m[i][j] == 'p' {
                        fail.push(format!("panic({},{})", i, j));
                        continue;
                    }
                    if i == j && m[i][j] != 't' {
                        fail.push(format!("not-reflexive({})", i));
                    }
                    if m[i][j] != m[j][i] {
                        fail.push(format!("not-symmetric({},{})", i, j));
                    }
                    if (m[i][j] == 't') != (means[i] == means[j]) {
                        fail.push(format!("eq-differs-from-meaning({},{})", i, j));
                    }
                    if m[i][j] == 't' && tpls[i].to_string() != tpls[j].to_string() {
                        fail.push(format!("equal-but-render-differently({},{})", i, j));
                    }
                    for k in 0..n {
                        if m[i][j] == 't' && m[j][k] == 't' && m[i][k] != 't' {
                            fail.push(format!("not-transitive({},{},{})", i, j, k));
                        }
                    }
                }
            }
            // templates over PREFIXES OF ONE parts array (same start address, different lengths — what slicing a
            // static parts table gives): equality is by meaning, never by where the parts live
            for (i, t) in tpls.iter().enumerate() {
                let parts: Vec<Part> = t.parts().map(|p| p.by_ref()).collect();
                let full = Template::new_ref(&parts);
                for k in 0..parts.len() {
                    let pre = Template::new_ref(&parts[..k]);
                    let want = meaning(&pre) == meaning(&full);
                    let got = (hcommon::catch(|| pre == full), hcommon::catch(|| full == pre));
                    if got != (Some(want), Some(want)) {
                        fail.push(format!("eq-differs-from-meaning-on-aliased-prefix({},{})", i, k));
                    }
                }
            }
            if fail.is_empty() {
                out
            } else {
                format!("{}\tFAIL:{}", out, fail[0])
            }
        }))
    })()
    .unwrap_or_else(|| "bad-case".into())
}

// ------------------------------------------------------------------ c16_render

#[derive(Clone, Debug)]
pub enum V {
    Str(String),
    Int(i64),
    Bool(bool),
}

#[derive(Clone, Debug)]
enum PropsKind {
    Slice,
    And(usize),
    Erased,
    With,
    /// a `BTreeMap<Str, Value>` (first value per key kept, like every other collection): lookups go through `Str: Ord`
    BTree,
}

fn parse_props(s: &Sexp) -> Option<Vec<(String, V)>> {
    let (tag, items) = s.as_tagged()?;
    if tag != "props" {
        return None;
    }
    let mut out = Vec::new();
    for it in items {
        let kv = it.as_list()?;
        if kv.len() != 2 {
            return None;
        }
        let k = kv[0].as_string()?;
        let (t, a) = kv[1].as_tagged()?;
        if a.len() != 1 {
            return None;
        }
        let v = match t {
            "s" => V::Str(a[0].as_string()?),
            "i" => V::Int(a[0].as_i64()?),
            "b" => V::Bool(a[0].as_bool()?),
            _ => return None,
        };
        out.push((k, v));
    }
    Some(out)
}

/// A `template::Write` that records every callback it receives and fails on callback number `fail_at`.
struct Rec {
    evs: Vec<String>,
    fail_at: Option<usize>,
}

impl Rec {
    fn push(&mut self, ev: String) -> fmt::Result {
        if self.fail_at == Some(self.evs.len()) {
            return Err(fmt::Error);
        }
        self.evs.push(ev);
        Ok(())
    }
}

impl fmt::Write for Rec {
    fn write_str(&mut self, s: &str) -> fmt::Result {
        // never reached through the four callbacks below; would show up as a foreign event
        self.push(format!("RAW{}", hcommon::hex(s.as_bytes())))
    }
}

impl template::Write for Rec {
    fn write_text(&mut self, text: &str) -> fmt::Result {
        self.push(format!("T{}", hcommon::hex(text.as_bytes())))
    }
    fn write_hole_value(&mut self, label: &str, value: Value) -> fmt::Result {
        self.push(format!("V{}:{}", hcommon::hex(label.as_bytes()), hcommon::hex(value.to_string().as_bytes())))
    }
    fn write_hole_fmt(&mut self, label: &str, value: Value, formatter: Formatter) -> fmt::Result {
        let shown = value.to_string();
        let formatted = formatter.apply(value).to_string();
        self.push(format!(
            "F{}:{}:{}",
            hcommon::hex(label.as_bytes()),
            hcommon::hex(shown.as_bytes()),
            hcommon::hex(formatted.as_bytes())
        ))
    }
    fn write_hole_label(&mut self, label: &str) -> fmt::Result {
        self.push(format!("L{}", hcommon::hex(label.as_bytes())))
    }
}

/// A `template::Write` that overrides `write_text` ONLY (a writer that marks up or escapes literal text) and keeps the
/// trait's defaults for the three hole callbacks: the defaults write through `fmt::Write`, so `write_text` must see
/// exactly the template's text parts — never a hole's value, label or braces.
struct RecText {
    evs: Vec<String>,
}
impl fmt::Write for RecText {
    fn write_str(&mut self, s: &str) -> fmt::Result {
        self.evs.push(format!("RAW{}", hcommon::hex(s.as_bytes())));
        Ok(())
    }
}
impl template::Write for RecText {
    fn write_text(&mut self, text: &str) -> fmt::Result {
        self.evs.push(format!("T{}", hcommon::hex(text.as_bytes())));
        Ok(())
    }
}

fn unhex(h: &str) -> Vec<u8> {
    hcommon::unhex_atom(&format!("x{}", h)).unwrap_or_default()
}

/// What the default callbacks would write for a recorded event (for the model-free oracle).
fn default_bytes(ev: &str) -> Vec<u8> {
    let (k, rest) = ev.split_at(1);
    let f: Vec<&str> = rest.split(':').collect();
    match k {
        "T" => unhex(f[0]),
        "V" => unhex(f[1]),
        "F" => unhex(f[2]),
        "L" => [b"{".to_vec(), unhex(f[0]), b"}".to_vec()].concat(),
        _ => b"<foreign>".to_vec(),
    }
}

fn observe<P: Props>(r: template::Render<P>, nparts: usize, fail_at: Option<usize>) -> String {
    // (1) the `String` writer (all four trait defaults), (2) `Display` (the `fmt::Formatter` specialisation),
    // (3) a custom writer, through `&mut W`
    let mut s = String::new();
    let sr = r.write(&mut s);
    let d = r.to_string();
    let mut rec = Rec { evs: Vec::new(), fail_at };
    let rr = r.write(&mut rec);
    let out = format!(
        "s={} ev={} r={}",
        hcommon::hex_atom(s.as_bytes()),
        rec.evs.join(","),
        if rr.is_ok() { "ok" } else { "err" }
    );
    // (4) the type-erased path: the rendering as a `Value` (`ToValue for Render`), formatted and as borrowed data
    let v = {
        use emit::value::ToValue;
        r.to_value().to_string()
    };
    // (6) the structured-serialisation paths of the rendering (`sval::Value`, `serde::Serialize`): the rendered text as
    // one string — the same JSON token as the text itself gives
    let via_sval = sval_json::stream_to_string(&r).ok();
    let want_sval = sval_json::stream_to_string(s.as_str()).ok();
    let via_serde = serde_json::to_string(&r).ok();
    let want_serde = serde_json::to_string(s.as_str()).ok();
    let mut fail = None;
    if sr.is_err() {
        fail = Some("string-writer-failed".to_string());
    } else if via_sval != want_sval {
        fail = Some(format!("sval-stream-differs-from-string-writer({})", hcommon::hex(via_sval.unwrap_or_default().as_bytes())));
    } else if via_serde != want_serde {
        fail = Some(format!("serde-differs-from-string-writer({})", hcommon::hex(via_serde.unwrap_or_default().as_bytes())));
    } else if v != s {
        fail = Some(format!("to_value-differs-from-string-writer({})", hcommon::hex(v.as_bytes())));
    } else if d != s {
        fail = Some(format!("display-differs-from-string-writer({})", hcommon::hex(d.as_bytes())));
    } else if rr.is_ok() && rec.evs.iter().flat_map(|e| default_bytes(e)).collect::<Vec<u8>>() != s.as_bytes() {
        fail = Some("rendering-is-not-the-concatenation-of-its-callbacks".to_string());
    } else if rr.is_ok() != fail_at.map(|k| k >= nparts).unwrap_or(true) {
        fail = Some("error-not-propagated".to_string());
    } else if rr.is_ok() {
        // (5) a writer that overrides `write_text` only
        let mut rt = RecText { evs: Vec::new() };
        let _ = r.write(&mut rt);
        let texts = |evs: &[String]| evs.iter().filter(|e| e.starts_with('T')).cloned().collect::<Vec<_>>();
        let bytes: Vec<u8> = rt.evs.iter().flat_map(|e| unhex(e.trim_start_matches("RAW").trim_start_matches('T'))).collect();
        if texts(&rt.evs) != texts(&rec.evs) {
            fail = Some("default-hole-callbacks-write-through-write_text".to_string());
        } else if bytes != s.as_bytes() {
            fail = Some("text-only-writer-renders-differently".to_string());
        }
    }
    match fail {
        None => out,
        Some(f) => format!("{}\tFAIL:{}", out, f),
    }
}

/// `Display` of the rendering through a `fmt::Formatter` that carries width / precision / alignment flags, for the
/// template as given, with adjacent text fragments merged, and with every text fragment cut into single characters.
/// Text is written verbatim whatever the flags, so the three must agree (what the flags do to hole VALUES is the
/// values' business and is the same in all three).
fn flagged_split_invariant(tpl: &Template, vals: &[(&str, Value)]) -> Option<String> {
    enum Item<'a> {
        Text(String),
        Hole(Part<'a>),
    }
    let mut merged: Vec<Item> = Vec::new();
    let mut chars: Vec<Item> = Vec::new();
    for p in tpl.parts() {
        if let Some(t) = p.as_text() {
            match merged.last_mut() {
                Some(Item::Text(prev)) => prev.push_str(t.get()),
                _ => merged.push(Item::Text(t.get().to_string())),
            }
            chars.extend(t.get().chars().map(|c| Item::Text(c.to_string())));
        } else {
            merged.push(Item::Hole(p.by_ref()));
            chars.push(Item::Hole(p.by_ref()));
        }
    }
    fn parts<'a>(items: &'a [Item<'a>]) -> Vec<Part<'a>> {
        items
            .iter()
            .map(|i| match i {
                Item::Text(s) => Part::text_ref(s),
                Item::Hole(p) => p.by_ref(),
            })
            .collect()
    }
    let (pm, pc) = (parts(&merged), parts(&chars));
    let (tm, tc) = (Template::new_ref(&pm), Template::new_ref(&pc));
    let show = |t: &Template| -> [String; 3] {
        [format!("{:>7}", t.render(vals)), format!("{:.1}", t.render(vals)), format!("{:*<4.2}", t.render(vals))]
    };
    let (a, b, c) = (show(tpl), show(&tm), show(&tc));
    if a != b || a != c {
        Some(format!("flagged-rendering-depends-on-text-split({}|{}|{})", hcommon::hex(a[0].as_bytes()), hcommon::hex(b[0].as_bytes()), hcommon::hex(c[0].as_bytes())))
    } else if tpl.parts().all(|p| p.as_text().is_some()) && a.iter().any(|x| *x != tpl.render(vals).to_string()) {
        // no holes at all: the flags have nothing to act on
        Some("flags-changed-hole-free-text".to_string())
    } else {
        None
    }
}

fn run_render(line: &str) -> String {
    (|| -> Option<String> {
        let s = Sexp::parse(line)?;
        let (tag, args) = s.as_tagged()?;
        if tag != "render" || args.len() != 4 {
            return None;
        }
        let t = parse_tpl(&args[0])?;
        let ps = parse_props(&args[1])?;
        let pk = match &args[2] {
            Sexp::Atom(a) if a == "slice" => PropsKind::Slice,
            Sexp::Atom(a) if a == "erased" => PropsKind::Erased,
            Sexp::Atom(a) if a == "with" => PropsKind::With,
            Sexp::Atom(a) if a == "btree" => PropsKind::BTree,
            l => {
                let (tag, a) = l.as_tagged()?;
                if tag != "and" || a.len() != 1 {
                    return None;
                }
                let k = a[0].as_usize()?;
                if k > ps.len() {
                    return None;
                }
                PropsKind::And(k)
            }
        };
        let fail_at = if args[3].as_atom()? == "-" { None } else { Some(args[3].as_usize()?) };
        // template strings and property keys share one pool: a label that is a prefix of a key (or the other way
        // round) starts at the same address as it
        let pool = Pool::new(strings_of(&t.parts).chain(ps.iter().map(|(k, _)| k.as_str())));
        let vals: Vec<(&str, Value)> = ps
            .iter()
            .map(|(k, v)| {
                (
                    pool.get(k.as_str()),
                    match v {
                        V::Str(s) => Value::from(s.as_str()),
                        V::Int(i) => Value::from(*i),
                        V::Bool(b) => Value::from(*b),
                    },
                )
            })
            .collect();
        Some(with_templates_in(std::slice::from_ref(&t), &pool, |tpls| {
            let tpl = &tpls[0];
            let np = tpl.parts().count();
            let out = match pk {
                PropsKind::BTree => {
                    let mut map: std::collections::BTreeMap<emit::Str, Value> = std::collections::BTreeMap::new();
                    for (k, v) in &vals {
                        map.entry(emit::Str::new_ref(k)).or_insert_with(|| v.by_ref());
                    }
                    observe(tpl.render(&map), np, fail_at)
                }
                PropsKind::Slice => observe(tpl.render(&vals[..]), np, fail_at),
                PropsKind::And(k) => observe(tpl.render((&vals[..k]).and_props(&vals[k..])), np, fail_at),
                PropsKind::Erased => {
                    let slice = &vals[..];
                    let erased: &dyn emit::props::ErasedProps = &slice;
                    observe(tpl.render(erased), np, fail_at)
                }
                PropsKind::With => observe(tpl.render(emit::Empty).with_props(&vals[..]), np, fail_at),
            };
            match flagged_split_invariant(tpl, &vals[..]) {
                Some(f) if !out.contains("\tFAIL:") => format!("{}\tFAIL:{}", out, f),
                _ => out,
            }
        }))
    })()
    .unwrap_or_else(|| "bad-case".into())
}

// ------------------------------------------------------------------ c16_macro

fn show_parts(t: &Template) -> String {
    t.parts()
        .map(|p| {
            if let Some(text) = p.as_text() {
                format!("T{}", hcommon::hex(text.get().as_bytes()))
            } else {
                format!(
                    "H{}{}",
                    hcommon::hex(p.label().map(|l| l.get().to_string()).unwrap_or_default().as_bytes()),
                    if p.formatter().is_some() { "+" } else { "" }
                )
            }
        })
        .collect::<Vec<_>>()
        .join(",")
}

/// What one macro entry point produced: the template's parts, the rendered message, the captured pairs.
#[derive(Debug, PartialEq, Clone)]
pub struct Seen {
    parts: String,
    msg: String,
    props: Vec<(String, String)>,
}

fn see<P: Props>(e: &emit::Event<P>) -> Seen {
    let mut props = Vec::new();
    let _ = e.props().for_each(|k, v| {
        props.push((k.get().to_string(), v.to_string()));
        std::ops::ControlFlow::Continue(())
    });
    props.sort();
    Seen { parts: show_parts(e.tpl()), msg: e.msg().to_string(), props }
}

pub struct Fixture {
    /// `stringify!` of the literal token: its source text including the quotes
    src: &'static str,
    declared: fn() -> Vec<(&'static str, V)>,
    ext: &'static [(&'static str, &'static str)],
    /// (`evt!`, `format!`, `emit!` through a capturing runtime, `tpl!` when the literal is legal there)
    /// … and, last, what a span created with `new_span!` on the same literal completes with: (`span_name`, the text of
    /// the completion event's template)
    observe: fn() -> (Seen, String, Vec<Seen>, Option<String>, (String, String)),
    /// `std::format!` on the same literal, where std accepts it
    std: Option<fn() -> String>,
}

#[allow(non_upper_case_globals, dead_code)]
mod fixtures {
    use super::{see, show_parts, Fixture, Seen, V};
    use std::cell::RefCell;

    // what the holes of the fixtures refer to (items, so that macro hygiene does not hide them)
    const user: &str = "Rust";
    const x: i64 = 42;
    const y: i64 = -7;
    const s: &str = "ab";
    const b: bool = true;
    const e: &str = "é🎈";
    const r#type: i64 = 1;

    #[derive(Debug)]
    struct Pt {
        a: i32,
    }

    macro_rules! fx {
        ($std:tt $tpl:tt; ($lit:tt $(, $($rest:tt)*)?); [$($k:literal : $v:expr),*]; [$($el:literal : $ef:literal),*]) => {
            Fixture {
                src: stringify!($lit),
                declared: || vec![$(($k, $v)),*],
                ext: &[$(($el, $ef)),*],
                observe: || {
                    let seen = see(&emit::evt!($lit $(, $($rest)*)?));
                    let formatted = emit::format!($lit $(, $($rest)*)?);
                    let emitted: RefCell<Vec<Seen>> = RefCell::new(Vec::new());
                    {
                        let rt = emit::runtime::Runtime::new()
                            .with_emitter(emit::emitter::from_fn(|evt| emitted.borrow_mut().push(see(&evt))));
                        emit::emit!(rt: &rt, $lit $(, $($rest)*)?);
                    }
                    let span: RefCell<(String, String)> = RefCell::new(Default::default());
                    {
                        use emit::Props;
                        let rt = emit::runtime::Runtime::new().with_emitter(emit::emitter::from_fn(|evt| {
                            *span.borrow_mut() = (
                                evt.props().pull::<emit::Str, _>("span_name").map(|n| n.to_string()).unwrap_or_default(),
                                evt.tpl().to_string(),
                            )
                        }));
                        let (mut guard, frame) = emit::new_span!(rt: &rt, $lit $(, $($rest)*)?);
                        frame.call(move || {
                            guard.start();
                            drop(guard);
                        });
                    }
                    (seen, formatted, emitted.into_inner(), fx!(@tpl $tpl $lit), span.into_inner())
                },
                std: fx!(@std $std $lit),
            }
        };
        (@std std $lit:tt) => { Some(|| std::format!($lit)) };
        (@std nostd $lit:tt) => { None };
        (@tpl tpl $lit:tt) => { Some(show_parts(&emit::tpl!($lit))) };
        (@tpl notpl $lit:tt) => { None };
    }

    fn st(v: &str) -> V {
        V::Str(v.to_string())
    }

    pub fn all() -> Vec<Fixture> {
        vec![
            fx!(std tpl; ("plain text"); []; []),
            fx!(std tpl; (""); []; []),
            fx!(std tpl; ("Hello, {user}"); ["user": st("Rust")]; []),
            fx!(std tpl; ("{{}}"); []; []),
            fx!(std tpl; ("{{{x}}}"); ["x": V::Int(42)]; []),
            fx!(std tpl; ("a {{b}} {x} }}{{ c"); ["x": V::Int(42)]; []),
            fx!(std tpl; ("{x}{y}"); ["x": V::Int(42), "y": V::Int(-7)]; []),
            fx!(std tpl; ("é{x}ü🎈{y}한"); ["x": V::Int(42), "y": V::Int(-7)]; []),
            fx!(std tpl; ("  spaces  {x}  "); ["x": V::Int(42)]; []),
            fx!(std tpl; ("{{{{{b}}}}}{s}"); ["b": V::Bool(true), "s": st("ab")]; []),
            fx!(nostd tpl; ("{ x }"); ["x": V::Int(42)]; []),
            fx!(nostd tpl; ("{r#type}"); ["type": V::Int(1)]; []),
            fx!(nostd notpl; ("sum {z: 1 + 1}"); ["z": V::Int(2)]; []),
            fx!(nostd notpl; ("str {q: \"in}ner{\"} end"); ["q": st("in}ner{")]; []),
            fx!(nostd notpl; ("ch {c: '}'}{d: '{'}"); ["c": st("}"), "d": st("{")]; []),
            fx!(nostd notpl; ("blk {z: { let q = 2; q * 3 }}!"); ["z": V::Int(6)]; []),
            fx!(nostd notpl; ("{z: 1}{{{w: 2}}}"); ["z": V::Int(1), "w": V::Int(2)]; []),
            fx!(nostd notpl; ("{#[emit::fmt(\">08\")] x}"); ["x": V::Int(42)]; []),
            fx!(nostd notpl; ("{#[emit::fmt(\"<6\")] s}|"); ["s": st("ab")]; []),
            fx!(nostd notpl; ("{#[emit::fmt(\"^7\")] b}|"); ["b": V::Bool(true)]; []),
            fx!(nostd notpl; ("{#[emit::fmt(\"?\")] s}"); ["s": st("ab")]; []),
            fx!(nostd notpl; ("{#[emit::fmt(\".1\")] s}"); ["s": st("ab")]; []),
            fx!(nostd notpl; ("{#[emit::fmt(\"*^9\")] e}"); ["e": st("é🎈")]; []),
            fx!(nostd notpl; ("{#[emit::fmt(\"<08\")] y}"); ["y": V::Int(-7)]; []),
            fx!(nostd notpl; ("{#[emit::fmt(\"\")] y} {#[emit::fmt(\"3\")] x}"); ["x": V::Int(42), "y": V::Int(-7)]; []),
            fx!(nostd notpl; ("{#[emit::as_debug] p: Pt { a: 1 }}"); ["p": st("Pt { a: 1 }")]; []),
            fx!(nostd notpl; ("{#[emit::as_debug] #[emit::fmt(\">5\")] o: 5u8}|"); ["o": V::Int(5)]; []),
            fx!(nostd notpl; ("{x} left", #[emit::fmt("<5")] x: 7); ["x": V::Int(7)]; ["x": "<5"]),
            fx!(nostd notpl; ("{x} and more", extra: "unused", x: 8); ["x": V::Int(8), "extra": st("unused")]; []),
            fx!(nostd notpl; ("no holes", k: false); ["k": V::Bool(false)]; []),
            // backslash escapes in the literal
            fx!(std tpl; ("tab\there"); []; []),
            fx!(std tpl; ("quote \" q {x}"); ["x": V::Int(42)]; []),
            fx!(std tpl; ("back\\slash\n{s}\r\0\x41\'"); ["s": st("ab")]; []),
            fx!(std tpl; ("\\{{x}}\\"); []; []),
            fx!(std tpl; ("a\\{x}\n"); ["x": V::Int(42)]; []),
            fx!(std tpl; ("\"{s}\""); ["s": st("ab")]; []),
            fx!(std tpl; ("{{\t}}{x}\x7e"); ["x": V::Int(42)]; []),
            fx!(nostd notpl; ("{#[emit::fmt(\">4\")] z: 7}\t{{{w: \"}\"}"); ["z": V::Int(7), "w": st("}")]; []),
            // an escaped backslash directly followed by a letter that would itself form an escape (Windows paths)
            fx!(std tpl; ("C:\\temp\\new\\root {s}"); ["s": st("ab")]; []),
            fx!(std tpl; ("\\n\\t\\r\\0"); []; []),
            fx!(std tpl; ("a\\\\tb\\\n{x}"); ["x": V::Int(42)]; []),
            fx!(std tpl; ("\\\"\\'{s}\\\\"); ["s": st("ab")]; []),
            // flags whose fill character is ':' (must not be confused with the `{name:spec}` separator)
            fx!(nostd notpl; ("{#[emit::fmt(\":>6\")] x}|{#[emit::fmt(\":<4\")] s}|{#[emit::fmt(\":^5\")] b}"); ["x": V::Int(42), "s": st("ab"), "b": V::Bool(true)]; []),
            fx!(nostd notpl; ("{x}", #[emit::fmt(":>6")] x: 7); ["x": V::Int(7)]; ["x": ":>6"]),
        ]
    }
}

fn fixture_case(i: usize, f: &Fixture) -> String {
    let src = &f.src[1..f.src.len() - 1];
    let props = (f.declared)().iter().map(|(k, v)| Sexp::list(vec![Sexp::str(k), show_val(v)])).collect();
    let ext = f.ext.iter().map(|(l, fl)| Sexp::list(vec![Sexp::str(l), Sexp::str(fl)])).collect();
    Sexp::tagged("macro", vec![Sexp::num(i), Sexp::str(src), Sexp::tagged("props", props), Sexp::tagged("ext", ext)]).to_string()
}

fn gen_macro(_rng: &mut Rng, _tier: Tier, _n: usize) -> Vec<String> {
    fixtures::all().iter().enumerate().map(|(i, f)| fixture_case(i, f)).collect()
}

fn display_val(v: &V) -> String {
    match v {
        V::Str(s) => s.clone(),
        V::Int(i) => i.to_string(),
        V::Bool(b) => b.to_string(),
    }
}

fn run_macro(line: &str) -> String {
    (|| -> Option<String> {
        let sx = Sexp::parse(line)?;
        let (tag, args) = sx.as_tagged()?;
        if tag != "macro" || args.len() != 4 {
            return None;
        }
        let all = fixtures::all();
        let i = args[0].as_usize()?;
        let f = all.get(i)?;
        // the case must be this fixture's own line (the fixtures are compiled in; nothing else can be run)
        if fixture_case(i, f) != sx.to_string() {
            return None;
        }
        let (evt, formatted, emitted, tpl, span) = (f.observe)();
        let out = format!("parts={} msg={}", evt.parts, hcommon::hex_atom(evt.msg.as_bytes()));
        let mut fail = None;
        let mut declared: Vec<(String, String)> = (f.declared)().iter().map(|(k, v)| (k.to_string(), display_val(v))).collect();
        declared.sort();
        if evt.props != declared {
            fail = Some(format!("captured-props-differ-from-declared({:?})", evt.props));
        } else if formatted != evt.msg {
            fail = Some(format!("format!-differs-from-evt!-msg({})", hcommon::hex(formatted.as_bytes())));
        } else if emitted.len() != 1 || emitted[0] != evt {
            fail = Some(format!("emit!-differs-from-evt!({:?})", emitted));
        } else if tpl.as_ref().map(|t| *t != evt.parts).unwrap_or(false) {
            fail = Some(format!("tpl!-differs-from-evt!({})", tpl.unwrap()));
        } else if span.0 != span.1 {
            // the span-name literal the macro derives from the template is the template's own text (holes as `{label}`)
            fail = Some(format!("span-name-differs-from-the-template({}|{})", hcommon::hex(span.0.as_bytes()), hcommon::hex(span.1.as_bytes())));
        } else if let Some(std) = f.std {
            // a macro-built template renders like the same literal given to std's formatting macros
            let expected = std();
            if expected != evt.msg {
                fail = Some(format!("differs-from-std-format-of-the-same-literal({})", hcommon::hex(expected.as_bytes())));
            }
        }
        Some(match fail {
            None => out,
            Some(f) => format!("{}\tFAIL:{}", out, f),
        })
    })()
    .unwrap_or_else(|| "bad-case".into())
}

// ------------------------------------------------------------------ c16_scan

/// Shaped like `emit_macros::template::TemplateVisitor` (which lives in a proc-macro crate and cannot be called):
/// text → the unescaped fragment, hole → key identifier (+ the flags of an `#[emit::fmt("…")]` attribute).
struct Collect {
    out: Result<Vec<String>, ()>,
}

impl fv_template::LiteralVisitor for Collect {
    fn visit_text(&mut self, text: &str) {
        let Ok(out) = &mut self.out else { return };
        let text = if text.contains('\\') {
            match syn::parse_str::<syn::LitStr>(&format!("\"{}\"", text)) {
                Ok(l) => l.value(),
                Err(_) => {
                    self.out = Err(());
                    return;
                }
            }
        } else {
            text.to_owned()
        };
        out.push(format!("T{}", hcommon::hex(text.as_bytes())));
    }

    fn visit_hole(&mut self, hole: &syn::FieldValue) {
        use syn::ext::IdentExt;
        let Ok(out) = &mut self.out else { return };
        let syn::Member::Named(ident) = &hole.member else {
            self.out = Err(());
            return;
        };
        let mut item = format!("H{}", hcommon::hex(ident.unraw().to_string().as_bytes()));
        for attr in &hole.attrs {
            let path = attr.path().segments.iter().map(|s| s.ident.to_string()).collect::<Vec<_>>().join("::");
            if path == "emit::fmt" || path == "fmt" {
                match attr.parse_args::<syn::LitStr>() {
                    Ok(flags) => item = format!("H{}:{}", hcommon::hex(ident.unraw().to_string().as_bytes()), hcommon::hex(flags.value().as_bytes())),
                    Err(_) => {
                        self.out = Err(());
                        return;
                    }
                }
            }
        }
        out.push(item);
    }
}

fn run_scan(line: &str) -> String {
    (|| -> Option<String> {
        let sx = Sexp::parse(line)?;
        let (tag, args) = sx.as_tagged()?;
        if tag != "scan" || args.len() != 1 {
            return None;
        }
        let src = args[0].as_string()?;
        let lit_src = format!("\"{}\"", src);
        // SRC must be the body of one string literal token
        let ts: proc_macro2::TokenStream = lit_src.parse().ok()?;
        let tts: Vec<proc_macro2::TokenTree> = ts.clone().into_iter().collect();
        match &tts[..] {
            [proc_macro2::TokenTree::Literal(l)] if l.to_string() == lit_src => {}
            _ => return None,
        }
        let r = hcommon::catch(|| match fv_template::Template::parse2(ts) {
            Err(_) => "err".to_string(),
            Ok(tpl) => {
                let mut c = Collect { out: Ok(Vec::new()) };
                tpl.visit_literal(&mut c);
                match c.out {
                    Ok(v) if tpl.has_literal() => v.join(","),
                    _ => "err".to_string(),
                }
            }
        });
        Some(r.unwrap_or_else(|| "panic\tFAIL:scanner-panicked".to_string()))
    })()
    .unwrap_or_else(|| "bad-case".into())
}

// ------------------------------------------------------------------ generators

/// 1-, 2-, 3- and 4-byte characters; several share their leading UTF-8 bytes (é/è, €/‚, 🎈/📌), braces included.
const CHARS: [char; 16] = ['a', 'b', 'a', ' ', '{', '}', 'é', 'è', 'ß', '€', '‚', '한', '🎈', '📌', 'x', '0'];
const LABELS: [&str; 11] = ["x", "y", "", "é", "xy", "x", "a b", "{", "xyz", "id", "n"];

#[derive(Clone, Debug, PartialEq)]
enum Atom {
    Text(Vec<char>),
    Hole(String),
}

fn gen_meaning(rng: &mut Rng, max_segs: usize) -> Vec<Atom> {
    let n = rng.usize(max_segs + 1);
    (0..n)
        .map(|_| {
            if rng.chance(2, 5) {
                Atom::Hole(rng.pick(&LABELS).to_string())
            } else {
                let k = 1 + rng.usize(4);
                Atom::Text((0..k).map(|_| *rng.pick(&CHARS)).collect())
            }
        })
        .collect()
}

fn mutate(rng: &mut Rng, m: &mut Vec<Atom>) {
    if m.is_empty() {
        m.push(if rng.bool() { Atom::Text(vec![*rng.pick(&CHARS)]) } else { Atom::Hole(rng.pick(&LABELS).to_string()) });
        return;
    }
    let i = rng.usize(m.len());
    match rng.below(8) {
        0 | 1 => match &mut m[i] {
            // replace a character (often by one of a different UTF-8 width)
            Atom::Text(cs) => {
                let j = rng.usize(cs.len());
                cs[j] = *rng.pick(&CHARS);
            }
            Atom::Hole(l) => *l = rng.pick(&LABELS).to_string(),
        },
        2 => match &mut m[i] {
            Atom::Text(cs) => {
                let j = rng.usize(cs.len() + 1);
                cs.insert(j, *rng.pick(&CHARS));
            }
            Atom::Hole(l) => l.push('x'),
        },
        3 => match &mut m[i] {
            Atom::Text(cs) if cs.len() > 1 => {
                let j = rng.usize(cs.len());
                cs.remove(j);
            }
            _ => {
                m.remove(i);
            }
        },
        4 => m.insert(i, Atom::Hole(rng.pick(&LABELS).to_string())),
        5 => {
            // a hole becomes the text its label renders as (same rendering under no props, different meaning)
            if let Atom::Hole(l) = &m[i] {
                m[i] = Atom::Text(format!("{{{}}}", l).chars().collect());
            } else {
                m.truncate(i);
            }
        }
        6 => {
            if i + 1 < m.len() {
                m.swap(i, i + 1);
            } else {
                m.truncate(i);
            }
        }
        _ => m.push(Atom::Text(vec![*rng.pick(&CHARS)])),
    }
}

/// Lay a meaning out as parts: text split at random character boundaries, empty fragments sprinkled anywhere.
fn layout(rng: &mut Rng, m: &[Atom], empties: bool) -> Vec<P> {
    let mut out = Vec::new();
    let maybe_empty = |rng: &mut Rng, out: &mut Vec<P>| {
        if empties && rng.chance(1, 5) {
            out.push(P::Text(String::new()));
            if rng.chance(1, 4) {
                out.push(P::Text(String::new()));
            }
        }
    };
    for a in m {
        maybe_empty(rng, &mut out);
        match a {
            Atom::Hole(l) => {
                let f = if rng.chance(1, 4) { Some(rng.usize(FORMATTERS.len())) } else { None };
                out.push(P::Hole(l.clone(), f));
            }
            Atom::Text(cs) => {
                let mut cur = String::new();
                for (i, c) in cs.iter().enumerate() {
                    cur.push(*c);
                    if i + 1 < cs.len() && rng.chance(2, 5) {
                        out.push(P::Text(std::mem::take(&mut cur)));
                        maybe_empty(rng, &mut out);
                    }
                }
                out.push(P::Text(cur));
            }
        }
    }
    maybe_empty(rng, &mut out);
    out
}

fn pick_kind(rng: &mut Rng, parts: &[P]) -> Kind {
    if matches!(parts, [P::Text(_)]) && rng.bool() {
        return Kind::Lit;
    }
    *rng.pick(&[Kind::Ref, Kind::Ref, Kind::Owned, Kind::ToOwned, Kind::ByRef])
}

fn eq_case(ts: &[T]) -> String {
    Sexp::tagged("eq", ts.iter().map(show_tpl).collect()).to_string()
}

fn gen_eq(rng: &mut Rng, tier: Tier, n: usize) -> Vec<String> {
    let mut out = Vec::new();
    let t = |kind: Kind, parts: Vec<P>| T { kind, parts };
    let tx = |s: &str| P::Text(s.to_string());
    let h = |s: &str| P::Hole(s.to_string(), None);
    // explicit edge cases
    for (a, b) in [
        (vec![], vec![]),
        (vec![], vec![tx("")]),
        (vec![tx("")], vec![tx(""), tx("")]),
        (vec![tx("a")], vec![tx("a")]),
        (vec![tx("a")], vec![tx("b")]),
        (vec![tx("é")], vec![tx("è")]),
        (vec![h("x")], vec![h("x")]),
        (vec![h("x")], vec![h("y")]),
        (vec![h("x")], vec![tx("{x}")]),
        (vec![tx("a"), tx("b"), h("c"), tx(""), tx("de")], vec![tx(""), tx("ab"), h("c"), tx("de"), tx("")]),
        (vec![tx("a"), h("x")], vec![tx("a"), h("x"), h("x")]),
        (vec![h("x"), tx("")], vec![h("x")]),
    ] {
        out.push(eq_case(&[t(Kind::Ref, a), t(Kind::Ref, b)]));
    }
    let max_segs = if tier == Tier::Thorough { 8 } else { 5 };
    while out.len() < n {
        if rng.chance(1, 12) {
            // the literal fast path (both sides a single text part), also against split copies of the same text
            let words = ["", "a", "é", "aé", "ab", "{x}", "🎈📌", "a b"];
            let k = if rng.chance(1, 3) { 3 } else { 2 };
            let ts: Vec<T> = (0..k)
                .map(|i| {
                    let w = *rng.pick(&words);
                    if i == 2 {
                        let cs: Vec<char> = w.chars().collect();
                        let cut = rng.usize(cs.len() + 1);
                        T { kind: Kind::Ref, parts: vec![P::Text(cs[..cut].iter().collect()), P::Text(cs[cut..].iter().collect())] }
                    } else {
                        T { kind: if rng.chance(3, 4) { Kind::Lit } else { Kind::Owned }, parts: vec![P::Text(w.to_string())] }
                    }
                })
                .collect();
            out.push(eq_case(&ts));
            continue;
        }
        let base = gen_meaning(rng, max_segs);
        let k = if rng.chance(2, 5) { 3 } else { 2 };
        let mut ts = Vec::new();
        for _ in 0..k {
            let mut m = base.clone();
            if rng.chance(2, 5) {
                mutate(rng, &mut m);
                if rng.chance(1, 4) {
                    mutate(rng, &mut m);
                }
            }
            let empties = rng.chance(3, 4);
            let parts = layout(rng, &m, empties);
            let kind = pick_kind(rng, &parts);
            ts.push(T { kind, parts });
        }
        out.push(eq_case(&ts));
    }
    out
}

fn show_val(v: &V) -> Sexp {
    match v {
        V::Str(s) => Sexp::tagged("s", vec![Sexp::str(s)]),
        V::Int(i) => Sexp::tagged("i", vec![Sexp::num(i)]),
        V::Bool(b) => Sexp::tagged("b", vec![Sexp::bool(*b)]),
    }
}

fn gen_val(rng: &mut Rng) -> V {
    match rng.below(6) {
        0 | 1 | 2 => {
            let k = rng.usize(5);
            V::Str((0..k).map(|_| *rng.pick(&CHARS)).collect())
        }
        3 => V::Int(*rng.pick(&[0, 1, -1, 42, -7, 1234567, i64::MAX, i64::MIN, 100000, 999999])),
        4 => V::Int(rng.range(0, 2000000) as i64 - 1000000),
        _ => V::Bool(rng.bool()),
    }
}

fn render_case(t: &T, props: &[(String, V)], pk: &PropsKind, fail_at: Option<usize>) -> String {
    let ps = props.iter().map(|(k, v)| Sexp::list(vec![Sexp::str(k), show_val(v)])).collect();
    let pk = match pk {
        PropsKind::Slice => Sexp::atom("slice"),
        PropsKind::Erased => Sexp::atom("erased"),
        PropsKind::With => Sexp::atom("with"),
        PropsKind::BTree => Sexp::atom("btree"),
        PropsKind::And(k) => Sexp::tagged("and", vec![Sexp::num(k)]),
    };
    let fa = fail_at.map(Sexp::num).unwrap_or_else(|| Sexp::atom("-"));
    Sexp::tagged("render", vec![show_tpl(t), Sexp::tagged("props", ps), pk, fa]).to_string()
}

fn gen_render(rng: &mut Rng, tier: Tier, n: usize) -> Vec<String> {
    let mut out = Vec::new();
    let tx = |s: &str| P::Text(s.to_string());
    let h = |s: &str| P::Hole(s.to_string(), None);
    // the unit test's templates (template::tests::render) and a few edges
    for parts in [
        vec![tx("text")],
        vec![h("greet")],
        vec![tx("Hello, "), h("greet"), tx("!")],
        vec![tx("Hello"), h(""), tx("!")],
        vec![],
        vec![tx("")],
        vec![h("greet"), h("greet")],
        vec![P::Hole("greet".into(), Some(0)), P::Hole("greet".into(), Some(1)), P::Hole("nope".into(), Some(2))],
    ] {
        let kind = if matches!(&parts[..], [P::Text(_)]) { Kind::Lit } else { Kind::Ref };
        let t = T { kind, parts };
        out.push(render_case(&t, &[], &PropsKind::Slice, None));
        out.push(render_case(&t, &[("greet".into(), V::Str("user".into()))], &PropsKind::Slice, None));
        out.push(render_case(
            &t,
            &[("greet".into(), V::Str("user".into())), ("".into(), V::Int(1)), ("greet".into(), V::Str("other".into()))],
            &PropsKind::And(1),
            None,
        ));
    }
    let max_segs = if tier == Tier::Thorough { 9 } else { 6 };
    while out.len() < n {
        let mut m = gen_meaning(rng, max_segs);
        if m.is_empty() && rng.chance(4, 5) {
            mutate(rng, &mut m);
        }
        let empties = rng.bool();
        let mut parts = layout(rng, &m, empties);
        for p in parts.iter_mut() {
            if let P::Hole(_, f) = p {
                if rng.chance(1, 3) {
                    *f = Some(rng.usize(FORMATTERS.len()));
                }
            }
        }
        let labels: Vec<String> = parts.iter().filter_map(|p| if let P::Hole(l, _) = p { Some(l.clone()) } else { None }).collect();
        let np = rng.usize(6);
        let props: Vec<(String, V)> = (0..np)
            .map(|_| {
                let k = if !labels.is_empty() && rng.chance(2, 3) { rng.pick(&labels).clone() } else { rng.pick(&LABELS).to_string() };
                (k, gen_val(rng))
            })
            .collect();
        let pk = match rng.below(6) {
            0 | 1 => PropsKind::Slice,
            2 => PropsKind::And(rng.usize(props.len() + 1)),
            3 => PropsKind::Erased,
            4 => PropsKind::BTree,
            _ => PropsKind::With,
        };
        let fail_at = if rng.chance(1, 4) { Some(rng.usize(parts.len() + 2)) } else { None };
        let kind = pick_kind(rng, &parts);
        out.push(render_case(&T { kind, parts }, &props, &pk, fail_at));
    }
    out
}

const SCAN_TEXT: [&str; 30] = [
    "a", "b", " ", "x", "é", "🎈", "한", "0", ":", "#", "[", "]", "'", "/", "{{", "}}", "{{", "}}", "\\n", "\\t", "\\\\", "\\\"",
    "\\'", "\\0", "\\r", "\\x41", "\\x7e", "\\x7b", "ab", "\\\\{{",
];
const SCAN_HOLES: [&str; 30] = [
    "x", "y", " x ", "user", "r#type", "_a1", "x: 1 + 1", "x:2", "s: \\\"a}b{\\\"", "c: '}'", "d: '{'", "z: { 1 }",
    "z: { let q = 2; q * 3 }", "#[emit::fmt(\\\">08\\\")] x", "#[emit::fmt(\\\"\\\")] x", "#[fmt(\\\"?\\\")] y: 2",
    "#[emit::as_debug] #[emit::fmt(\\\"<5\\\")] y: 2", "#[a(b[0])] k", "#[emit::as_debug] p: Pt { a: 1 }", "x: 4 / 2",
    "x: m!{ 1 }", "#[emit::fmt(\\\"*^9\\\")] #[b] e", "x: [1, 2][0]", "x: \\\"]\\\"", "é: 1", "x: 'a'", "t: (1, \\\"}\\\")", "x : 1",
    "#[emit::optional] o: Some(1)", "x: \\\"\\\"",
];
/// rejected by the macros; complete in themselves, so they may sit anywhere
const SCAN_BAD: [&str; 9] = ["}", "{}", "{ }", "{1}", "{x: 1 // c}", "{x: /* c */ 1}", "{x y}", "{-}", "{x}}"];
/// rejected because the hole never ends: only at the end of a literal (followed by more text they would swallow it as
/// an expression, and the model does not parse expressions)
const SCAN_BAD_OPEN: [&str; 5] = ["{", "{x", "{x: {}", "{x: '}", "{#[a x}"];

fn gen_scan(rng: &mut Rng, tier: Tier, n: usize) -> Vec<String> {
    let mut out: Vec<String> = Vec::new();
    let case = |src: &str| Sexp::tagged("scan", vec![Sexp::str(src)]).to_string();
    out.push(case(""));
    for h in SCAN_HOLES {
        out.push(case(&format!("{{{}}}", h)));
    }
    for b in SCAN_BAD {
        out.push(case(b));
        out.push(case(&format!("a{}b", b)));
    }
    for b in SCAN_BAD_OPEN {
        out.push(case(b));
        out.push(case(&format!("a{{x}}{}", b)));
    }
    let max = if tier == Tier::Thorough { 10 } else { 6 };
    while out.len() < n {
        let k = 1 + rng.usize(max);
        let mut src = String::new();
        for _ in 0..k {
            match rng.below(10) {
                0..=5 => src.push_str(*rng.pick(&SCAN_TEXT)),
                6..=8 => {
                    src.push('{');
                    src.push_str(*rng.pick(&SCAN_HOLES));
                    src.push('}');
                }
                _ => {
                    if rng.chance(1, 3) {
                        src.push_str(*rng.pick(&SCAN_BAD));
                    } else {
                        src.push_str(*rng.pick(&SCAN_TEXT));
                    }
                }
            }
        }
        if rng.chance(1, 12) {
            src.push_str(*rng.pick(&SCAN_BAD_OPEN));
        }
        out.push(case(&src));
    }
    out
}
