//! C20 — a runtime slot is initialised at most once and is inert before that.
//! Drives REAL `emit::runtime::AmbientSlot`s (a fresh leaked one per case) through `emit::setup()…try_init_slot`.
//! Case formats: see lean/EmitModel/Driver/C20.lean.

use std::sync::atomic::{AtomicBool, Ordering};
use std::sync::{mpsc, Arc, Barrier, Mutex};
use std::time::Duration;

use emit::runtime::AmbientSlot;
use emit::{Clock, Ctxt, Emitter, Filter, Props, Rng as _};
use hcommon::{catch, Rng, Sexp, Stream, Tier};

pub fn streams() -> Vec<Stream> {
    vec![
        Stream { name: "c20", gen: gen_c20, run: run_c20 },
        Stream { name: "c20_race", gen: gen_race, run: run_race },
        Stream { name: "c20_global", gen: gen_global, run: run_global },
    ]
}

// ------------------------------------------------------------------ components that carry their configuration id

type Log = Arc<Mutex<Vec<(u64, i64)>>>; // (configuration, event id); probes have negative ids

struct CfgEmitter(u64, Log);
impl Emitter for CfgEmitter {
    fn emit<E: emit::event::ToEvent>(&self, evt: E) {
        let evt = evt.to_event();
        let id = evt.props().pull::<i64, _>("id").unwrap_or(i64::MIN);
        self.1.lock().unwrap().push((self.0, id));
    }
    fn blocking_flush(&self, _: Duration) -> bool {
        true
    }
}

thread_local! { static LAST_FILTER: std::cell::Cell<Option<u64>> = const { std::cell::Cell::new(None) }; }
struct CfgFilter(u64);
impl Filter for CfgFilter {
    fn matches<E: emit::event::ToEvent>(&self, _: E) -> bool {
        LAST_FILTER.with(|c| c.set(Some(self.0)));
        true
    }
}

struct CfgCtxt((&'static str, u64));
impl Ctxt for CfgCtxt {
    type Current = (&'static str, u64);
    type Frame = ();
    fn open_root<P: Props>(&self, _: P) -> Self::Frame {}
    fn enter(&self, _: &mut Self::Frame) {}
    fn with_current<R, F: FnOnce(&Self::Current) -> R>(&self, with: F) -> R {
        with(&self.0)
    }
    fn exit(&self, _: &mut Self::Frame) {}
    fn close(&self, _: Self::Frame) {}
}

struct CfgClock(u64);
impl Clock for CfgClock {
    fn now(&self) -> Option<emit::Timestamp> {
        emit::Timestamp::from_unix(Duration::from_secs(self.0))
    }
}

struct CfgRng(u64);
impl emit::Rng for CfgRng {
    fn fill<A: AsMut<[u8]>>(&self, mut arr: A) -> Option<A> {
        for b in arr.as_mut() {
            *b = self.0 as u8;
        }
        Some(arr)
    }
    fn gen_u64(&self) -> Option<u64> {
        Some(self.0)
    }
}

/// `Some(handle_ok)` when this attempt won; `handle_ok` = the returned `Init` handle itself (`Init::get()`,
/// `Init::emitter()`, `Init::ctxt()`) shows the winner's components and flushes.
fn try_init(slot: &'static AmbientSlot, cfg: u64, log: &Log) -> Option<bool> {
    let init = emit::setup()
        .emit_to(CfgEmitter(cfg, log.clone()))
        .emit_when(CfgFilter(cfg))
        .with_ctxt(CfgCtxt(("cfg", cfg)))
        .with_clock(CfgClock(cfg))
        .with_rng(CfgRng(cfg))
        .try_init_slot(slot)?;
    let rt = init.get();
    let via_handle = rt.clock().now().map(|t| t.to_unix().as_secs()) == Some(cfg)
        && rt.rng().gen_u64() == Some(cfg)
        && rt.ctxt().with_current(|p| p.pull::<u64, _>("cfg")) == Some(cfg)
        && init.emitter().0 == cfg
        && (init.ctxt().0).1 == cfg
        && init.blocking_flush(Duration::from_millis(5));
    Some(via_handle)
}

fn event(id: i64) -> emit::Event<'static, (&'static str, i64)> {
    emit::Event::new(emit::Path::new_raw("c20"), emit::Template::literal("c20"), emit::Empty, ("id", id))
}

/// Read the configuration id off each of the five components of `slot.get()`; `None` = the empty component.
fn observe(slot: &'static AmbientSlot, log: &Log, probe: i64) -> [Option<u64>; 5] {
    let rt = slot.get();
    // emitter: send a probe straight to it and see which recorder got it
    rt.emitter().emit(event(probe));
    let e = log.lock().unwrap().iter().find(|(_, id)| *id == probe).map(|(c, _)| *c);
    LAST_FILTER.with(|c| c.set(None));
    let _ = rt.filter().matches(event(probe));
    let f = LAST_FILTER.with(|c| c.get());
    let c = rt.ctxt().with_current(|p| p.pull::<u64, _>("cfg"));
    let t = rt.clock().now().map(|t| t.to_unix().as_secs());
    let r = rt.rng().gen_u64();
    [e, f, c, t, r]
}

fn emit_via(slot: &'static AmbientSlot, log: &Log, id: i64) -> Option<u64> {
    slot.get().emit(event(id));
    log.lock().unwrap().iter().find(|(_, i)| *i == id).map(|(c, _)| *c)
}

// ------------------------------------------------------------------ sequential schedules on actor threads

enum Cmd {
    Init(u64),
    Obs(i64),
    Emit(i64),
    Flush,
    Enabled,
    Stop,
}

fn run_c20(line: &str) -> String {
    (|| -> Option<String> {
        let s = Sexp::parse(line)?;
        let (tag, steps) = s.as_tagged()?;
        if tag != "c20" {
            return None;
        }
        // two independent slots: steps `(T OP)` address slot 0, steps `(T s1 OP)` slot 1 (a thread that lost an
        // initialisation of one slot must still be able to win the other)
        let slots: [&'static AmbientSlot; 2] =
            [Box::leak(Box::new(AmbientSlot::new())), Box::leak(Box::new(AmbientSlot::new()))];
        let logs: [Log; 2] = [Arc::new(Mutex::new(Vec::new())), Arc::new(Mutex::new(Vec::new()))];
        let mut uses_s1 = false;
        // parse first
        let mut plan = Vec::new();
        let mut probe = -1i64;
        for st in steps {
            let l = st.as_list()?;
            let which = match l.len() {
                2 => 0usize,
                3 if l[1].as_atom() == Some("s1") => {
                    uses_s1 = true;
                    1
                }
                _ => return None,
            };
            let t = l[0].as_usize()?;
            if t > 3 {
                return None;
            }
            let cmd = match &l[l.len() - 1] {
                Sexp::Atom(a) => match a.as_str() {
                    "obs" => {
                        probe -= 1;
                        Cmd::Obs(probe)
                    }
                    "flush" => Cmd::Flush,
                    "enabled" => Cmd::Enabled,
                    _ => return None,
                },
                op => {
                    let (n, a) = op.as_tagged()?;
                    match (n, a.len()) {
                        ("init", 1) => Cmd::Init(a[0].as_u64()?),
                        ("emit", 1) => Cmd::Emit(a[0].as_u64()? as i64),
                        _ => return None,
                    }
                }
            };
            plan.push((t, which, cmd));
        }
        // actor threads: each runs the commands addressed to it, one at a time, in schedule order
        let mut chans = Vec::new();
        let mut handles = Vec::new();
        for _ in 0..4 {
            let (tx, rx) = mpsc::channel::<(usize, Cmd, mpsc::Sender<String>)>();
            let logs = logs.clone();
            handles.push(std::thread::spawn(move || {
                for (which, cmd, reply) in rx {
                    let (slot, log) = (slots[which], &logs[which]);
                    let out = match cmd {
                        Cmd::Init(i) => match try_init(slot, i, log) {
                            Some(true) => "init=true".to_string(),
                            Some(false) => "init=true\tFAIL:winner-handle-shows-other-components".to_string(),
                            None => "init=false".to_string(),
                        },
                        Cmd::Obs(p) => {
                            let o = observe(slot, log, p);
                            if o.iter().all(|x| x.is_none()) {
                                "comp=empty".to_string()
                            } else {
                                let f = |x: Option<u64>| x.map(|v| v.to_string()).unwrap_or("none".into());
                                format!("comp=({},{},{},{},{})", f(o[0]), f(o[1]), f(o[2]), f(o[3]), f(o[4]))
                            }
                        }
                        Cmd::Emit(e) => match emit_via(slot, log, e) {
                            Some(c) => format!("to={}", c),
                            None => "to=none".into(),
                        },
                        Cmd::Flush => {
                            let rt = slot.get();
                            let all = [Duration::ZERO, Duration::from_nanos(1), Duration::from_millis(10)]
                                .iter()
                                .all(|t| Emitter::blocking_flush(rt, *t) && rt.emitter().blocking_flush(*t));
                            format!("flush={}", all)
                        }
                        Cmd::Enabled => format!("en={}", slot.is_enabled()),
                        Cmd::Stop => break,
                    };
                    let _ = reply.send(out);
                }
            }));
            chans.push(tx);
        }
        let mut outs = Vec::new();
        for (t, which, cmd) in plan {
            let (rtx, rrx) = mpsc::channel();
            chans[t].send((which, cmd, rtx)).ok()?;
            outs.push(rrx.recv_timeout(Duration::from_secs(20)).unwrap_or_else(|_| "hang".into()));
        }
        for c in &chans {
            let (rtx, _r) = mpsc::channel();
            let _ = c.send((0, Cmd::Stop, rtx));
        }
        for h in handles {
            let _ = h.join();
        }
        let recv = |k: usize| -> String {
            logs[k].lock().unwrap().iter().filter(|(_, id)| *id >= 0).map(|(c, e)| format!("({} {})", c, e)).collect::<Vec<_>>().join(" ")
        };
        let mut out = format!("{} recv=({})", outs.join(" "), recv(0));
        if uses_s1 {
            out.push_str(&format!(" recv1=({})", recv(1)));
        }
        Some(out)
    })()
    .unwrap_or_else(|| "bad-case".into())
}

// ------------------------------------------------------------------ OS-scheduled races, checked against what every interleaving must satisfy

fn run_race(line: &str) -> String {
    (|| -> Option<String> {
        let s = Sexp::parse(line)?;
        let (tag, a) = s.as_tagged()?;
        if tag != "race" || a.len() != 4 {
            return None;
        }
        let (ni, ne, no, k) = (a[0].as_usize()?, a[1].as_usize()?, a[2].as_usize()?, a[3].as_usize()?);
        if ni > 32 || ne > 16 || no > 16 || k > 200 {
            return None;
        }
        let slot: &'static AmbientSlot = Box::leak(Box::new(AmbientSlot::new()));
        let log: Log = Arc::new(Mutex::new(Vec::new()));
        let barrier = Arc::new(Barrier::new(ni + ne + no));
        let torn = Arc::new(AtomicBool::new(false));
        let unstable = Arc::new(AtomicBool::new(false));
        let results: Arc<Mutex<Vec<(u64, bool)>>> = Arc::new(Mutex::new(Vec::new()));
        let mut hs = Vec::new();
        for i in 0..ni {
            let (b, log, results, torn) = (barrier.clone(), log.clone(), results.clone(), torn.clone());
            hs.push(std::thread::spawn(move || {
                b.wait();
                let ok = try_init(slot, 100 + i as u64, &log);
                if ok == Some(false) {
                    torn.store(true, Ordering::SeqCst);
                }
                results.lock().unwrap().push((100 + i as u64, ok.is_some()));
            }));
        }
        for e in 0..ne {
            let (b, log) = (barrier.clone(), log.clone());
            hs.push(std::thread::spawn(move || {
                b.wait();
                for j in 0..k {
                    slot.get().emit(event((e * 1000 + j) as i64));
                    let _ = &log;
                }
            }));
        }
        for o in 0..no {
            let (b, log, torn, unstable) = (barrier.clone(), log.clone(), torn.clone(), unstable.clone());
            hs.push(std::thread::spawn(move || {
                b.wait();
                let mut seen: Option<u64> = None;
                for j in 0..k {
                    let was_enabled = slot.is_enabled();
                    let obs = observe(slot, &log, -((o * 100000 + j) as i64) - 1);
                    let all_none = obs.iter().all(|x| x.is_none());
                    let all_same = obs.iter().all(|x| x.is_some() && *x == obs[0]);
                    if !(all_none || all_same) {
                        torn.store(true, Ordering::SeqCst);
                    }
                    if was_enabled && all_none {
                        unstable.store(true, Ordering::SeqCst);
                    }
                    if let Some(w) = seen {
                        if obs[0] != Some(w) {
                            unstable.store(true, Ordering::SeqCst);
                        }
                    }
                    if all_same {
                        seen = obs[0];
                    }
                }
            }));
        }
        for h in hs {
            h.join().ok()?;
        }
        let res = results.lock().unwrap();
        let winners: Vec<u64> = res.iter().filter(|(_, ok)| *ok).map(|(c, _)| *c).collect();
        let stray = log.lock().unwrap().iter().filter(|(c, _)| !winners.contains(c)).count();
        Some(format!(
            "winners={} stray={} torn={} unstable={}",
            winners.len(),
            stray,
            torn.load(Ordering::SeqCst) as u8,
            unstable.load(Ordering::SeqCst) as u8
        ))
    })()
    .unwrap_or_else(|| "bad-case".into())
}

// ------------------------------------------------------------------ generators

fn gen_c20(rng: &mut Rng, tier: Tier, n: usize) -> Vec<String> {
    let max = if tier == Tier::Thorough { 24 } else { 12 };
    (0..n)
        .map(|_| {
            let len = rng.usize(max + 1);
            let two_slots = rng.chance(1, 3);
            let first_init = rng.usize(len + 1); // a stretch of pre-initialisation steps first
            let mut next_e = 0u64;
            let steps = (0..len)
                .map(|i| {
                    let t = Sexp::num(rng.below(4));
                    let op = match rng.below(if i < first_init { 4 } else { 6 }) {
                        0 => Sexp::atom("obs"),
                        1 => {
                            next_e += 1;
                            Sexp::tagged("emit", vec![Sexp::num(next_e)])
                        }
                        2 => Sexp::atom("flush"),
                        3 => Sexp::atom("enabled"),
                        _ => Sexp::tagged("init", vec![Sexp::num(1 + rng.below(5))]),
                    };
                    if two_slots && rng.bool() {
                        Sexp::list(vec![t, Sexp::atom("s1"), op])
                    } else {
                        Sexp::list(vec![t, op])
                    }
                })
                .collect();
            Sexp::tagged("c20", steps).to_string()
        })
        .collect()
}

fn gen_race(rng: &mut Rng, tier: Tier, n: usize) -> Vec<String> {
    let kmax = if tier == Tier::Thorough { 100 } else { 30 };
    (0..n)
        .map(|i| {
            let ni = if i % 17 == 0 { 0 } else { 2 + rng.usize(15) };
            Sexp::tagged(
                "race",
                vec![Sexp::num(ni), Sexp::num(1 + rng.usize(4)), Sexp::num(1 + rng.usize(3)), Sexp::num(1 + rng.usize(kmax))],
            )
            .to_string()
        })
        .collect()
}

// ------------------------------------------------------------------ the process-global slots (shared and internal)

/// The two global slots can be initialised once per process, so only the FIRST case a harness process sees is
/// run for real (the check runs this stream as one single-case process); the model line is what the slot
/// theorems fix for each slot independently of the other: exactly one winner each.
fn run_global(line: &str) -> String {
    use emit::runtime::AssertInternal;
    static USED: AtomicBool = AtomicBool::new(false);
    (|| -> Option<String> {
        let s = Sexp::parse(line)?;
        let (tag, a) = s.as_tagged()?;
        if tag == "gseq" {
            let plan = a.iter().map(gop).collect::<Option<Vec<_>>>()?;
            if USED.swap(true, Ordering::SeqCst) {
                return Some("<process-already-used>".into());
            }
            return Some(run_gseq(plan));
        }
        if tag != "global" || a.len() != 2 {
            return None;
        }
        let shared_first = match a[0].as_atom()? {
            "shared-first" => true,
            "internal-first" => false,
            _ => return None,
        };
        let n = a[1].as_usize()?;
        if n == 0 || n > 16 {
            return None;
        }
        if USED.swap(true, Ordering::SeqCst) {
            return Some("shared=1 internal=1 stray=0".into()); // not re-runnable in this process; see above
        }
        let log: Log = Arc::new(Mutex::new(Vec::new()));
        let race = |internal: bool| -> usize {
            let barrier = Arc::new(Barrier::new(n));
            let wins = Arc::new(std::sync::atomic::AtomicUsize::new(0));
            let hs: Vec<_> = (0..n)
                .map(|i| {
                    let (b, wins, log) = (barrier.clone(), wins.clone(), log.clone());
                    std::thread::spawn(move || {
                        b.wait();
                        let cfg = if internal { 500 + i as u64 } else { 400 + i as u64 };
                        let setup = emit::setup()
                            .emit_to(AssertInternal(CfgEmitter(cfg, log.clone())))
                            .emit_when(AssertInternal(CfgFilter(cfg)))
                            .with_ctxt(AssertInternal(CfgCtxt(("cfg", cfg))))
                            .with_clock(AssertInternal(CfgClock(cfg)))
                            .with_rng(AssertInternal(CfgRng(cfg)));
                        let won = if internal { setup.try_init_internal().is_some() } else { setup.try_init().is_some() };
                        if won {
                            wins.fetch_add(1, Ordering::SeqCst);
                        }
                    })
                })
                .collect();
            for h in hs {
                let _ = h.join();
            }
            wins.load(Ordering::SeqCst)
        };
        let (shared, internal) = if shared_first {
            let s = race(false);
            (s, race(true))
        } else {
            let i = race(true);
            (race(false), i)
        };
        // events through each global runtime reach that slot's winner only
        emit::runtime::shared().emit(event(1));
        emit::runtime::internal().emit(event(2));
        let l = log.lock().unwrap();
        let stray = l.iter().filter(|(c, id)| !((*id == 1 && (400..500).contains(c)) || (*id == 2 && (500..600).contains(c)))).count();
        Some(format!("shared={} internal={} stray={}", shared, internal, stray))
    })()
    .unwrap_or_else(|| "bad-case".into())
}

fn gen_global(rng: &mut Rng, tier: Tier, _n: usize) -> Vec<String> {
    // both orders; the check runs every case of this stream in its own process (`per_case_process`)
    let mut out =
        vec![format!("(global shared-first {})", 2 + rng.usize(7)), format!("(global internal-first {})", 2 + rng.usize(7))];
    // sequential scripts through the public front doors of the global slots
    let n = if tier == Tier::Thorough { 60 } else { 14 };
    for i in 0..n {
        out.push(gen_gseq(rng, i));
    }
    out
}

// ------------------------------------------------------------------ the global slots through the public front doors
//
// (gseq OP…) — one process per case. Everything goes through what an application calls: the macros WITHOUT `rt:`
// (they expand to `emit::runtime::shared()`), `emit::emitter()/filter()/ctxt()/clock()/rng()`,
// `emit::blocking_flush()`, `Setup::init()` / `init_internal()` (panicking forms, caught), `Init::flush_on_drop`.
//   OP ::= (init I F) | (tryinit I F) | (initguard I F T) | dropguard | (initint I F) | (tryinitint I F)
//        | (emit E LM) | (span E LM) | (rtemit E LM) | (direct E LM) | (emitint E LM) | (flush T) | obs
//   F  ::= all | none | (minlvl LEVEL) | (idge N)        LM ::= plain | debug | info | warn | error
// Output: one token per op, then what every configuration's emitter received `(cfg id lvl amb clocked|bare)` and every flush
// it saw `(cfg timeout_ns)`. See lean/EmitModel/Driver/C20.lean.

use emit::Level;

#[derive(Clone)]
enum FSpec {
    All,
    None,
    MinLvl(Level),
    IdGe(i64),
}

enum GOp {
    Init(u64, FSpec),
    TryInit(u64, FSpec),
    InitGuard(u64, FSpec, u64),
    DropGuard,
    InitInt(u64, FSpec),
    TryInitInt(u64, FSpec),
    Emit(i64, Option<Level>),
    Span(i64, Option<Level>),
    RtEmit(i64, Option<Level>),
    /// `emit::dbg!(id)`: the shared runtime, level debug, no call-site filter possible
    Dbg(i64),
    Direct(i64, Option<Level>),
    EmitInt(i64, Option<Level>),
    Flush(u64),
    Obs,
}

fn glevel(s: &Sexp) -> Option<Level> {
    Some(match s.as_atom()? {
        "debug" => Level::Debug,
        "info" => Level::Info,
        "warn" => Level::Warn,
        "error" => Level::Error,
        _ => return None,
    })
}

fn glm(s: &Sexp) -> Option<Option<Level>> {
    if s.as_atom()? == "plain" {
        Some(None)
    } else {
        glevel(s).map(Some)
    }
}

fn fspec(s: &Sexp) -> Option<FSpec> {
    match s.as_atom() {
        Some("all") => return Some(FSpec::All),
        Some("none") => return Some(FSpec::None),
        Some(_) => return None,
        None => {}
    }
    match s.as_tagged()? {
        ("minlvl", [l]) => Some(FSpec::MinLvl(glevel(l)?)),
        ("idge", [n]) => Some(FSpec::IdGe(n.as_u64()? as i64)),
        _ => None,
    }
}

fn gop(s: &Sexp) -> Option<GOp> {
    match s.as_atom() {
        Some("dropguard") => return Some(GOp::DropGuard),
        Some("obs") => return Some(GOp::Obs),
        Some(_) => return None,
        None => {}
    }
    let id = |s: &Sexp| s.as_u64().filter(|n| *n < 1_000_000).map(|n| n as i64);
    Some(match s.as_tagged()? {
        ("init", [i, f]) => GOp::Init(i.as_u64()?, fspec(f)?),
        ("tryinit", [i, f]) => GOp::TryInit(i.as_u64()?, fspec(f)?),
        ("initguard", [i, f, t]) => GOp::InitGuard(i.as_u64()?, fspec(f)?, t.as_u64()?),
        ("initint", [i, f]) => GOp::InitInt(i.as_u64()?, fspec(f)?),
        ("tryinitint", [i, f]) => GOp::TryInitInt(i.as_u64()?, fspec(f)?),
        ("emit", [e, l]) => GOp::Emit(id(e)?, glm(l)?),
        ("span", [e, l]) => GOp::Span(id(e)?, glm(l)?),
        ("rtemit", [e, l]) => GOp::RtEmit(id(e)?, glm(l)?),
        ("dbg", [e]) => GOp::Dbg(id(e)?),
        ("direct", [e, l]) => GOp::Direct(id(e)?, glm(l)?),
        ("emitint", [e, l]) => GOp::EmitInt(id(e)?, glm(l)?),
        ("flush", [t]) => GOp::Flush(t.as_u64()?),
        _ => return None,
    })
}

/// What a configuration's emitter saw: (cfg, event id, level text, the ambient `cfg` property).
type GLog = Arc<Mutex<(Vec<(u64, i64, String, Option<u64>, bool)>, Vec<(u64, u128)>)>>;

/// Flushing succeeds when the timeout is at least this many nanoseconds (so the result depends on the argument).
const FLUSH_NEEDS_NS: u128 = 500;

struct GEmitter(u64, GLog);
impl Emitter for GEmitter {
    fn emit<E: emit::event::ToEvent>(&self, evt: E) {
        let evt = evt.to_event();
        let id = evt.props().pull::<i64, _>("id").unwrap_or(i64::MIN);
        let lvl = evt.props().pull::<Level, _>("lvl").map(|l| l.to_string()).unwrap_or_else(|| "none".into());
        let amb = evt.props().pull::<u64, _>("cfg");
        // the events of this stream carry no extent of their own: one that arrives with an extent got it from
        // the runtime's clock (a point for events, the timer's range for spans)
        let clocked = evt.extent().is_some();
        self.1.lock().unwrap().0.push((self.0, id, lvl, amb, clocked));
    }
    fn blocking_flush(&self, timeout: Duration) -> bool {
        self.1.lock().unwrap().1.push((self.0, timeout.as_nanos()));
        timeout.as_nanos() >= FLUSH_NEEDS_NS
    }
}

struct GFilter(u64, FSpec);
impl Filter for GFilter {
    fn matches<E: emit::event::ToEvent>(&self, evt: E) -> bool {
        LAST_FILTER.with(|c| c.set(Some(self.0)));
        let evt = evt.to_event();
        match &self.1 {
            FSpec::All => true,
            FSpec::None => false,
            // the library's own level filter
            FSpec::MinLvl(l) => emit::level::min_filter(*l).matches(&evt),
            FSpec::IdGe(n) => evt.props().pull::<i64, _>("id").map(|i| i >= *n).unwrap_or(false),
        }
    }
}

/// A user `Ctxt` with real frames (only the required methods): the ambient properties are `cfg = <configuration>`
/// plus whatever the entered frame carries.
#[derive(Clone)]
enum GV {
    I(i64),
    S(String),
}
struct GProps(Vec<(String, GV)>);
impl Props for GProps {
    fn for_each<'kv, F: FnMut(emit::Str<'kv>, emit::Value<'kv>) -> std::ops::ControlFlow<()>>(
        &'kv self,
        mut for_each: F,
    ) -> std::ops::ControlFlow<()> {
        for (k, v) in &self.0 {
            let v = match v {
                GV::I(i) => emit::Value::from(*i),
                GV::S(s) => emit::Value::from(s.as_str()),
            };
            for_each(emit::Str::new_ref(k), v)?;
        }
        std::ops::ControlFlow::Continue(())
    }
}
/// The frame is 16 bytes large and 16-byte aligned: small enough for the slot's type-erased inline storage, which is
/// only 8-byte aligned — so the slot has to box it. Every method checks that the frame it is handed is aligned
/// (`frame-misaligned`; a misaligned `&mut` is undefined behaviour, whatever the processor then does with it).
#[repr(align(16))]
struct GFrame(Option<Box<Vec<(String, GV)>>>);
static G_MISALIGNED: AtomicBool = AtomicBool::new(false);
fn g_aligned(f: &GFrame) {
    if (f as *const GFrame as usize) % std::mem::align_of::<GFrame>() != 0 {
        G_MISALIGNED.store(true, Ordering::SeqCst);
    }
}
struct GCtxt {
    base: GProps,
    cur: Mutex<Option<Box<Vec<(String, GV)>>>>,
}
impl GCtxt {
    fn new(cfg: u64) -> Self {
        GCtxt { base: GProps(vec![("cfg".into(), GV::I(cfg as i64))]), cur: Mutex::new(None) }
    }
}
impl Ctxt for GCtxt {
    type Current = GProps;
    type Frame = GFrame;
    fn open_root<P: Props>(&self, props: P) -> Self::Frame {
        let mut v = Vec::new();
        let _ = props.for_each(|k, val| {
            let gv = match val.by_ref().cast::<i64>() {
                Some(i) => GV::I(i),
                None => GV::S(val.to_string()),
            };
            v.push((k.get().to_string(), gv));
            std::ops::ControlFlow::Continue(())
        });
        GFrame(Some(Box::new(v)))
    }
    fn enter(&self, frame: &mut Self::Frame) {
        g_aligned(frame);
        std::mem::swap(&mut *self.cur.lock().unwrap(), &mut frame.0);
    }
    fn with_current<R, F: FnOnce(&Self::Current) -> R>(&self, with: F) -> R {
        let cur = self.cur.lock().unwrap().clone();
        match cur {
            Some(v) => with(&GProps(*v)),
            None => with(&self.base),
        }
    }
    fn exit(&self, frame: &mut Self::Frame) {
        g_aligned(frame);
        std::mem::swap(&mut *self.cur.lock().unwrap(), &mut frame.0);
    }
    fn close(&self, frame: Self::Frame) {
        g_aligned(&frame);
    }
}

type GSetup = emit::Setup<GEmitter, GFilter, GCtxt, CfgClock, CfgRng>;
fn gsetup(cfg: u64, f: &FSpec, log: &GLog) -> GSetup {
    emit::setup()
        .emit_to(GEmitter(cfg, log.clone()))
        .emit_when(GFilter(cfg, f.clone()))
        .with_ctxt(GCtxt::new(cfg))
        .with_clock(CfgClock(cfg))
        .with_rng(CfgRng(cfg))
}

type GSetupInt = emit::Setup<
    emit::runtime::AssertInternal<GEmitter>,
    emit::runtime::AssertInternal<GFilter>,
    emit::runtime::AssertInternal<GCtxt>,
    emit::runtime::AssertInternal<CfgClock>,
    emit::runtime::AssertInternal<CfgRng>,
>;
fn gsetup_int(cfg: u64, f: &FSpec, log: &GLog) -> GSetupInt {
    use emit::runtime::AssertInternal as A;
    emit::setup()
        .emit_to(A(GEmitter(cfg, log.clone())))
        .emit_when(A(GFilter(cfg, f.clone())))
        .with_ctxt(A(GCtxt::new(cfg)))
        .with_clock(A(CfgClock(cfg)))
        .with_rng(A(CfgRng(cfg)))
}

// ---- the static call sites: macros WITHOUT `rt:`

fn g_emit(l: Option<Level>, id: i64) {
    match l {
        None => emit::emit!("g {id}"),
        Some(Level::Debug) => emit::debug!("g {id}"),
        Some(Level::Info) => emit::info!("g {id}"),
        Some(Level::Warn) => emit::warn!("g {id}"),
        Some(Level::Error) => emit::error!("g {id}"),
    }
}

#[emit::span("gs {id}")]
fn gs_plain(id: i64) {}
#[emit::debug_span("gs {id}")]
fn gs_debug(id: i64) {}
#[emit::info_span("gs {id}")]
fn gs_info(id: i64) {}
#[emit::warn_span("gs {id}")]
fn gs_warn(id: i64) {}
fn gs_error(id: i64) {
    // the `new_*_span!` form without `rt:`
    let (mut guard, frame) = emit::new_error_span!("gs {id}");
    frame.call(move || {
        guard.start();
        drop(guard);
    })
}

fn g_span(l: Option<Level>, id: i64) {
    match l {
        None => gs_plain(id),
        Some(Level::Debug) => gs_debug(id),
        Some(Level::Info) => gs_info(id),
        Some(Level::Warn) => gs_warn(id),
        Some(Level::Error) => gs_error(id),
    }
}

/// A hand-built event (id, optional typed level), for the entry points that take a value.
fn with_gevent<R>(id: i64, l: Option<Level>, f: impl FnOnce(&emit::Event<&[(&str, emit::Value)]>) -> R) -> R {
    let mut props: Vec<(&str, emit::Value)> = vec![("id", emit::Value::from(id))];
    let lv;
    if let Some(l) = l {
        lv = l;
        props.push(("lvl", emit::Value::capture_display(&lv)));
    }
    f(&emit::Event::new(emit::Path::new_raw("c20"), emit::Template::literal("c20"), emit::Empty, &props[..]))
}

fn run_gseq(plan: Vec<GOp>) -> String {
    let log: GLog = Arc::new(Mutex::new((Vec::new(), Vec::new())));
    let mut guards: Vec<emit::setup::InitGuard<'static, GEmitter, GCtxt>> = Vec::new();
    let mut outs = Vec::new();
    let mut fails: Vec<String> = Vec::new();
    // which configuration received event `id` since `from`
    let to = |log: &GLog, from: usize, id: i64| -> String {
        let l = log.lock().unwrap();
        let hits: Vec<u64> = l.0[from..].iter().filter(|r| r.1 == id).map(|r| r.0).collect();
        match hits[..] {
            [] => "to=none".into(),
            [c] => format!("to={}", c),
            _ => format!("to=many{:?}", hits),
        }
    };
    for op in plan {
        let from = log.lock().unwrap().0.len();
        let out = match op {
            GOp::Init(i, f) => match catch(|| gsetup(i, &f, &log).init()) {
                Some(init) => {
                    // the handle shows the winner's own components
                    if init.emitter().0 != i || init.ctxt().base.0.len() != 1 {
                        fails.push("init-handle-shows-other-components".into());
                    }
                    "init=ok".to_string()
                }
                None => "init=panic".into(),
            },
            GOp::TryInit(i, f) => format!("tryinit={}", gsetup(i, &f, &log).try_init().is_some()),
            GOp::InitGuard(i, f, t) => match catch(|| gsetup(i, &f, &log).init()) {
                Some(init) => {
                    let g = init.flush_on_drop(Duration::from_nanos(t));
                    if g.inner().emitter().0 != i {
                        fails.push("guard-inner-shows-other-components".into());
                    }
                    guards.push(g);
                    "initguard=ok".to_string()
                }
                None => "initguard=panic".into(),
            },
            GOp::DropGuard => {
                guards.clear();
                "dropguard".into()
            }
            GOp::InitInt(i, f) => match catch(|| gsetup_int(i, &f, &log).init_internal()) {
                Some(_) => "initint=ok".to_string(),
                None => "initint=panic".into(),
            },
            GOp::TryInitInt(i, f) => format!("tryinitint={}", gsetup_int(i, &f, &log).try_init_internal().is_some()),
            GOp::Emit(e, l) => {
                g_emit(l, e);
                to(&log, from, e)
            }
            GOp::Span(e, l) => {
                g_span(l, e);
                to(&log, from, e)
            }
            GOp::RtEmit(e, l) => {
                with_gevent(e, l, |evt| emit::runtime::shared().emit(evt));
                to(&log, from, e)
            }
            GOp::Dbg(e) => {
                // (`dbg!` captures with Debug by default; the recorder and the `idge` filter read `id` as a number)
                let id = e;
                emit::dbg!(#[emit::as_value] id);
                to(&log, from, e)
            }
            GOp::Direct(e, l) => {
                with_gevent(e, l, |evt| emit::emitter().emit(evt));
                to(&log, from, e)
            }
            GOp::EmitInt(e, l) => {
                with_gevent(e, l, |evt| emit::runtime::internal().emit(evt));
                to(&log, from, e)
            }
            GOp::Flush(t) => format!("flush={}", emit::blocking_flush(Duration::from_nanos(t))),
            GOp::Obs => {
                // the five global accessors
                let e = {
                    with_gevent(-7, None, |evt| emit::emitter().emit(evt));
                    let mut l = log.lock().unwrap();
                    let c = l.0[from..].iter().find(|r| r.1 == -7).map(|r| r.0);
                    l.0.truncate(from);
                    c
                };
                LAST_FILTER.with(|c| c.set(None));
                let _ = with_gevent(-7, None, |evt| emit::filter().matches(evt));
                let f = LAST_FILTER.with(|c| c.get());
                let c = emit::ctxt().with_current(|p| p.pull::<u64, _>("cfg"));
                let t = emit::clock().now().map(|t| t.to_unix().as_secs());
                let r = emit::rng().gen_u64();
                let o = [e, f, c, t, r];
                if o.iter().all(|x| x.is_none()) {
                    "comp=empty".to_string()
                } else {
                    let f = |x: Option<u64>| x.map(|v| v.to_string()).unwrap_or("none".into());
                    format!("comp=({},{},{},{},{})", f(o[0]), f(o[1]), f(o[2]), f(o[3]), f(o[4]))
                }
            }
        };
        outs.push(out);
    }
    // live guards are leaked, not dropped: only `dropguard` flushes
    std::mem::forget(guards);
    let l = log.lock().unwrap();
    let recv: Vec<String> = l
        .0
        .iter()
        .map(|(c, id, lvl, amb, clocked)| {
            let amb = amb.map(|a| a.to_string()).unwrap_or("none".into());
            format!("({} {} {} {} {})", c, id, lvl, amb, if *clocked { "clocked" } else { "bare" })
        })
        .collect();
    let fl: Vec<String> = l.1.iter().map(|(c, t)| format!("({} {})", c, t)).collect();
    let out = format!("{} recv=({}) flushes=({})", outs.join(" "), recv.join(" "), fl.join(" "));
    if G_MISALIGNED.load(Ordering::SeqCst) {
        fails.push("frame-misaligned".into());
    }
    if fails.is_empty() {
        out
    } else {
        format!("{}\tFAIL:{}", out, fails.join("+"))
    }
}

fn gen_fspec(rng: &mut Rng) -> Sexp {
    match rng.below(6) {
        0 | 1 => Sexp::atom("all"),
        2 => Sexp::atom("none"),
        3 | 4 => Sexp::tagged("minlvl", vec![Sexp::atom(*rng.pick(&["debug", "info", "warn", "error"]))]),
        _ => Sexp::tagged("idge", vec![Sexp::num(rng.below(12))]),
    }
}

fn gen_gseq(rng: &mut Rng, k: usize) -> String {
    let len = 6 + rng.usize(14);
    // a stretch before any initialisation (sometimes the whole script), then initialisers mixed in
    let first_init = if k % 5 == 4 { len } else { rng.usize(len / 2 + 1) };
    let mut next_e = 0u64;
    let mut next_i = 0u64;
    let mut ops = Vec::new();
    let lm = |rng: &mut Rng| Sexp::atom(*rng.pick(&["plain", "debug", "info", "warn", "error"]));
    for i in 0..len {
        let mut ev = |rng: &mut Rng, tag: &str| {
            next_e += 1;
            Sexp::tagged(tag, vec![Sexp::num(next_e), lm(rng)])
        };
        // at the first initialisation point an initialiser for sure, afterwards one op in four
        let pick = if i < first_init {
            rng.below(9)
        } else if i == first_init || rng.chance(1, 4) {
            9 + rng.below(5)
        } else {
            rng.below(9)
        };
        let op = match pick {
            0 => ev(rng, "emit"),
            1 => {
                if rng.bool() {
                    ev(rng, "emit")
                } else {
                    next_e += 1;
                    Sexp::tagged("dbg", vec![Sexp::num(next_e)])
                }
            }
            2 => ev(rng, "span"),
            3 => ev(rng, "rtemit"),
            4 => ev(rng, "direct"),
            5 => ev(rng, "emitint"),
            6 => Sexp::tagged("flush", vec![Sexp::num(*rng.pick(&[0u64, 1, 499, 500, 501, 1_000_000]))]),
            7 => Sexp::atom("obs"),
            8 => Sexp::atom("dropguard"),
            n => {
                next_i += 1;
                let tag = match n {
                    9 => "init",
                    10 => "tryinit",
                    11 => "initguard",
                    12 => "initint",
                    _ => "tryinitint",
                };
                let mut a = vec![Sexp::num(next_i), gen_fspec(rng)];
                if tag == "initguard" {
                    a.push(Sexp::num(*rng.pick(&[0u64, 499, 500, 7_000])));
                }
                Sexp::tagged(tag, a)
            }
        };
        ops.push(op);
    }
    Sexp::tagged("gseq", ops).to_string()
}
