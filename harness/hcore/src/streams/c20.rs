//! C20 — a runtime slot is initialised at most once and is inert before that.
//! Drives REAL `emit::runtime::AmbientSlot`s (a fresh leaked one per case) through `emit::setup()…try_init_slot`.
//! Case formats: see lean/EmitModel/Driver/C20.lean.

use std::sync::atomic::{AtomicBool, Ordering};
use std::sync::{mpsc, Arc, Barrier, Mutex};
use std::time::Duration;

use emit::runtime::AmbientSlot;
use emit::{Clock, Ctxt, Emitter, Filter, Props, Rng as _};
use hcommon::{Rng, Sexp, Stream, Tier};

pub fn streams() -> Vec<Stream> {
    vec![
        Stream { name: "c20", gen: gen_c20, run: run_c20 },
        Stream { name: "c20_race", gen: gen_race, run: run_race },
        Stream { name: "c20_global", gen: gen_global, run: run_global },
    ]
}

// ------------------------------------------------------------------ components that carry their configuration id

type Log = Arc<Mutex<Vec<(u64, i64)>>>; // (configuration, event id); probes have negative ids

struct CfgEmitter(u64, Log);
impl Emitter for CfgEmitter {
    fn emit<E: emit::event::ToEvent>(&self, evt: E) {
        let evt = evt.to_event();
        let id = evt.props().pull::<i64, _>("id").unwrap_or(i64::MIN);
        self.1.lock().unwrap().push((self.0, id));
    }
    fn blocking_flush(&self, _: Duration) -> bool {
        true
    }
}

thread_local! { static LAST_FILTER: std::cell::Cell<Option<u64>> = const { std::cell::Cell::new(None) }; }
struct CfgFilter(u64);
impl Filter for CfgFilter {
    fn matches<E: emit::event::ToEvent>(&self, _: E) -> bool {
        LAST_FILTER.with(|c| c.set(Some(self.0)));
        true
    }
}

struct CfgCtxt((&'static str, u64));
impl Ctxt for CfgCtxt {
    type Current = (&'static str, u64);
    type Frame = ();
    fn open_root<P: Props>(&self, _: P) -> Self::Frame {}
    fn enter(&self, _: &mut Self::Frame) {}
    fn with_current<R, F: FnOnce(&Self::Current) -> R>(&self, with: F) -> R {
        with(&self.0)
    }
    fn exit(&self, _: &mut Self::Frame) {}
    fn close(&self, _: Self::Frame) {}
}

struct CfgClock(u64);
impl Clock for CfgClock {
    fn now(&self) -> Option<emit::Timestamp> {
        emit::Timestamp::from_unix(Duration::from_secs(self.0))
    }
}

struct CfgRng(u64);
impl emit::Rng for CfgRng {
    fn fill<A: AsMut<[u8]>>(&self, mut arr: A) -> Option<A> {
        for b in arr.as_mut() {
            *b = self.0 as u8;
        }
        Some(arr)
    }
    fn gen_u64(&self) -> Option<u64> {
        Some(self.0)
    }
}

/// `Some(handle_ok)` when this attempt won; `handle_ok` = the returned `Init` handle itself (`Init::get()`,
/// `Init::emitter()`, `Init::ctxt()`) shows the winner's components and flushes.
fn try_init(slot: &'static AmbientSlot, cfg: u64, log: &Log) -> Option<bool> {
    let init = emit::setup()
        .emit_to(CfgEmitter(cfg, log.clone()))
        .emit_when(CfgFilter(cfg))
        .with_ctxt(CfgCtxt(("cfg", cfg)))
        .with_clock(CfgClock(cfg))
        .with_rng(CfgRng(cfg))
        .try_init_slot(slot)?;
    let rt = init.get();
    let via_handle = rt.clock().now().map(|t| t.to_unix().as_secs()) == Some(cfg)
        && rt.rng().gen_u64() == Some(cfg)
        && rt.ctxt().with_current(|p| p.pull::<u64, _>("cfg")) == Some(cfg)
        && init.emitter().0 == cfg
        && (init.ctxt().0).1 == cfg
        && init.blocking_flush(Duration::from_millis(5));
    Some(via_handle)
}

fn event(id: i64) -> emit::Event<'static, (&'static str, i64)> {
    emit::Event::new(emit::Path::new_raw("c20"), emit::Template::literal("c20"), emit::Empty, ("id", id))
}

/// Read the configuration id off each of the five components of `slot.get()`; `None` = the empty component.
fn observe(slot: &'static AmbientSlot, log: &Log, probe: i64) -> [Option<u64>; 5] {
    let rt = slot.get();
    // emitter: send a probe straight to it and see which recorder got it
    rt.emitter().emit(event(probe));
    let e = log.lock().unwrap().iter().find(|(_, id)| *id == probe).map(|(c, _)| *c);
    LAST_FILTER.with(|c| c.set(None));
    let _ = rt.filter().matches(event(probe));
    let f = LAST_FILTER.with(|c| c.get());
    let c = rt.ctxt().with_current(|p| p.pull::<u64, _>("cfg"));
    let t = rt.clock().now().map(|t| t.to_unix().as_secs());
    let r = rt.rng().gen_u64();
    [e, f, c, t, r]
}

fn emit_via(slot: &'static AmbientSlot, log: &Log, id: i64) -> Option<u64> {
    slot.get().emit(event(id));
    log.lock().unwrap().iter().find(|(_, i)| *i == id).map(|(c, _)| *c)
}

// ------------------------------------------------------------------ sequential schedules on actor threads

enum Cmd {
    Init(u64),
    Obs(i64),
    Emit(i64),
    Flush,
    Enabled,
    Stop,
}

fn run_c20(line: &str) -> String {
    (|| -> Option<String> {
        let s = Sexp::parse(line)?;
        let (tag, steps) = s.as_tagged()?;
        if tag != "c20" {
            return None;
        }
        // two independent slots: steps `(T OP)` address slot 0, steps `(T s1 OP)` slot 1 (a thread that lost an
        // initialisation of one slot must still be able to win the other)
        let slots: [&'static AmbientSlot; 2] =
            [Box::leak(Box::new(AmbientSlot::new())), Box::leak(Box::new(AmbientSlot::new()))];
        let logs: [Log; 2] = [Arc::new(Mutex::new(Vec::new())), Arc::new(Mutex::new(Vec::new()))];
        let mut uses_s1 = false;
        // parse first
        let mut plan = Vec::new();
        let mut probe = -1i64;
        for st in steps {
            let l = st.as_list()?;
            let which = match l.len() {
                2 => 0usize,
                3 if l[1].as_atom() == Some("s1") => {
                    uses_s1 = true;
                    1
                }
                _ => return None,
            };
            let t = l[0].as_usize()?;
            if t > 3 {
                return None;
            }
            let cmd = match &l[l.len() - 1] {
                Sexp::Atom(a) => match a.as_str() {
                    "obs" => {
                        probe -= 1;
                        Cmd::Obs(probe)
                    }
                    "flush" => Cmd::Flush,
                    "enabled" => Cmd::Enabled,
                    _ => return None,
                },
                op => {
                    let (n, a) = op.as_tagged()?;
                    match (n, a.len()) {
                        ("init", 1) => Cmd::Init(a[0].as_u64()?),
                        ("emit", 1) => Cmd::Emit(a[0].as_u64()? as i64),
                        _ => return None,
                    }
                }
            };
            plan.push((t, which, cmd));
        }
        // actor threads: each runs the commands addressed to it, one at a time, in schedule order
        let mut chans = Vec::new();
        let mut handles = Vec::new();
        for _ in 0..4 {
            let (tx, rx) = mpsc::channel::<(usize, Cmd, mpsc::Sender<String>)>();
            let logs = logs.clone();
            handles.push(std::thread::spawn(move || {
                for (which, cmd, reply) in rx {
                    let (slot, log) = (slots[which], &logs[which]);
                    let out = match cmd {
                        Cmd::Init(i) => match try_init(slot, i, log) {
                            Some(true) => "init=true".to_string(),
                            Some(false) => "init=true\tFAIL:winner-handle-shows-other-components".to_string(),
                            None => "init=false".to_string(),
                        },
                        Cmd::Obs(p) => {
                            let o = observe(slot, log, p);
                            if o.iter().all(|x| x.is_none()) {
                                "comp=empty".to_string()
                            } else {
                                let f = |x: Option<u64>| x.map(|v| v.to_string()).unwrap_or("none".into());
                                format!("comp=({},{},{},{},{})", f(o[0]), f(o[1]), f(o[2]), f(o[3]), f(o[4]))
                            }
                        }
                        Cmd::Emit(e) => match emit_via(slot, log, e) {
                            Some(c) => format!("to={}", c),
                            None => "to=none".into(),
                        },
                        Cmd::Flush => {
                            let rt = slot.get();
                            let all = [Duration::ZERO, Duration::from_nanos(1), Duration::from_millis(10)]
                                .iter()
                                .all(|t| Emitter::blocking_flush(rt, *t) && rt.emitter().blocking_flush(*t));
                            format!("flush={}", all)
                        }
                        Cmd::Enabled => format!("en={}", slot.is_enabled()),
                        Cmd::Stop => break,
                    };
                    let _ = reply.send(out);
                }
            }));
            chans.push(tx);
        }
        let mut outs = Vec::new();
        for (t, which, cmd) in plan {
            let (rtx, rrx) = mpsc::channel();
            chans[t].send((which, cmd, rtx)).ok()?;
            outs.push(rrx.recv_timeout(Duration::from_secs(20)).unwrap_or_else(|_| "hang".into()));
        }
        for c in &chans {
            let (rtx, _r) = mpsc::channel();
            let _ = c.send((0, Cmd::Stop, rtx));
        }
        for h in handles {
            let _ = h.join();
        }
        let recv = |k: usize| -> String {
            logs[k].lock().unwrap().iter().filter(|(_, id)| *id >= 0).map(|(c, e)| format!("({} {})", c, e)).collect::<Vec<_>>().join(" ")
        };
        let mut out = format!("{} recv=({})", outs.join(" "), recv(0));
        if uses_s1 {
            out.push_str(&format!(" recv1=({})", recv(1)));
        }
        Some(out)
    })()
    .unwrap_or_else(|| "bad-case".into())
}

// ------------------------------------------------------------------ OS-scheduled races, checked against what every interleaving must satisfy

fn run_race(line: &str) -> String {
    (|| -> Option<String> {
        let s = Sexp::parse(line)?;
        let (tag, a) = s.as_tagged()?;
        if tag != "race" || a.len() != 4 {
            return None;
        }
        let (ni, ne, no, k) = (a[0].as_usize()?, a[1].as_usize()?, a[2].as_usize()?, a[3].as_usize()?);
        if ni > 32 || ne > 16 || no > 16 || k > 200 {
            return None;
        }
        let slot: &'static AmbientSlot = Box::leak(Box::new(AmbientSlot::new()));
        let log: Log = Arc::new(Mutex::new(Vec::new()));
        let barrier = Arc::new(Barrier::new(ni + ne + no));
        let torn = Arc::new(AtomicBool::new(false));
        let unstable = Arc::new(AtomicBool::new(false));
        let results: Arc<Mutex<Vec<(u64, bool)>>> = Arc::new(Mutex::new(Vec::new()));
        let mut hs = Vec::new();
        for i in 0..ni {
            let (b, log, results, torn) = (barrier.clone(), log.clone(), results.clone(), torn.clone());
            hs.push(std::thread::spawn(move || {
                b.wait();
                let ok = try_init(slot, 100 + i as u64, &log);
                if ok == Some(false) {
                    torn.store(true, Ordering::SeqCst);
                }
                results.lock().unwrap().push((100 + i as u64, ok.is_some()));
            }));
        }
        for e in 0..ne {
            let (b, log) = (barrier.clone(), log.clone());
            hs.push(std::thread::spawn(move || {
                b.wait();
                for j in 0..k {
                    slot.get().emit(event((e * 1000 + j) as i64));
                    let _ = &log;
                }
            }));
        }
        for o in 0..no {
            let (b, log, torn, unstable) = (barrier.clone(), log.clone(), torn.clone(), unstable.clone());
            hs.push(std::thread::spawn(move || {
                b.wait();
                let mut seen: Option<u64> = None;
                for j in 0..k {
                    let was_enabled = slot.is_enabled();
                    let obs = observe(slot, &log, -((o * 100000 + j) as i64) - 1);
                    let all_none = obs.iter().all(|x| x.is_none());
                    let all_same = obs.iter().all(|x| x.is_some() && *x == obs[0]);
                    if !(all_none || all_same) {
                        torn.store(true, Ordering::SeqCst);
                    }
                    if was_enabled && all_none {
                        unstable.store(true, Ordering::SeqCst);
                    }
                    if let Some(w) = seen {
                        if obs[0] != Some(w) {
                            unstable.store(true, Ordering::SeqCst);
                        }
                    }
                    if all_same {
                        seen = obs[0];
                    }
                }
            }));
        }
        for h in hs {
            h.join().ok()?;
        }
        let res = results.lock().unwrap();
        let winners: Vec<u64> = res.iter().filter(|(_, ok)| *ok).map(|(c, _)| *c).collect();
        let stray = log.lock().unwrap().iter().filter(|(c, _)| !winners.contains(c)).count();
        Some(format!(
            "winners={} stray={} torn={} unstable={}",
            winners.len(),
            stray,
            torn.load(Ordering::SeqCst) as u8,
            unstable.load(Ordering::SeqCst) as u8
        ))
    })()
    .unwrap_or_else(|| "bad-case".into())
}

// ------------------------------------------------------------------ generators

fn gen_c20(rng: &mut Rng, tier: Tier, n: usize) -> Vec<String> {
    let max = if tier == Tier::Thorough { 24 } else { 12 };
    (0..n)
        .map(|_| {
            let len = rng.usize(max + 1);
            let two_slots = rng.chance(1, 3);
            let first_init = rng.usize(len + 1); // a stretch of pre-initialisation steps first
            let mut next_e = 0u64;
            let steps = (0..len)
                .map(|i| {
                    let t = Sexp::num(rng.below(4));
                    let op = match rng.below(if i < first_init { 4 } else { 6 }) {
                        0 => Sexp::atom("obs"),
                        1 => {
                            next_e += 1;
                            Sexp::tagged("emit", vec![Sexp::num(next_e)])
                        }
                        2 => Sexp::atom("flush"),
                        3 => Sexp::atom("enabled"),
                        _ => Sexp::tagged("init", vec![Sexp::num(1 + rng.below(5))]),
                    };
                    if two_slots && rng.bool() {
                        Sexp::list(vec![t, Sexp::atom("s1"), op])
                    } else {
                        Sexp::list(vec![t, op])
                    }
                })
                .collect();
            Sexp::tagged("c20", steps).to_string()
        })
        .collect()
}

fn gen_race(rng: &mut Rng, tier: Tier, n: usize) -> Vec<String> {
    let kmax = if tier == Tier::Thorough { 100 } else { 30 };
    (0..n)
        .map(|i| {
            let ni = if i % 17 == 0 { 0 } else { 2 + rng.usize(15) };
            Sexp::tagged(
                "race",
                vec![Sexp::num(ni), Sexp::num(1 + rng.usize(4)), Sexp::num(1 + rng.usize(3)), Sexp::num(1 + rng.usize(kmax))],
            )
            .to_string()
        })
        .collect()
}

// ------------------------------------------------------------------ the process-global slots (shared and internal)

/// The two global slots can be initialised once per process, so only the FIRST case a harness process sees is
/// run for real (the check runs this stream as one single-case process); the model line is what the slot
/// theorems fix for each slot independently of the other: exactly one winner each.
fn run_global(line: &str) -> String {
    use emit::runtime::AssertInternal;
    static USED: AtomicBool = AtomicBool::new(false);
    (|| -> Option<String> {
        let s = Sexp::parse(line)?;
        let (tag, a) = s.as_tagged()?;
        if tag != "global" || a.len() != 2 {
            return None;
        }
        let shared_first = match a[0].as_atom()? {
            "shared-first" => true,
            "internal-first" => false,
            _ => return None,
        };
        let n = a[1].as_usize()?;
        if n == 0 || n > 16 {
            return None;
        }
        if USED.swap(true, Ordering::SeqCst) {
            return Some("shared=1 internal=1 stray=0".into()); // not re-runnable in this process; see above
        }
        let log: Log = Arc::new(Mutex::new(Vec::new()));
        let race = |internal: bool| -> usize {
            let barrier = Arc::new(Barrier::new(n));
            let wins = Arc::new(std::sync::atomic::AtomicUsize::new(0));
            let hs: Vec<_> = (0..n)
                .map(|i| {
                    let (b, wins, log) = (barrier.clone(), wins.clone(), log.clone());
                    std::thread::spawn(move || {
                        b.wait();
                        let cfg = if internal { 500 + i as u64 } else { 400 + i as u64 };
                        let setup = emit::setup()
                            .emit_to(AssertInternal(CfgEmitter(cfg, log.clone())))
                            .emit_when(AssertInternal(CfgFilter(cfg)))
                            .with_ctxt(AssertInternal(CfgCtxt(("cfg", cfg))))
                            .with_clock(AssertInternal(CfgClock(cfg)))
                            .with_rng(AssertInternal(CfgRng(cfg)));
                        let won = if internal { setup.try_init_internal().is_some() } else { setup.try_init().is_some() };
                        if won {
                            wins.fetch_add(1, Ordering::SeqCst);
                        }
                    })
                })
                .collect();
            for h in hs {
                let _ = h.join();
            }
            wins.load(Ordering::SeqCst)
        };
        let (shared, internal) = if shared_first {
            let s = race(false);
            (s, race(true))
        } else {
            let i = race(true);
            (race(false), i)
        };
        // events through each global runtime reach that slot's winner only
        emit::runtime::shared().emit(event(1));
        emit::runtime::internal().emit(event(2));
        let l = log.lock().unwrap();
        let stray = l.iter().filter(|(c, id)| !((*id == 1 && (400..500).contains(c)) || (*id == 2 && (500..600).contains(c)))).count();
        Some(format!("shared={} internal={} stray={}", shared, internal, stray))
    })()
    .unwrap_or_else(|| "bad-case".into())
}

fn gen_global(rng: &mut Rng, _tier: Tier, _n: usize) -> Vec<String> {
    // both orders; the check runs every case of this stream in its own process (`per_case_process`)
    vec![format!("(global shared-first {})", 2 + rng.usize(7)), format!("(global internal-first {})", 2 + rng.usize(7))]
}
