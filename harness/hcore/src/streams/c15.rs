//! C15 — text forms round-trip and every parser is total.
//! Drives the REAL codecs through every public entry point (`FromStr`, `try_from_*`, `parse(Display)`,
//! `Value::cast`) under `catch_unwind`; case formats are documented in lean/EmitModel/Driver/C15.lean.
//!
//! Implementation-side oracles (evaluated on the real outputs alone):
//!   * no entry point panics;
//!   * all entry points agree on the same text;
//!   * an accepted text re-formats to its canonical form, a formatted value parses back to itself.

use emit::{Props, SpanId, Timestamp, TraceId, Value};
use std::time::Duration;
use emit_traceparent::{TraceFlags, Traceparent};
use hcommon::{catch, Rng, Sexp, Stream, Tier};

/// the start class `is_valid_path` uses: XID_Start or an underscore (Rust identifiers may start with `_`)
fn xid_start(c: char) -> bool {
    unicode_ident::is_xid_start(c) || c == '_'
}

pub fn streams() -> Vec<Stream> {
    vec![
        Stream { name: "c15_hex", gen: gen_hex, run: run_hex },
        Stream { name: "c15_ts", gen: gen_ts, run: run_ts },
        Stream { name: "c15_path", gen: gen_path, run: run_path },
        Stream { name: "c15_kind", gen: gen_kind, run: run_kind },
    ]
}

// ------------------------------------------------------------------ outcomes and oracles

#[derive(Clone, PartialEq, Eq, Debug)]
enum Out<T> {
    Ok(T),
    Err,
    Panic,
}

impl<T> Out<T> {
    fn of_result<E>(f: impl FnOnce() -> Result<T, E>) -> Out<T> {
        match catch(f) {
            Some(Ok(v)) => Out::Ok(v),
            Some(Err(_)) => Out::Err,
            None => Out::Panic,
        }
    }
    fn of_option(f: impl FnOnce() -> Option<T>) -> Out<T> {
        match catch(f) {
            Some(Some(v)) => Out::Ok(v),
            Some(None) => Out::Err,
            None => Out::Panic,
        }
    }
    fn render(&self, f: impl Fn(&T) -> String) -> String {
        match self {
            Out::Ok(v) => format!("ok({})", f(v)),
            Out::Err => "err".into(),
            Out::Panic => "panic".into(),
        }
    }
}

/// Collects the outcomes of several entry points for one input and the oracle verdicts.
struct Verdict<T> {
    outs: Vec<(&'static str, Out<T>)>,
    fails: Vec<String>,
}

impl<T: PartialEq + Clone> Verdict<T> {
    fn new() -> Self {
        Verdict { outs: Vec::new(), fails: Vec::new() }
    }
    fn add(&mut self, name: &'static str, out: Out<T>) {
        self.outs.push((name, out));
    }
    fn fail(&mut self, why: impl Into<String>) {
        self.fails.push(why.into());
    }
    /// The common outcome; records oracle failures for panics and disagreements.
    fn finish(mut self, render: impl Fn(&T) -> String) -> String {
        let first = self.outs[0].1.clone();
        for (name, o) in &self.outs {
            if *o == Out::Panic {
                self.fails.push(format!("panic-in-{}", name));
            }
            if *o != first {
                self.fails.push(format!(
                    "entry-points-differ:{}={},{}={}",
                    self.outs[0].0,
                    first.render(&render),
                    name,
                    o.render(&render)
                ));
            }
        }
        let mut s = first.render(&render);
        if !self.fails.is_empty() {
            s.push_str("\tFAIL:");
            s.push_str(&self.fails.join(";").replace(['\t', '\n'], " "));
        }
        s
    }
}

fn with_fail(out: String, fails: Vec<String>) -> String {
    if fails.is_empty() {
        out
    } else {
        format!("{}\tFAIL:{}", out, fails.join(";").replace(['\t', '\n'], " "))
    }
}

// ------------------------------------------------------------------ c15_hex: running

/// A `Display` that is not a string (goes through `visit_any`/`Display` rather than `visit_str`).
struct Disp<'a>(&'a str);
impl<'a> std::fmt::Display for Disp<'a> {
    fn fmt(&self, f: &mut std::fmt::Formatter) -> std::fmt::Result {
        f.write_str(self.0)
    }
}

/// the same text written in several fragments (what a composite `Display` impl, or `write!` with arguments, does):
/// one character at a time, and in three pieces
struct DispChars<'a>(&'a str);
impl<'a> std::fmt::Display for DispChars<'a> {
    fn fmt(&self, f: &mut std::fmt::Formatter) -> std::fmt::Result {
        let mut buf = [0u8; 4];
        for c in self.0.chars() {
            f.write_str(c.encode_utf8(&mut buf))?;
        }
        Ok(())
    }
}
struct DispThirds<'a>(&'a str);
impl<'a> std::fmt::Display for DispThirds<'a> {
    fn fmt(&self, f: &mut std::fmt::Formatter) -> std::fmt::Result {
        let s = self.0;
        let cut = |at: usize| (at..=s.len()).find(|i| s.is_char_boundary(*i)).unwrap_or(s.len());
        let (a, b) = (cut(s.len() / 3), cut(2 * s.len() / 3));
        write!(f, "{}{}{}", &s[..a], &s[a..b], &s[b..])
    }
}

fn parse_tid(bytes: &[u8]) -> String {
    let mut v = Verdict::new();
    v.add("try_from_hex_slice", Out::of_result(|| TraceId::try_from_hex_slice(bytes).map(|t| t.to_u128())));
    if let Ok(s) = std::str::from_utf8(bytes) {
        v.add("from_str", Out::of_result(|| s.parse::<TraceId>().map(|t| t.to_u128())));
        v.add("try_from_hex", Out::of_result(|| TraceId::try_from_hex(s).map(|t| t.to_u128())));
        v.add("try_from_hex(Display)", Out::of_result(|| TraceId::try_from_hex(Disp(s)).map(|t| t.to_u128())));
        v.add("try_from_hex(Display by chars)", Out::of_result(|| TraceId::try_from_hex(DispChars(s)).map(|t| t.to_u128())));
        v.add("try_from_hex(Display in thirds)", Out::of_result(|| TraceId::try_from_hex(DispThirds(s)).map(|t| t.to_u128())));
        v.add("cast(str)", Out::of_option(|| Value::from(s).cast::<TraceId>().map(|t| t.to_u128())));
        let d = Disp(s);
        v.add("cast(display)", Out::of_option(|| Value::from_display(&d).cast::<TraceId>().map(|t| t.to_u128())));
        v.add("pull", Out::of_option(|| [("trace_id", Value::from(s))].pull::<TraceId, _>("trace_id").map(|t| t.to_u128())));
        if let Out::Ok(x) = &v.outs[0].1 {
            let back = TraceId::from_u128(*x).map(|t| t.to_string());
            if back.as_deref() != Some(&s.to_ascii_lowercase()) {
                v.fail(format!("accepted-text-does-not-reformat:{:?}", back));
            }
        }
    }
    v.finish(|x| x.to_string())
}

fn parse_sid(bytes: &[u8]) -> String {
    let mut v = Verdict::new();
    v.add("try_from_hex_slice", Out::of_result(|| SpanId::try_from_hex_slice(bytes).map(|t| t.to_u64())));
    if let Ok(s) = std::str::from_utf8(bytes) {
        v.add("from_str", Out::of_result(|| s.parse::<SpanId>().map(|t| t.to_u64())));
        v.add("try_from_hex", Out::of_result(|| SpanId::try_from_hex(s).map(|t| t.to_u64())));
        v.add("try_from_hex(Display)", Out::of_result(|| SpanId::try_from_hex(Disp(s)).map(|t| t.to_u64())));
        v.add("try_from_hex(Display by chars)", Out::of_result(|| SpanId::try_from_hex(DispChars(s)).map(|t| t.to_u64())));
        v.add("try_from_hex(Display in thirds)", Out::of_result(|| SpanId::try_from_hex(DispThirds(s)).map(|t| t.to_u64())));
        v.add("cast(str)", Out::of_option(|| Value::from(s).cast::<SpanId>().map(|t| t.to_u64())));
        let d = Disp(s);
        v.add("cast(display)", Out::of_option(|| Value::from_display(&d).cast::<SpanId>().map(|t| t.to_u64())));
        v.add("pull", Out::of_option(|| [("span_id", Value::from(s))].pull::<SpanId, _>("span_id").map(|t| t.to_u64())));
        if let Out::Ok(x) = &v.outs[0].1 {
            let back = SpanId::from_u64(*x).map(|t| t.to_string());
            if back.as_deref() != Some(&s.to_ascii_lowercase()) {
                v.fail(format!("accepted-text-does-not-reformat:{:?}", back));
            }
        }
    }
    v.finish(|x| x.to_string())
}

fn parse_flags(bytes: &[u8]) -> String {
    let mut v = Verdict::new();
    v.add("try_from_hex_slice", Out::of_result(|| TraceFlags::try_from_hex_slice(bytes).map(|t| t.to_u8())));
    if let Ok(s) = std::str::from_utf8(bytes) {
        v.add("from_str", Out::of_result(|| s.parse::<TraceFlags>().map(|t| t.to_u8())));
        if let Out::Ok(x) = &v.outs[0].1 {
            let back = TraceFlags::from_u8(*x).to_string();
            if back != s.to_ascii_lowercase() {
                v.fail(format!("accepted-text-does-not-reformat:{:?}", back));
            }
        }
    }
    v.finish(|x| x.to_string())
}

type TpVal = (Option<u128>, Option<u64>, u8);

fn tp_val(tp: &Traceparent) -> TpVal {
    (tp.trace_id().map(|t| t.to_u128()), tp.span_id().map(|s| s.to_u64()), tp.trace_flags().to_u8())
}

fn show_tp(v: &TpVal) -> String {
    let o = |x: Option<String>| x.unwrap_or_else(|| "none".into());
    format!("{},{},{}", o(v.0.map(|x| x.to_string())), o(v.1.map(|x| x.to_string())), v.2)
}

fn parse_tp(bytes: &[u8]) -> String {
    let s = match std::str::from_utf8(bytes) {
        Ok(s) => s,
        Err(_) => return "bad-case".into(),
    };
    let mut v = Verdict::new();
    v.add("try_from_str", Out::of_result(|| Traceparent::try_from_str(s).map(|t| tp_val(&t))));
    v.add("from_str", Out::of_result(|| s.parse::<Traceparent>().map(|t| tp_val(&t))));
    if let Out::Ok(x) = &v.outs[0].1 {
        let back = mk_tp(x.0.unwrap_or(0), x.1.unwrap_or(0), x.2).to_string();
        if back != s.to_ascii_lowercase() {
            v.fail(format!("accepted-text-does-not-reformat:{:?}", back));
        }
    }
    v.finish(show_tp)
}

fn mk_tp(t: u128, s: u64, f: u8) -> Traceparent {
    Traceparent::new(TraceId::from_u128(t), SpanId::from_u64(s), TraceFlags::from_u8(f))
}

enum IdVal {
    Typed(u128),
    Text(String),
    U64(u64),
    I64(i64),
    U128(u128),
    I128(i128),
}

fn id_val(s: &Sexp) -> Option<IdVal> {
    let (t, a) = s.as_tagged()?;
    Some(match (t, a.len()) {
        ("typed", 1) => IdVal::Typed(a[0].as_u128()?),
        ("text", 1) => IdVal::Text(a[0].as_string()?),
        ("int", 2) => match a[0].as_atom()? {
            "u64" => IdVal::U64(a[1].as_u64()?),
            "i64" => IdVal::I64(a[1].as_i64()?),
            "u128" => IdVal::U128(a[1].as_u128()?),
            "i128" => IdVal::I128(a[1].as_i128()?),
            _ => return None,
        },
        _ => return None,
    })
}

fn show_opt_num<T: ToString>(o: Option<Option<T>>) -> String {
    match o {
        Some(Some(v)) => format!("ok({})", v.to_string()),
        Some(None) => "err".into(),
        None => "panic\tFAIL:panic-in-cast".into(),
    }
}

fn cast_tid(v: &IdVal) -> Option<String> {
    Some(match v {
        IdVal::Typed(x) => {
            let t = TraceId::from_u128(*x)?;
            let by_any = catch(|| Value::from_any(&t).cast::<TraceId>().map(|t| t.to_u128()));
            let by_disp = catch(|| Value::from_display(&t).cast::<TraceId>().map(|t| t.to_u128()));
            let mut out = show_opt_num(by_any);
            if by_any != by_disp {
                out.push_str("\tFAIL:typed-vs-display-cast-differ");
            }
            out
        }
        IdVal::Text(s) => show_opt_num(catch(|| Value::from(s.as_str()).cast::<TraceId>().map(|t| t.to_u128()))),
        IdVal::U64(x) => show_opt_num(catch(|| Value::from(*x).cast::<TraceId>().map(|t| t.to_u128()))),
        IdVal::I64(x) => show_opt_num(catch(|| Value::from(*x).cast::<TraceId>().map(|t| t.to_u128()))),
        IdVal::U128(x) => show_opt_num(catch(|| Value::from(*x).cast::<TraceId>().map(|t| t.to_u128()))),
        IdVal::I128(x) => show_opt_num(catch(|| Value::from(*x).cast::<TraceId>().map(|t| t.to_u128()))),
    })
}

fn cast_sid(v: &IdVal) -> Option<String> {
    Some(match v {
        IdVal::Typed(x) => {
            let t = SpanId::from_u64(u64::try_from(*x).ok()?)?;
            let by_any = catch(|| Value::from_any(&t).cast::<SpanId>().map(|t| t.to_u64()));
            let by_disp = catch(|| Value::from_display(&t).cast::<SpanId>().map(|t| t.to_u64()));
            let mut out = show_opt_num(by_any);
            if by_any != by_disp {
                out.push_str("\tFAIL:typed-vs-display-cast-differ");
            }
            out
        }
        IdVal::Text(s) => show_opt_num(catch(|| Value::from(s.as_str()).cast::<SpanId>().map(|t| t.to_u64()))),
        IdVal::U64(x) => show_opt_num(catch(|| Value::from(*x).cast::<SpanId>().map(|t| t.to_u64()))),
        IdVal::I64(x) => show_opt_num(catch(|| Value::from(*x).cast::<SpanId>().map(|t| t.to_u64()))),
        IdVal::U128(x) => show_opt_num(catch(|| Value::from(*x).cast::<SpanId>().map(|t| t.to_u64()))),
        IdVal::I128(x) => show_opt_num(catch(|| Value::from(*x).cast::<SpanId>().map(|t| t.to_u64()))),
    })
}

fn run_hex(line: &str) -> String {
    (|| -> Option<String> {
        let s = Sexp::parse(line)?;
        let (tag, a) = s.as_tagged()?;
        Some(match (tag, a.len()) {
            ("tid", 1) => parse_tid(&a[0].as_bytes()?),
            ("sid", 1) => parse_sid(&a[0].as_bytes()?),
            ("flags", 1) => parse_flags(&a[0].as_bytes()?),
            ("tp", 1) => parse_tp(&a[0].as_bytes()?),
            ("fmt-tid", 1) => match TraceId::from_u128(a[0].as_u128()?) {
                None => "none".into(),
                Some(t) => {
                    let text = t.to_string();
                    let mut fails = Vec::new();
                    if text.as_bytes() != &t.to_hex()[..] {
                        fails.push("display-differs-from-to_hex".to_string());
                    }
                    if TraceId::from_bytes(t.to_bytes()) != Some(t) {
                        fails.push("bytes-roundtrip".to_string());
                    }
                    let back = parse_tid(text.as_bytes());
                    if back != format!("ok({})", t.to_u128()) {
                        fails.push(format!("roundtrip:{}", back));
                    }
                    let up = parse_tid(text.to_ascii_uppercase().as_bytes());
                    if up != format!("ok({})", t.to_u128()) {
                        fails.push(format!("roundtrip-upper:{}", up));
                    }
                    with_fail(Sexp::str(&text).to_string(), fails)
                }
            },
            ("fmt-sid", 1) => match SpanId::from_u64(a[0].as_u64()?) {
                None => "none".into(),
                Some(t) => {
                    let text = t.to_string();
                    let mut fails = Vec::new();
                    if text.as_bytes() != &t.to_hex()[..] {
                        fails.push("display-differs-from-to_hex".to_string());
                    }
                    if SpanId::from_bytes(t.to_bytes()) != Some(t) {
                        fails.push("bytes-roundtrip".to_string());
                    }
                    let back = parse_sid(text.as_bytes());
                    if back != format!("ok({})", t.to_u64()) {
                        fails.push(format!("roundtrip:{}", back));
                    }
                    let up = parse_sid(text.to_ascii_uppercase().as_bytes());
                    if up != format!("ok({})", t.to_u64()) {
                        fails.push(format!("roundtrip-upper:{}", up));
                    }
                    with_fail(Sexp::str(&text).to_string(), fails)
                }
            },
            ("fmt-flags", 1) => {
                let f = TraceFlags::from_u8(u8::try_from(a[0].as_u64()?).ok()?);
                let text = f.to_string();
                let mut fails = Vec::new();
                if text.as_bytes() != &f.to_hex()[..] {
                    fails.push("display-differs-from-to_hex".to_string());
                }
                let back = parse_flags(text.as_bytes());
                if back != format!("ok({})", f.to_u8()) {
                    fails.push(format!("roundtrip:{}", back));
                }
                with_fail(Sexp::str(&text).to_string(), fails)
            }
            ("fmt-tp", 3) => {
                let tp = mk_tp(a[0].as_u128()?, a[1].as_u64()?, u8::try_from(a[2].as_u64()?).ok()?);
                let text = tp.to_string();
                let mut fails = Vec::new();
                let back = parse_tp(text.as_bytes());
                if back != format!("ok({})", show_tp(&tp_val(&tp))) {
                    fails.push(format!("roundtrip:{}", back));
                }
                with_fail(Sexp::str(&text).to_string(), fails)
            }
            ("cast-tid", 1) => cast_tid(&id_val(&a[0])?)?,
            ("cast-sid", 1) => cast_sid(&id_val(&a[0])?)?,
            _ => return None,
        })
    })()
    .unwrap_or_else(|| "bad-case".into())
}

// ------------------------------------------------------------------ generic text generators

/// A char outside ASCII, of 2, 3 or 4 UTF-8 bytes.
const WIDE: &[char] = &['é', 'ß', '٣', '\u{0660}', '€', '\u{2028}', '０', 'Ａ', '𝟘', '🦀'];

fn random_chars(rng: &mut Rng, alphabet: &[u8], len: usize) -> String {
    let mut s = String::new();
    for _ in 0..len {
        match rng.below(10) {
            0 => s.push(*rng.pick(WIDE)),
            1 => s.push(char::from_u32(rng.below(0x80) as u32).unwrap()),
            2 => s.push(char::from_u32(rng.range(0x80, 0x2fff) as u32).unwrap_or('x')),
            _ => s.push(*rng.pick(alphabet) as char),
        }
    }
    s
}

fn random_bytes(rng: &mut Rng, len: usize) -> Vec<u8> {
    (0..len).map(|_| rng.below(256) as u8).collect()
}

/// Every string over `alphabet` of length `k`, by index.
fn nth_string(alphabet: &[&str], k: usize, mut idx: u64) -> String {
    let mut s = String::new();
    for _ in 0..k {
        s.push_str(alphabet[(idx % alphabet.len() as u64) as usize]);
        idx /= alphabet.len() as u64;
    }
    s
}

/// Replace `valid[off .. off + cut]` (char-boundary safe: `valid` is ASCII) by `ins`.
fn splice(valid: &str, off: usize, cut: usize, ins: &str) -> String {
    let off = off.min(valid.len());
    let end = (off + cut).min(valid.len());
    format!("{}{}{}", &valid[..off], ins, &valid[end..])
}

/// One near-miss of an ASCII `valid` text: a short string over the codec alphabet embedded at an offset
/// (overwriting 0..=its own length bytes), or a single-point delete / insert / replace.
fn near_miss(rng: &mut Rng, valid: &str, alphabet: &[&str]) -> String {
    let off = rng.usize(valid.len() + 1);
    match rng.below(6) {
        0 => splice(valid, off, 1, ""),
        1 => splice(valid, off, 0, *rng.pick(alphabet)),
        2 => splice(valid, off, 1, *rng.pick(alphabet)),
        3 => {
            // same-length overwrite by a short alphabet string
            let k = 1 + rng.usize(4);
            let total = (alphabet.len() as u64).pow(k as u32);
            let ins = nth_string(alphabet, k, rng.below(total));
            splice(valid, off, ins.len(), &ins)
        }
        4 => {
            let k = 1 + rng.usize(3);
            let total = (alphabet.len() as u64).pow(k as u32);
            let ins = nth_string(alphabet, k, rng.below(total));
            splice(valid, off, rng.usize(k + 2), &ins)
        }
        _ => {
            // truncate or extend at the end
            if rng.bool() {
                valid[..off].to_string()
            } else {
                format!("{}{}", valid, *rng.pick(alphabet))
            }
        }
    }
}

/// Systematic sweep: the `i`-th (offset, short string) pair; short strings of length 1..=2 over the alphabet
/// overwrite the same number of ASCII bytes. Used to make the first cases of a stream exhaustive.
fn sweep(valid: &str, alphabet: &[&str], i: usize) -> Option<String> {
    let n1 = alphabet.len();
    let per_off = n1 + n1 * n1;
    let off = i / per_off;
    if off > valid.len() {
        return None;
    }
    let j = i % per_off;
    let ins = if j < n1 { nth_string(alphabet, 1, j as u64) } else { nth_string(alphabet, 2, (j - n1) as u64) };
    let cut = if j < n1 { 1 } else { 2 };
    Some(splice(valid, off, cut, &ins))
}

// ------------------------------------------------------------------ c15_hex: generating

const HEX_ALPHABET: &[&str] =
    &["0", "1", "9", "a", "f", "A", "F", "g", "G", "-", " ", "+", "/", ":", "@", "`", "é", "０", "\u{0}", "x"];
const HEX_BYTES: &[u8] = b"0123456789abcdefABCDEF";

fn random_u128(rng: &mut Rng) -> u128 {
    match rng.below(8) {
        0 => 1u128 << rng.below(128),
        1 => (1u128 << rng.below(128)).wrapping_sub(1),
        2 => u128::MAX - rng.below(3) as u128,
        3 => rng.below(300) as u128,
        4 => rng.next() as u128,
        5 => (rng.next() as u128) << 64,
        _ => ((rng.next() as u128) << 64) | rng.next() as u128,
    }
}

fn random_u64(rng: &mut Rng) -> u64 {
    match rng.below(6) {
        0 => 1u64 << rng.below(64),
        1 => (1u64 << rng.below(64)).wrapping_sub(1),
        2 => u64::MAX - rng.below(3),
        3 => rng.below(300),
        _ => rng.next(),
    }
}

fn mixed_case(rng: &mut Rng, s: &str) -> String {
    s.chars().map(|c| if rng.bool() { c.to_ascii_uppercase() } else { c }).collect()
}

fn tagged_bytes(tag: &str, b: &[u8]) -> String {
    Sexp::tagged(tag, vec![Sexp::bytes(b)]).to_string()
}

fn tagged_nums(tag: &str, ns: &[String]) -> String {
    Sexp::tagged(tag, ns.iter().map(|n| Sexp::atom(n.clone())).collect()).to_string()
}

fn gen_hex(rng: &mut Rng, tier: Tier, n: usize) -> Vec<String> {
    let mut out = Vec::new();
    // edge values, all flags
    for v in [0u128, 1, 15, 16, 255, 256, u64::MAX as u128, u64::MAX as u128 + 1, u128::MAX, u128::MAX - 1, 1 << 127] {
        out.push(tagged_nums("fmt-tid", &[v.to_string()]));
        out.push(tagged_nums("fmt-sid", &[(v as u64).to_string()]));
    }
    for f in 0..=255u32 {
        out.push(tagged_nums("fmt-flags", &[f.to_string()]));
        out.push(tagged_bytes("flags", format!("{:02x}", f).as_bytes()));
        out.push(tagged_bytes("flags", format!("{:02X}", f).as_bytes()));
    }
    // every two-byte ASCII string as flags (exhaustive over the alphabet that matters) in the thorough tier,
    // every pair over the codec alphabet in the quick tier
    if tier == Tier::Thorough {
        for a in 0..128u8 {
            for b in 0..128u8 {
                out.push(tagged_bytes("flags", &[a, b]));
            }
        }
    } else {
        for a in HEX_ALPHABET {
            for b in HEX_ALPHABET {
                out.push(tagged_bytes("flags", format!("{}{}", a, b).as_bytes()));
            }
        }
    }
    let valid_tid = "4bf92f3577b34da6a3ce929d0e0e4736";
    let valid_sid = "00f067aa0ba902b7";
    let valid_tp = "00-4bf92f3577b34da6a3ce929d0e0e4736-00f067aa0ba902b7-01";
    for z in ["00000000000000000000000000000000", "0000000000000000", "", "0", "00"] {
        out.push(tagged_bytes("tid", z.as_bytes()));
        out.push(tagged_bytes("sid", z.as_bytes()));
        out.push(tagged_bytes("flags", z.as_bytes()));
    }
    for tp in [
        "00-00000000000000000000000000000000-0000000000000000-00",
        "00-00000000000000000000000000000000-00f067aa0ba902b7-01",
        "00-4bf92f3577b34da6a3ce929d0e0e4736-0000000000000000-ff",
        "01-4bf92f3577b34da6a3ce929d0e0e4736-00f067aa0ba902b7-01",
        "ff-4bf92f3577b34da6a3ce929d0e0e4736-00f067aa0ba902b7-01",
        "00-4BF92F3577B34DA6A3CE929D0E0E4736-00F067AA0BA902B7-0A",
        "00-4bf92f3577b34da6a3ce929d0e0e4736-00f067aa0ba902b7-01-",
        "00-4bf92f3577b34da6a3ce929d0e0e4736-00f067aa0ba902b7-1",
        "00_4bf92f3577b34da6a3ce929d0e0e4736-00f067aa0ba902b7-01",
        "00-4bf92f3577b34da6a3ce929d0e0e4736_00f067aa0ba902b7-01",
        "00-4bf92f3577b34da6a3ce929d0e0e4736-00f067aa0ba902b7_01",
        "",
    ] {
        out.push(tagged_bytes("tp", tp.as_bytes()));
    }
    // systematic sweep of short strings at every offset
    let sweeps = if tier == Tier::Thorough { usize::MAX } else { n / 6 };
    for (tag, valid) in [("tid", valid_tid), ("sid", valid_sid), ("tp", valid_tp)] {
        let per = (HEX_ALPHABET.len() + HEX_ALPHABET.len() * HEX_ALPHABET.len()) * (valid.len() + 1);
        let count = per.min(sweeps);
        // stride through the whole space so that the quick tier touches every offset
        let stride = (per / count.max(1)).max(1);
        let mut i = rng.usize(stride);
        while i < per {
            if let Some(s) = sweep(valid, HEX_ALPHABET, i) {
                out.push(tagged_bytes(tag, s.as_bytes()));
            }
            i += stride;
        }
    }
    while out.len() < n {
        let t = random_u128(rng);
        let s = random_u64(rng);
        let f = rng.below(256);
        let tid_text = format!("{:032x}", t);
        let sid_text = format!("{:016x}", s);
        let tp_text = format!("00-{}-{}-{:02x}", tid_text, sid_text, f);
        match rng.below(16) {
            0 => out.push(tagged_nums("fmt-tid", &[t.to_string()])),
            1 => out.push(tagged_nums("fmt-sid", &[s.to_string()])),
            2 => {
                let t = if rng.chance(1, 5) { 0 } else { t };
                let s = if rng.chance(1, 5) { 0 } else { s };
                out.push(tagged_nums("fmt-tp", &[t.to_string(), s.to_string(), f.to_string()]))
            }
            3 => out.push(tagged_bytes("tid", mixed_case(rng, &tid_text).as_bytes())),
            4 => out.push(tagged_bytes("sid", mixed_case(rng, &sid_text).as_bytes())),
            5 => out.push(tagged_bytes("tp", mixed_case(rng, &tp_text).as_bytes())),
            6 => out.push(tagged_bytes("tid", near_miss(rng, &tid_text, HEX_ALPHABET).as_bytes())),
            7 => out.push(tagged_bytes("sid", near_miss(rng, &sid_text, HEX_ALPHABET).as_bytes())),
            8 | 9 => out.push(tagged_bytes("tp", near_miss(rng, &tp_text, HEX_ALPHABET).as_bytes())),
            10 => {
                // random chars, biased to the exact lengths
                let len = *rng.pick(&[32usize, 16, 2, 55, 31, 33, 15, 17]);
                let len = if rng.bool() { len } else { rng.usize(65) };
                let s = random_chars(rng, HEX_BYTES, len);
                let tag = *rng.pick(&["tid", "sid", "flags", "tp"]);
                out.push(tagged_bytes(tag, s.as_bytes()));
            }
            11 => {
                // random bytes (possibly invalid UTF-8: only the slice entry points run)
                let len = if rng.bool() { *rng.pick(&[32usize, 16, 2]) } else { rng.usize(65) };
                let b = if rng.bool() {
                    random_bytes(rng, len)
                } else {
                    // hex digits with one arbitrary byte
                    let mut b: Vec<u8> = (0..len).map(|_| *rng.pick(HEX_BYTES)).collect();
                    if len > 0 {
                        let i = rng.usize(len);
                        b[i] = rng.below(256) as u8;
                    }
                    b
                };
                let tag = *rng.pick(&["tid", "sid", "flags"]);
                out.push(tagged_bytes(tag, &b));
            }
            12 => {
                // the all-zero id written with other "zero-looking" texts, and zero ids inside a traceparent
                let z = format!("00-{}-{}-{:02x}", if rng.bool() { "0".repeat(32) } else { tid_text.clone() },
                    if rng.bool() { "0".repeat(16) } else { sid_text.clone() }, f);
                out.push(tagged_bytes("tp", z.as_bytes()));
            }
            _ => {
                // casts
                let tag = if rng.bool() { "cast-tid" } else { "cast-sid" };
                let v = match rng.below(7) {
                    0 => Sexp::tagged("typed", vec![Sexp::num(if tag == "cast-tid" { t.max(1) } else { s.max(1) as u128 })]),
                    1 => Sexp::tagged("text", vec![Sexp::str(if tag == "cast-tid" { &tid_text } else { &sid_text })]),
                    2 => Sexp::tagged("text", vec![Sexp::str(&near_miss(rng, if tag == "cast-tid" { &tid_text } else { &sid_text }, HEX_ALPHABET))]),
                    3 => Sexp::tagged("int", vec![Sexp::atom("u64"), Sexp::num(random_u64(rng))]),
                    4 => Sexp::tagged("int", vec![Sexp::atom("i64"), Sexp::num(random_u64(rng) as i64)]),
                    5 => Sexp::tagged("int", vec![Sexp::atom("u128"), Sexp::num(random_u128(rng))]),
                    _ => Sexp::tagged("int", vec![Sexp::atom("i128"), Sexp::num(random_u128(rng) as i128)]),
                };
                out.push(Sexp::tagged(tag, vec![v]).to_string());
            }
        }
    }
    out
}

// ------------------------------------------------------------------ c15_ts: running

const NANOS: u128 = 1_000_000_000;
const MAX_SECS: u64 = 253402300799;
const MAX_NS: u128 = MAX_SECS as u128 * NANOS + 999_999_999;

fn ts_of_ns(t: u128) -> Option<Timestamp> {
    Timestamp::from_unix(Duration::new(u64::try_from(t / NANOS).ok()?, (t % NANOS) as u32))
}

fn ns_of_ts(ts: &Timestamp) -> u128 {
    ts.to_unix().as_nanos()
}

fn show_ns(t: &u128) -> String {
    format!("{}.{}", t / NANOS, t % NANOS)
}

/// Every entry point that turns a text into a `Timestamp`.
fn parse_ts(bytes: &[u8]) -> String {
    let s = match std::str::from_utf8(bytes) {
        Ok(s) => s,
        Err(_) => return "bad-case".into(),
    };
    let mut v = Verdict::new();
    v.add("from_str", Out::of_result(|| s.parse::<Timestamp>().map(|t| ns_of_ts(&t))));
    v.add("try_from_str", Out::of_result(|| Timestamp::try_from_str(s).map(|t| ns_of_ts(&t))));
    v.add("parse", Out::of_result(|| Timestamp::parse(s).map(|t| ns_of_ts(&t))));
    v.add("parse(Display)", Out::of_result(|| Timestamp::parse(Disp(s)).map(|t| ns_of_ts(&t))));
    v.add("parse(Display by chars)", Out::of_result(|| Timestamp::parse(DispChars(s)).map(|t| ns_of_ts(&t))));
    v.add("parse(Display in thirds)", Out::of_result(|| Timestamp::parse(DispThirds(s)).map(|t| ns_of_ts(&t))));
    v.add("cast(str)", Out::of_option(|| Value::from(s).cast::<Timestamp>().map(|t| ns_of_ts(&t))));
    let d = Disp(s);
    v.add("cast(display)", Out::of_option(|| Value::from_display(&d).cast::<Timestamp>().map(|t| ns_of_ts(&t))));
    v.add("pull", Out::of_option(|| [("ts", Value::from(s))].pull::<Timestamp, _>("ts").map(|t| ns_of_ts(&t))));
    if let Out::Ok(_) = &v.outs[0].1 {
        // the documented grammar: DDDD-DD-DDTDD:DD:DD[.D{1,9}]Z
        let b = s.as_bytes();
        let shape = b.len() >= 20
            && b.len() <= 30
            && b.len() != 21
            && b.iter().enumerate().all(|(i, c)| match i {
                4 | 7 => *c == b'-',
                10 => *c == b'T',
                13 | 16 => *c == b':',
                i if i == b.len() - 1 => *c == b'Z',
                19 => *c == b'.',
                _ => c.is_ascii_digit(),
            });
        if !shape {
            v.fail("accepted-text-outside-the-grammar");
        }
    }
    if let Out::Ok(t) = &v.outs[0].1 {
        // an accepted instant is in range and survives its own full-precision text
        match ts_of_ns(*t) {
            None => v.fail("accepted-instant-out-of-range"),
            Some(ts) => {
                let back = catch(|| ts.to_string().parse::<Timestamp>().ok().map(|t| ns_of_ts(&t)));
                if back != Some(Some(*t)) {
                    v.fail(format!("accepted-instant-does-not-roundtrip:{:?}", back));
                }
            }
        }
    }
    v.finish(show_ns)
}

fn fmt_prec(ts: &Timestamp, prec: Option<usize>) -> String {
    match prec {
        None => format!("{}", ts),
        Some(p) => format!("{:.*}", p, ts),
    }
}

fn truncate(t: u128, prec: Option<usize>) -> u128 {
    let p = prec.unwrap_or(9).min(9) as u32;
    t - t % 10u128.pow(9 - p)
}

fn prec_of(s: &Sexp) -> Option<Option<usize>> {
    if s.as_atom()? == "none" {
        Some(None)
    } else {
        Some(Some(s.as_usize()?))
    }
}

fn run_ts(line: &str) -> String {
    (|| -> Option<String> {
        let s = Sexp::parse(line)?;
        let (tag, a) = s.as_tagged()?;
        Some(match (tag, a.len()) {
            ("parse", 1) => parse_ts(&a[0].as_bytes()?),
            ("fmt", 2) => {
                let prec = prec_of(&a[0])?;
                let t = a[1].as_u128()?;
                let ts = ts_of_ns(t)?;
                let text = match catch(|| fmt_prec(&ts, prec)) {
                    Some(t) => t,
                    None => return Some("panic\tFAIL:formatter-panicked".into()),
                };
                let mut fails = Vec::new();
                let back = parse_ts(text.as_bytes());
                let want = format!("ok({})", show_ns(&truncate(t, prec)));
                if back != want {
                    fails.push(format!("roundtrip:parse({})={},want={}", text, back, want));
                }
                // Debug is the quoted Display; Value::capture_display / from_any keep the instant
                if format!("{:?}", ts) != format!("\"{}\"", ts) {
                    fails.push("debug-differs".to_string());
                }
                if Value::from_any(&ts).cast::<Timestamp>() != Some(ts) {
                    fails.push("typed-cast".to_string());
                }
                with_fail(Sexp::str(&text).to_string(), fails)
            }
            ("ord", 3) => {
                let prec = prec_of(&a[0])?;
                let (ta, tb) = (a[1].as_u128()?, a[2].as_u128()?);
                let (x, y) = (ts_of_ns(ta)?, ts_of_ns(tb)?);
                let (fx, fy) = (fmt_prec(&x, prec), fmt_prec(&y, prec));
                let got = fx.as_bytes().cmp(fy.as_bytes());
                let want = truncate(ta, prec).cmp(&truncate(tb, prec));
                let show = |o: std::cmp::Ordering| match o {
                    std::cmp::Ordering::Less => "lt",
                    std::cmp::Ordering::Equal => "eq",
                    std::cmp::Ordering::Greater => "gt",
                };
                let mut fails = Vec::new();
                if got != want {
                    fails.push(format!("text-order-{}-but-instants-{}", show(got), show(want)));
                }
                if (x.cmp(&y)) != ta.cmp(&tb) {
                    fails.push("timestamp-ord".to_string());
                }
                with_fail(show(got).to_string(), fails)
            }
            ("to-parts", 1) => {
                let t = a[0].as_u128()?;
                let ts = ts_of_ns(t)?;
                let p = match catch(|| ts.to_parts()) {
                    Some(p) => p,
                    None => return Some("panic\tFAIL:to_parts-panicked".into()),
                };
                let mut fails = Vec::new();
                let back = catch(|| Timestamp::from_parts(p));
                if back != Some(Some(ts)) {
                    fails.push(format!("calendar-roundtrip:{:?}", back.map(|o| o.map(|t| ns_of_ts(&t)))));
                }
                with_fail(
                    format!("({} {} {} {} {} {} {})", p.years, p.months, p.days, p.hours, p.minutes, p.seconds, p.nanos),
                    fails,
                )
            }
            ("from-parts", 7) => {
                let p = emit::timestamp::Parts {
                    years: u16::try_from(a[0].as_u64()?).ok()?,
                    months: u8::try_from(a[1].as_u64()?).ok()?,
                    days: u8::try_from(a[2].as_u64()?).ok()?,
                    hours: u8::try_from(a[3].as_u64()?).ok()?,
                    minutes: u8::try_from(a[4].as_u64()?).ok()?,
                    seconds: u8::try_from(a[5].as_u64()?).ok()?,
                    nanos: u32::try_from(a[6].as_u64()?).ok()?,
                };
                match catch(|| Timestamp::from_parts(p)) {
                    None => "panic".into(),
                    Some(None) => "none".into(),
                    Some(Some(ts)) => format!("ok({})", show_ns(&ns_of_ts(&ts))),
                }
            }
            _ => return None,
        })
    })()
    .unwrap_or_else(|| "bad-case".into())
}

// ------------------------------------------------------------------ c15_ts: generating

const TS_ALPHABET: &[&str] =
    &["0", "1", "5", "9", "-", ":", "T", "Z", ".", "+", " ", "t", "z", "/", ";", "é", "٣", "０", "x", ","];
const TS_BYTES: &[u8] = b"0123456789-:TZ.+ ";

/// seconds since the epoch of `y-m-d` (proleptic Gregorian; generator-side only, used to aim at interesting days)
fn days_from_civil(y: i64, m: i64, d: i64) -> i64 {
    let y = if m <= 2 { y - 1 } else { y };
    let era = if y >= 0 { y } else { y - 399 } / 400;
    let yoe = y - era * 400;
    let doy = (153 * (if m > 2 { m - 3 } else { m + 9 }) + 2) / 5 + d - 1;
    let doe = yoe * 365 + yoe / 4 - yoe / 100 + doy;
    era * 146097 + doe - 719468
}

fn interesting_instant(rng: &mut Rng) -> u128 {
    let secs: u64 = match rng.below(10) {
        0 => *rng.pick(&[0u64, 1, 59, 60, 3599, 3600, 86399, 86400, MAX_SECS, MAX_SECS - 1, MAX_SECS - 86400]),
        1 | 2 => {
            // around the end of February / start of March / year ends of interesting years
            let y = *rng.pick(&[1970i64, 1971, 1972, 1999, 2000, 2001, 2004, 2037, 2038, 2039, 2096, 2099, 2100, 2101, 2104,
                2199, 2200, 2300, 2399, 2400, 2401, 4000, 8000, 9996, 9999]);
            let (m, d) = *rng.pick(&[(1i64, 1i64), (1, 31), (2, 1), (2, 28), (3, 1), (12, 31), (6, 30), (7, 1), (10, 31), (11, 1)]);
            let day = days_from_civil(y, m, d) + rng.below(3) as i64 - 1;
            let s = day * 86400 + *rng.pick(&[0i64, 1, 86399, 43200]);
            s.clamp(0, MAX_SECS as i64) as u64
        }
        3 => {
            // a random day at the edges of the day
            rng.below(2932897) * 86400 + *rng.pick(&[0u64, 86399, 3600 * 23, 59, 60])
        }
        _ => rng.below(MAX_SECS + 1),
    };
    let nanos: u64 = match rng.below(6) {
        0 => 0,
        1 => 999_999_999,
        2 => 10u64.pow(rng.below(9) as u32) * rng.range(1, 9),
        3 => rng.below(1000) * 10u64.pow(rng.below(7) as u32),
        _ => rng.below(1_000_000_000),
    };
    secs as u128 * NANOS + nanos as u128
}

fn random_prec(rng: &mut Rng) -> Sexp {
    match rng.below(12) {
        0 => Sexp::atom("none"),
        1 => Sexp::num(*rng.pick(&[10usize, 12, 20, 100])),
        _ => Sexp::num(rng.below(10)),
    }
}

fn fmt_text(t: u128, prec: Option<usize>) -> String {
    // generator-side text of an instant: from the real formatter where that works, else assembled from
    // to_parts (the unfixed formatter never fails, but keep the generator independent of parser fixes)
    let ts = ts_of_ns(t).unwrap();
    fmt_prec(&ts, prec)
}

fn gen_ts(rng: &mut Rng, tier: Tier, n: usize) -> Vec<String> {
    let mut out = Vec::new();
    let push_parse = |out: &mut Vec<String>, s: &str| out.push(tagged_bytes("parse", s.as_bytes()));
    // fixed edge cases
    for t in [0u128, 1, 999_999_999, NANOS, MAX_NS, MAX_NS - 1, 951_782_400 * NANOS, 951_868_799 * NANOS + 5] {
        for p in ["none", "0", "1", "3", "6", "9", "12"] {
            out.push(tagged_nums("fmt", &[p.to_string(), t.to_string()]));
        }
        out.push(tagged_nums("to-parts", &[t.to_string()]));
    }
    for s in [
        "1970-01-01T00:00:00Z", "1970-01-01T00:00:00.Z", "1970-01-01T00:00:00.xZ", "1970-00-01T00:00:00.0Z",
        "1970-01-00T00:00:00.0Z", "1970x01x01x00x00x00x0Z", "1970-01-01T00:00:00.+5Z", "1970-01-01T00:00:00+5Z",
        "197é-01-01T00:00:00.0Z", "1970-01-01T00:00:0é.0Z", "1970-01-01T00:00:00é0Z", "1970-01-01T00:00:00.é0Z",
        "+970-01-01T00:00:00.0Z", "1970-+1-01T00:00:00.0Z", "1970-01-01t00:00:00.0Z", "1970-01-01T00:00:00.0z",
        "1970-01-01 00:00:00.0Z", "1970-01-01T00:00:00.0", "1970-01-01T00:00:00", "1970-01-01T00:00:0Z",
        "1969-12-31T23:59:59.999999999Z", "9999-12-31T23:59:59.999999999Z", "9999-12-31T23:59:60.0Z",
        "2024-02-29T12:00:00.5Z", "2023-02-29T12:00:00.5Z", "2024-13-01T00:00:00.0Z", "2024-12-32T00:00:00.0Z",
        "2024-01-01T24:00:00.0Z", "2024-01-01T00:60:00.0Z", "2024-01-01T00:00:60.0Z", "2024-99-99T99:99:99.999999999Z",
        "0000-01-01T00:00:00.0Z", "2024-01-01T00:00:00.0000000000Z", "2024-01-01T00:00:00.000000000Z",
        "2024-01-01T00:00:00.00000000000000000000000000Z", "2024-01-01T00:00:00.000+10", "", "Z", "0",
        "Thursday, September 12, 2024", "2024-01-01T00:00:00,5Z", "2024-01-01T00:00:00.5ZZ", " 2024-01-01T00:00:00.5Z",
        "2024-01-01T00:00:00.5Z ", "2024-1-1T0:0:0.5Z", "２０２４-01-01T00:00:00.5Z",
    ] {
        push_parse(&mut out, s);
    }
    for (y, m, d) in [(1970u32, 1u32, 0u32), (1970, 0, 1), (1970, 0, 0), (2000, 13, 32), (1969, 12, 32), (1900, 1, 1),
        (1899, 12, 31), (0, 1, 1), (65535, 255, 255), (2038, 12, 31), (2039, 1, 1), (2000, 2, 29), (2100, 2, 29), (9999, 12, 31)] {
        out.push(tagged_nums("from-parts", &[y, m, d, 25, 61, 61, 1_000_000_000].map(|x| x.to_string())));
        out.push(tagged_nums("from-parts", &[y, m, d, 0, 0, 0, 0].map(|x| x.to_string())));
        out.push(tagged_nums("from-parts", &[y, m, d, 23, 59, 59, 999_999_999].map(|x| x.to_string())));
    }
    // systematic sweep of short strings at every offset of three valid texts
    let sweeps = if tier == Tier::Thorough { usize::MAX } else { n / 8 };
    for valid in ["2024-02-29T23:59:58.123456789Z", "1970-01-01T00:00:00Z", "9999-12-31T23:59:59.5Z"] {
        let per = (TS_ALPHABET.len() + TS_ALPHABET.len() * TS_ALPHABET.len()) * (valid.len() + 1);
        let count = per.min(sweeps);
        let stride = (per / count.max(1)).max(1);
        let mut i = rng.usize(stride);
        while i < per {
            if let Some(s) = sweep(valid, TS_ALPHABET, i) {
                push_parse(&mut out, &s);
            }
            i += stride;
        }
    }
    while out.len() < n {
        let t = interesting_instant(rng);
        match rng.below(16) {
            0 | 1 | 2 => out.push(Sexp::tagged("fmt", vec![random_prec(rng), Sexp::num(t)]).to_string()),
            3 => out.push(tagged_nums("to-parts", &[t.to_string()])),
            4 => {
                // two instants, often close together
                let u = match rng.below(4) {
                    0 => interesting_instant(rng),
                    1 => t.saturating_add(rng.below(3) as u128 * 10u128.pow(rng.below(10) as u32)).min(MAX_NS),
                    2 => t.saturating_sub(rng.below(3) as u128 * 10u128.pow(rng.below(14) as u32)),
                    _ => (t + 86400 * NANOS * rng.below(400) as u128).min(MAX_NS),
                };
                out.push(Sexp::tagged("ord", vec![random_prec(rng), Sexp::num(t), Sexp::num(u)]).to_string());
            }
            5 | 6 => {
                // from_parts on arbitrary parts, mostly near valid
                let ts = ts_of_ns(t).unwrap();
                let p = ts.to_parts();
                let mut f = [p.years as u64, p.months as u64, p.days as u64, p.hours as u64, p.minutes as u64, p.seconds as u64, p.nanos as u64];
                let lim = [65535u64, 255, 255, 255, 255, 255, u32::MAX as u64];
                for _ in 0..rng.below(3) {
                    let i = rng.usize(7);
                    f[i] = match rng.below(5) {
                        0 => 0,
                        1 => lim[i],
                        2 => f[i].saturating_add(1).min(lim[i]),
                        3 => f[i].saturating_sub(1),
                        _ => rng.below(lim[i].min(if i == 0 { 12000 } else if i == 6 { u32::MAX as u64 } else { 70 }) + 1),
                    };
                }
                out.push(tagged_nums("from-parts", &f.map(|x| x.to_string())));
            }
            7 | 8 => {
                // a formatted instant with one field overwritten by other digits
                let prec = Some(rng.usize(10));
                let mut b = fmt_text(t, prec).into_bytes();
                let (a, w) = *rng.pick(&[(0usize, 4usize), (5, 2), (8, 2), (11, 2), (14, 2), (17, 2)]);
                let v = match rng.below(4) {
                    0 => 0,
                    1 => 10u64.pow(w as u32) - 1,
                    _ => rng.below(10u64.pow(w as u32)),
                };
                let v = if w == 2 && rng.bool() { *rng.pick(&[0u64, 1, 12, 13, 23, 24, 28, 29, 30, 31, 32, 59, 60, 61]) } else { v };
                b[a..a + w].copy_from_slice(format!("{:0w$}", v, w = w).as_bytes());
                out.push(tagged_bytes("parse", &b));
            }
            9 | 10 | 11 => {
                let prec = if rng.chance(1, 8) { None } else { Some(rng.usize(10)) };
                let text = fmt_text(t, prec);
                if rng.chance(1, 5) {
                    push_parse(&mut out, &text);
                } else {
                    let s = near_miss(rng, &text, TS_ALPHABET);
                    push_parse(&mut out, &s);
                }
            }
            12 => {
                // fraction of every length 0..12 made of arbitrary digits / one non-digit
                let k = rng.usize(13);
                let mut frac: String = (0..k).map(|_| (b'0' + rng.below(10) as u8) as char).collect();
                if k > 0 && rng.chance(1, 4) {
                    let i = rng.usize(k);
                    frac.replace_range(i..i + 1, *rng.pick(TS_ALPHABET));
                }
                let head = &fmt_text(t, Some(0))[..19];
                let s = match rng.below(4) {
                    0 => format!("{}{}Z", head, frac),
                    _ => format!("{}.{}Z", head, frac),
                };
                push_parse(&mut out, &s);
            }
            _ => {
                let len = if rng.bool() { rng.range(18, 31) as usize } else { rng.usize(65) };
                let mut s = random_chars(rng, TS_BYTES, len);
                if rng.bool() {
                    s.push('Z');
                }
                push_parse(&mut out, &s);
            }
        }
    }
    out
}

// ------------------------------------------------------------------ c15_path

/// The property evaluated without the implementation: non-empty segments joined by exactly `::`; every char
/// XID_Continue (XID_Start ⊂ XID_Continue); a later segment starts with XID_Start (the first segment may start
/// with any XID_Continue char — the leniency the code has).
fn spec_valid_path(path: &str) -> bool {
    let mut first = true;
    for seg in path.split("::") {
        let mut chars = seg.chars();
        match chars.next() {
            None => return false,
            Some(c) => {
                let ok = if first { xid_start(c) || unicode_ident::is_xid_continue(c) } else { xid_start(c) };
                if !ok {
                    return false;
                }
            }
        }
        if !chars.all(|c| xid_start(c) || unicode_ident::is_xid_continue(c)) {
            return false;
        }
        first = false;
    }
    true
}

fn run_path(line: &str) -> String {
    (|| -> Option<String> {
        let s = Sexp::parse(line)?;
        let (tag, a) = s.as_tagged()?;
        Some(match tag {
            "valid" => {
                let mut path = String::new();
                for it in a {
                    let t = it.as_list()?;
                    if t.len() != 3 {
                        return None;
                    }
                    let c = char::from_u32(u32::try_from(t[0].as_u64()?).ok()?)?;
                    // the classes in the case line must be the real ones
                    if t[1].as_bool()? != xid_start(c) || t[2].as_bool()? != unicode_ident::is_xid_continue(c) {
                        return None;
                    }
                    path.push(c);
                }
                let mut v = Verdict::new();
                let as_out = |b: bool| if b { Out::Ok(()) } else { Out::Err };
                let r = catch(|| emit::path::is_valid_path(&path));
                v.add("is_valid_path", r.map(as_out).unwrap_or(Out::Panic));
                v.add("Path::new_ref", catch(|| emit::Path::new_ref(&path).is_ok()).map(as_out).unwrap_or(Out::Panic));
                v.add("Path::new_owned", catch(|| emit::Path::new_owned(path.clone()).is_ok()).map(as_out).unwrap_or(Out::Panic));
                v.add(
                    "Path::new_cow_ref",
                    catch(|| emit::Path::new_cow_ref(std::borrow::Cow::Borrowed(&path)).is_ok()).map(as_out).unwrap_or(Out::Panic),
                );
                v.add("cast(str)", catch(|| Value::from(&*path).cast::<emit::Path>().is_some()).map(as_out).unwrap_or(Out::Panic));
                if let Some(got) = r {
                    if got != spec_valid_path(&path) {
                        v.fail(format!("is_valid_path={}-but-grammar-says-{}", got, !got));
                    }
                    if got {
                        // a valid path splits into non-empty segments and is its own child
                        let p = emit::Path::new_ref_raw(&path);
                        if p.segments().any(|s| s.get().is_empty() || s.get().contains(':')) {
                            v.fail("valid-path-has-bad-segment");
                        }
                        if !p.is_child_of(&p) {
                            v.fail("not-child-of-itself");
                        }
                    }
                }
                let out = v.finish(|_| String::new());
                // render as true / false like the model
                out.replacen("ok()", "true", 1).replacen("err", "false", 1)
            }
            "child" => {
                if a.len() != 2 {
                    return None;
                }
                let c = a[0].as_string()?;
                let p = a[1].as_string()?;
                let r = match catch(|| emit::Path::new_ref_raw(&c).is_child_of(&emit::Path::new_ref_raw(&p))) {
                    Some(r) => r,
                    None => return Some("panic\tFAIL:is_child_of-panicked".into()),
                };
                let spec = c == p || c.strip_prefix(p.as_str()).map(|rest| rest.starts_with("::")).unwrap_or(false);
                if r == spec {
                    format!("{}", r)
                } else {
                    format!("{}\tFAIL:is_child_of={}-but-prefix-rule-says-{}", r, r, spec)
                }
            }
            _ => return None,
        })
    })()
    .unwrap_or_else(|| "bad-case".into())
}

fn valid_case(path: &str) -> String {
    let items = path
        .chars()
        .map(|c| {
            Sexp::list(vec![
                Sexp::num(c as u32),
                Sexp::bool(xid_start(c)),
                Sexp::bool(unicode_ident::is_xid_continue(c)),
            ])
        })
        .collect();
    Sexp::tagged("valid", items).to_string()
}

/// chars by class: start, continue-only, neither, ':'
const PATH_START: &[char] = &['a', 'b', 'Z', 'é', 'ß', 'λ', '漢', 'ª', 'ⅷ', '𝒳'];
const PATH_CONT: &[char] = &['0', '1', '9', '_', '\u{0301}', '٣', '·', '\u{200d}', '᠐'];
const PATH_OTHER: &[char] = &[' ', '-', '.', '*', '{', '}', ',', '/', '\u{0}', '🦀', '€', ';', '：', '\u{2028}'];

fn random_segment(rng: &mut Rng, valid_start: bool) -> String {
    let mut s = String::new();
    if valid_start {
        s.push(*rng.pick(PATH_START));
    } else {
        s.push(*rng.pick(PATH_CONT));
    }
    for _ in 0..rng.below(4) {
        s.push(if rng.bool() { *rng.pick(PATH_START) } else { *rng.pick(PATH_CONT) });
    }
    s
}

fn random_valid_path(rng: &mut Rng) -> String {
    let n = 1 + rng.below(4);
    (0..n).map(|_| random_segment(rng, true)).collect::<Vec<_>>().join("::")
}

fn gen_path(rng: &mut Rng, tier: Tier, n: usize) -> Vec<String> {
    let mut out = Vec::new();
    for p in ["", "a", "a::b", "::", "::a", "a::", "a:b", "a::::b", "a::{b, c}", "a::*", "a:b:c", "a::1b", "a:b::c", "a:::b",
        ":", "a:", "1a", "_a", "a::_b", "a::b1", "a::b_", "1", "a::1", "a:1:b", "é::ß", "a :: b", "a::b::", "a::b:", ":a::b", "a:: b",
        "a::b c", "a\u{301}::b", "\u{301}a", "a::\u{301}b", "crate::module::submodule"] {
        out.push(valid_case(p));
    }
    for (c, p) in [("a", "a"), ("a::b", "a"), ("aa", "a"), ("b", "a"), ("a", "a::b"), ("a::b", "a::"), ("a:b", "a"), ("a::b", ""),
        ("", ""), ("", "a"), ("aé", "a"), ("é::b", "é"), ("éa", "\u{c3}"), ("a::b::c", "a::b"), ("a::bc", "a::b"), ("a:", "a"), ("a::", "a")] {
        out.push(Sexp::tagged("child", vec![Sexp::str(c), Sexp::str(p)]).to_string());
    }
    // exhaustive short strings over a class alphabet
    let alpha: &[&str] = &["a", "1", ":", "-", "é", "\u{301}"];
    let maxlen = if tier == Tier::Thorough { 7 } else { 5 };
    for len in 0..=maxlen {
        let total = (alpha.len() as u64).pow(len as u32);
        for i in 0..total {
            if out.len() >= n * 2 / 3 && tier == Tier::Quick {
                break;
            }
            out.push(valid_case(&nth_string(alpha, len, i)));
        }
    }
    while out.len() < n {
        match rng.below(10) {
            0 | 1 => out.push(valid_case(&random_valid_path(rng))),
            2 | 3 | 4 => {
                // near-miss of a valid path: single-point mutation
                let p: Vec<char> = random_valid_path(rng).chars().collect();
                let mut q = p.clone();
                let i = rng.usize(q.len() + 1);
                let ins = match rng.below(5) {
                    0 => ':',
                    1 => *rng.pick(PATH_CONT),
                    2 => *rng.pick(PATH_OTHER),
                    _ => *rng.pick(PATH_START),
                };
                match rng.below(3) {
                    0 if i < q.len() => {
                        q.remove(i);
                    }
                    1 if i < q.len() => q[i] = ins,
                    _ => q.insert(i, ins),
                }
                out.push(valid_case(&q.into_iter().collect::<String>()));
            }
            5 => {
                // segments joined by 1..3 colons, segments starting with start / continue chars
                let k = 1 + rng.below(4);
                let mut s = String::new();
                for j in 0..k {
                    if j > 0 {
                        s.push_str(&":".repeat(1 + rng.usize(3)));
                    }
                    let start = rng.chance(3, 4);
                    s.push_str(&random_segment(rng, start));
                }
                out.push(valid_case(&s));
            }
            6 => {
                let len = rng.usize(12);
                let s: String = (0..len)
                    .map(|_| match rng.below(8) {
                        0 | 1 => ':',
                        2 => *rng.pick(PATH_OTHER),
                        3 => *rng.pick(PATH_CONT),
                        4 => char::from_u32(rng.range(0x20, 0x2fff) as u32).unwrap_or('a'),
                        _ => *rng.pick(PATH_START),
                    })
                    .collect();
                out.push(valid_case(&s));
            }
            _ => {
                // is_child_of: related pairs
                let p = random_valid_path(rng);
                let c = match rng.below(7) {
                    0 => p.clone(),
                    1 => format!("{}::{}", p, random_segment(rng, true)),
                    2 => format!("{}{}", p, random_segment(rng, true)),
                    3 => format!("{}:{}", p, random_segment(rng, true)),
                    4 => {
                        let mut cs: Vec<char> = p.chars().collect();
                        cs.pop();
                        cs.into_iter().collect()
                    }
                    5 => random_valid_path(rng),
                    _ => format!("{}::", p),
                };
                // sometimes cut the parent inside a multi-byte char's neighbourhood by swapping roles
                if rng.chance(1, 6) {
                    out.push(Sexp::tagged("child", vec![Sexp::str(&p), Sexp::str(&c)]).to_string());
                } else {
                    out.push(Sexp::tagged("child", vec![Sexp::str(&c), Sexp::str(&p)]).to_string());
                }
            }
        }
    }
    out
}

// ------------------------------------------------------------------ c15_kind

fn show_kind(k: &emit::Kind) -> String {
    k.to_string()
}

fn run_kind(line: &str) -> String {
    (|| -> Option<String> {
        let s = Sexp::parse(line)?;
        let (tag, a) = s.as_tagged()?;
        if a.len() != 1 {
            return None;
        }
        Some(match tag {
            "kind" => {
                let text = a[0].as_string()?;
                let text = text.as_str();
                let mut v: Verdict<emit::Kind> = Verdict::new();
                v.add("from_str", Out::of_result(|| text.parse::<emit::Kind>()));
                v.add("try_from_str", Out::of_result(|| emit::Kind::try_from_str(text)));
                v.add("cast(str)", Out::of_option(|| Value::from(text).cast::<emit::Kind>()));
                let d = Disp(text);
                v.add("cast(display)", Out::of_option(|| Value::from_display(&d).cast::<emit::Kind>()));
                v.add("pull", Out::of_option(|| [("evt_kind", Value::from(text))].pull::<emit::Kind, _>("evt_kind")));
                let out = v.finish(show_kind);
                // render like the model: span | metric | none
                if let Some(rest) = out.strip_prefix("ok(") {
                    rest.replacen(')', "", 1)
                } else if let Some(rest) = out.strip_prefix("err") {
                    format!("none{}", rest)
                } else {
                    out
                }
            }
            "fmt-kind" => {
                let k = match a[0].as_atom()? {
                    "span" => emit::Kind::Span,
                    "metric" => emit::Kind::Metric,
                    _ => return None,
                };
                let text = k.to_string();
                let mut fails = Vec::new();
                if text.parse::<emit::Kind>().ok() != Some(k) {
                    fails.push("roundtrip".to_string());
                }
                if Value::from_any(&k).cast::<emit::Kind>() != Some(k) {
                    fails.push("typed-cast".to_string());
                }
                if format!("{:?}", k) != format!("\"{}\"", text) {
                    fails.push("debug-differs".to_string());
                }
                with_fail(Sexp::str(&text).to_string(), fails)
            }
            _ => return None,
        })
    })()
    .unwrap_or_else(|| "bad-case".into())
}

fn gen_kind(rng: &mut Rng, _tier: Tier, n: usize) -> Vec<String> {
    let mut out = vec!["(fmt-kind span)".to_string(), "(fmt-kind metric)".to_string()];
    let kind = |s: &str| Sexp::tagged("kind", vec![Sexp::str(s)]).to_string();
    for w in ["span", "metric", "SPAN", "Metric", " span ", "\tmetric\n", "", " ", "spa", "spans", "metrics", "s pan", "ſpan", "spaN",
        "\u{a0}span\u{2003}", "span\u{0}", "ＳＰＡＮ", "METRİC", "metrıc", "\u{212a}ind", "log", "event"] {
        out.push(kind(w));
    }
    const PADS: [&str; 9] = ["", "", "", " ", "\t", "\u{a0}", "\u{2003}", "\n ", "\u{85}"];
    const ALPHA: &[&str] = &["s", "p", "a", "n", "S", "m", "e", "t", "r", "i", "c", "M", " ", "é", "ſ", "1"];
    while out.len() < n {
        let base = if rng.bool() { "span" } else { "metric" };
        let text = match rng.below(6) {
            0 => mixed_case(rng, base),
            1 => {
                let m = mixed_case(rng, base);
                format!("{}{}{}", rng.pick(&PADS), m, rng.pick(&PADS))
            }
            2 | 3 => {
                let m = mixed_case(rng, base);
                near_miss(rng, &m, ALPHA)
            }
            4 => {
                let m = near_miss(rng, base, ALPHA);
                format!("{}{}{}", rng.pick(&PADS), m, rng.pick(&PADS))
            }
            _ => {
                let len = rng.usize(9);
                random_chars(rng, b"spanmetricSPANMETRIC ", len)
            }
        };
        out.push(kind(&text));
    }
    out
}
