#!/usr/bin/env python3
"""Generate the fixed set of macro call sites of stream `c02_macro` (C02, "programs" quantifier) — ONE table, two
renderings that must stay in step:

    harness/hcore/src/c02_fixtures.rs            real `emit::props!` / `emit::emit!` call sites compiled into the harness
    lean/EmitModel/Model/PropsFixtures.lean      the same table as data for the model (ident, final key, cfg, value)

Run from anywhere:  python3 harness/hcore/gen_c02_fixtures.py     (deterministic; both outputs are committed)

A fixture is a list of fields `(ident, final key, cfg, value)`; final names are pairwise distinct (the property's
quantifier), identifiers are pairwise distinct (the macro rejects duplicates). Fixture 0/1 are the D1 reproducer.
"""
import os, random

ROOT = os.path.dirname(os.path.dirname(os.path.dirname(os.path.abspath(__file__))))
N_RANDOM = 89
IDENTS = ['a', 'b', 'c', 'd', 'e', 'user', 'x1', 'zz', 'B', '_u']
NAMES = ['z', 'A', '0', 'user.name', 'é', '', '{x}', 'b b', 'mm', 'aa', '日本', 'Z', 'a.b', '~']
STRS = ['x', '', 'é', '7', 'a b']

# field = dict(ident, key (None = not renamed), cfg (None | True | False), opt (None | 'some' | 'none'), val (int | str))


def F(ident, val, key=None, cfg=None, opt=None):
    return dict(ident=ident, key=key, cfg=cfg, opt=opt, val=val)


HAND = [
    ('props', [F('a', 1, key='z'), F('b', 2), F('c', 3)]),                       # D1 reproducer
    ('emit', [F('a', 1, key='z'), F('b', 2), F('c', 3)]),                        # D1 through the template
    ('props', [F('a', 1, key='b'), F('b', 2, key='a')]),                         # swapped names
    ('emit', [F('a', 'x', key='b'), F('b', 2, key='a'), F('c', 3, cfg=False)]),
    ('props', []),
    ('emit', []),
    ('props', [F('r#type', 5), F('a', 6, key='zz'), F('zz', 7, key='0')]),       # raw identifier sorts as `type`
    ('props', [F('a', 1, opt='none'), F('b', 2, key='A', opt='some'), F('c', 3, key='', cfg=True)]),
    ('span', [F('a', 1, key='z'), F('b', 2), F('c', 3)]),                        # renamed key through the ambient frame
    ('span', [F('a', 'x', key='b'), F('b', 2, key='a', opt='some'), F('c', 3, cfg=False), F('d', 4, opt='none')]),
    ('span', []),
]


def gen_random(rng):
    n = rng.choice([1, 2, 2, 3, 3, 4, 4, 5, 6])
    idents = rng.sample(IDENTS, n)
    # injective final names: a renamed field takes a name no other field ends up with
    finals = {}
    renamed = {i: rng.random() < 0.55 for i in idents}
    taken = set(i for i in idents if not renamed[i])
    for i in idents:
        if renamed[i]:
            pool = [x for x in NAMES + IDENTS if x not in taken and x != i]
            k = rng.choice(pool)
            finals[i] = k
            taken.add(k)
    fields = []
    for i in idents:
        cfg = rng.choice([None, None, None, True, False])
        opt = rng.choice([None, None, None, None, 'some', 'none'])
        val = rng.randrange(-3, 40) if (opt or rng.random() < 0.7) else rng.choice(STRS)
        fields.append(F(i, val, key=finals.get(i), cfg=cfg, opt=opt))
    return (rng.choice(['props', 'emit', 'span']), fields)


def fixtures():
    rng = random.Random(20260926)
    out = list(HAND)
    while len(out) < len(HAND) + N_RANDOM:
        out.append(gen_random(rng))
    return out


def key_name(ident):
    return ident[2:] if ident.startswith('r#') else ident


def final(f):
    return f['key'] if f['key'] is not None else key_name(f['ident'])


def rust_str(s):
    return '"' + s.replace('\\', '\\\\').replace('"', '\\"') + '"'


def rust_val(f):
    v = f['val']
    lit = str(v) if isinstance(v, int) else rust_str(v)
    if f['opt'] == 'some':
        return f'Some(&{lit})'
    if f['opt'] == 'none':
        return 'None::<&i32>'
    return lit


def rust_field(f):
    attrs = ''
    if f['cfg'] is True:
        attrs += '#[cfg(all())] '
    if f['cfg'] is False:
        attrs += '#[cfg(any())] '
    if f['key'] is not None:
        attrs += f'#[emit::key({rust_str(f["key"])})] '
    if f['opt']:
        attrs += '#[emit::optional] '
    return f'{attrs}{f["ident"]}: {rust_val(f)}'


def template_text(fields):
    # names every field by its identifier: "a={a} b={b}"; braces never occur in the literal text
    return ' '.join(f'{key_name(f["ident"])}={{{f["ident"]}}}' for f in fields)


def queries(fields, kind='props'):
    qs = ['evt_kind', 'span_name'] if kind == 'span' else []
    for f in fields:
        for k in (key_name(f['ident']), final(f)):
            if k not in qs:
                qs.append(k)
    qs.append('absent')
    return qs


def lean_str(s):
    out = '"'
    for ch in s:
        if ch == '"': out += '\\"'
        elif ch == '\\': out += '\\\\'
        else: out += ch
    return out + '"'


def lean_val(f):
    if f['opt'] == 'none':
        return 'none'
    v = f['val']
    return f'(some (.int {v}))' if isinstance(v, int) and v >= 0 else (
        f'(some (.int ({v})))' if isinstance(v, int) else f'(some (.str {lean_str(v)}))')


def main():
    fx = fixtures()
    # ---------------------------------------------------------------- Rust
    r = ['// GENERATED by harness/hcore/gen_c02_fixtures.py — do not edit; regenerate and commit both outputs.',
         '// Real macro call sites of stream `c02_macro`; the same table is lean/EmitModel/Model/PropsFixtures.lean.',
         '#![allow(unused_variables, clippy::all)]', '',
         'use super::{MacroObs, SpanRt, observe_props_site, emit_site_runtime, span_site_runtime};', '',
         f'pub const COUNT: usize = {len(fx)};', '',
         'pub fn run(index: usize) -> Option<MacroObs> {', '    match index {']
    for i, (kind, fields) in enumerate(fx):
        qs = ', '.join(rust_str(q) for q in queries(fields, kind))
        body = ',\n                '.join(rust_field(f) for f in fields)
        if kind == 'props':
            # the template is built at run time from the table: text `ident=` + hole named by the FINAL key
            parts = []
            for j, f in enumerate(fields):
                text = ('' if j == 0 else ' ') + key_name(f['ident']) + '='
                parts.append(f'emit::template::Part::text({rust_str(text)})')
                if f['cfg'] is not False:
                    parts.append(f'emit::template::Part::hole({rust_str(final(f))})')
            r.append(f'        {i} => {{')
            r.append(f'            let props = emit::props! {{')
            if fields:
                r.append(f'                {body},')
            r.append('            };')
            r.append(f'            let parts = [{", ".join(parts)}];')
            r.append(f'            Some(observe_props_site(&props, &[{qs}], &parts))')
            r.append('        }')
        elif kind == 'span':
            # `#[emit::span]` on a nested fn: the props go onto the ambient context, the span event is observed at the emitter
            r.append(f'        {i} => {{')
            r.append(f'            let (rt, take) = span_site_runtime(&[{qs}]);')
            args = ',\n                '.join([rust_str(template_text(fields))] + [rust_field(f) for f in fields])
            r.append(f'            #[emit::span(')
            r.append(f'                rt,')
            r.append(f'                {args},')
            r.append(f'            )]')
            r.append(f'            fn site(rt: &SpanRt) {{}}')
            r.append(f'            site(&rt);')
            r.append('            take()')
            r.append('        }')
        else:
            r.append(f'        {i} => {{')
            r.append(f'            let (rt, take) = emit_site_runtime(&[{qs}]);')
            r.append(f'            emit::emit!(')
            r.append(f'                rt,')
            r.append(f'                {rust_str(template_text(fields))},')
            if fields:
                r.append(f'                {body},')
            r.append('            );')
            r.append('            take()')
            r.append('        }')
    r += ['        _ => None,', '    }', '}', '']
    open(os.path.join(ROOT, 'harness', 'hcore', 'src', 'c02_fixtures.rs'), 'w').write('\n'.join(r))
    # ---------------------------------------------------------------- Lean
    l = ['-- GENERATED by harness/hcore/gen_c02_fixtures.py — do not edit; regenerate and commit both outputs.',
         '/-',
         '  Model/PropsFixtures.lean — the fixed set of macro call sites of stream `c02_macro` as data:',
         '  per field the identifier the macro sorts by, the final runtime key, whether its `#[cfg]` holds and its value',
         '  (`none` = an `#[emit::optional]` field holding `None`). The real call sites are harness/hcore/src/c02_fixtures.rs.',
         '-/',
         'import EmitModel.Model.Props', '',
         'namespace EmitModel.Props', '',
         '/-- `emit::props!{…}` (the collection itself), `emit::emit!(rt, "…", …)` or `#[emit::span(rt, "…", …)]` (the event observed at the emitter). -/',
         'inductive SiteKind where', '  | props | emit | span', '  deriving Repr, DecidableEq, Inhabited', '',
         'structure Fixture where', '  kind : SiteKind', '  fields : List Field', '  queries : List String',
         '  deriving Inhabited', '',
         'def fixtures : Array Fixture := #[']
    rows = []
    for kind, fields in fx:
        fs = ', '.join(
            f'⟨{lean_str(key_name(f["ident"]))}, {lean_str(final(f))}, {"false" if f["cfg"] is False else "true"}, {lean_val(f)}⟩'
            for f in fields)
        qs = ', '.join(lean_str(q) for q in queries(fields, kind))
        rows.append(f'  ⟨.{kind}, [{fs}], [{qs}]⟩')
    l.append(',\n'.join(rows))
    l += ['  ]', '', 'end EmitModel.Props', '']
    open(os.path.join(ROOT, 'lean', 'EmitModel', 'Model', 'PropsFixtures.lean'), 'w').write('\n'.join(l))
    print(f'{len(fx)} fixtures written')


if __name__ == '__main__':
    main()
