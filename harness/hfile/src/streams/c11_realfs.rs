//! C11 on the REAL filesystem (no hook, no injected `Filesystem`): a real `emit_file::FileSet` with the production
//! `StdFilesystem`, in a fresh working directory, for every way a file-set path can be spelled — with and without a
//! directory part, relative, nested, absolute, without extension, with a dotted prefix. The in-memory streams
//! (`c11`, `c10`) cannot see what the operating system does with the directory string the path is split into.
//!
//! case: (rfs PATHKIND MAX REUSE SIZE N RESTARTS PLANT)
//!   PATHKIND ::= nodir ("app.log") | dot ("./app.log") | rel ("logs/app.log") | nested ("a/b/app.log")
//!              | abs (<tmp>/logs/app.log) | noext ("logs/app") | dotted ("logs/my.app.log")
//!   the process' working directory is a fresh temp dir; RESTARTS+1 times: build the set with `max_files(MAX)`,
//!   `reuse_files(REUSE)`, `max_file_size_bytes(SIZE)` (SIZE = 0: default), roll by minute; emit N events, each followed
//!   by `blocking_flush(10 s)`; drop the set.
//!   PLANT = true: before the first start the set's directory is created and given things that are NOT the set's own
//!   although their names have the member shape: a symlink with the oldest possible period and one with a far-future
//!   period, both pointing at a file outside the working directory, and a sub-directory; plus a sibling set's file.
//! oracle (the property on the I/O alone; the model prints the constant verdict `ok`):
//!   rfs-flush-false     a flush of a healthy file set failed
//!   rfs-too-many-files  more than MAX member files are left (C11 "after every batch at most the configured maximum")
//!   rfs-foreign-name    the set created something that is not named prefix.period.counter.id.ext
//!   rfs-empty-file      a member file is empty although every write succeeded (a file is only started to be written to)
//!   rfs-events          the records on disk, files in name order, are not a suffix of the emitted sequence ending with
//!                       the last event (older events may only have left with a file deleted by retention)
//!   rfs-outside         something appeared outside the set's directory
//!   rfs-over-size-limit a file with more than one record is larger than the size limit
//!   rfs-not-json        a line of a member file is not one JSON object (C13 "one valid JSON object per line for rolling
//!                       files" on the real filesystem: re-opened files, appended records)
//!   rfs-foreign-touched a planted entry is gone, or the file the symlinks point at changed (C11 "never reads, appends
//!                       to or deletes a file that is not its own, whatever else shares the directory")

use hcommon::{Rng, Sexp, Stream, Tier};
use std::path::{Path, PathBuf};
use std::sync::atomic::{AtomicUsize, Ordering};
use std::time::Duration;

pub fn streams() -> Vec<Stream> {
    vec![Stream { name: "c11_realfs", gen, run }]
}

static COUNTER: AtomicUsize = AtomicUsize::new(0);

fn temp_dir() -> PathBuf {
    let n = COUNTER.fetch_add(1, Ordering::Relaxed);
    let base = if Path::new("/dev/shm").is_dir() { PathBuf::from("/dev/shm") } else { std::env::temp_dir() };
    base.join(format!("hfile-c11rfs-{}-{}", std::process::id(), n))
}

const KINDS: [&str; 7] = ["nodir", "dot", "rel", "nested", "abs", "noext", "dotted"];

/// (path given to `emit_file::set`, directory the members must be in (relative to cwd), prefix, ext)
fn spell(kind: &str, cwd: &Path) -> Option<(PathBuf, PathBuf, &'static str, &'static str)> {
    Some(match kind {
        "nodir" => (PathBuf::from("app.log"), PathBuf::from("."), "app", "log"),
        "dot" => (PathBuf::from("./app.log"), PathBuf::from("."), "app", "log"),
        "rel" => (PathBuf::from("logs/app.log"), PathBuf::from("logs"), "app", "log"),
        "nested" => (PathBuf::from("a/b/app.log"), PathBuf::from("a/b"), "app", "log"),
        "abs" => (cwd.join("logs").join("app.log"), PathBuf::from("logs"), "app", "log"),
        "noext" => (PathBuf::from("logs/app"), PathBuf::from("logs"), "app", "log"),
        "dotted" => (PathBuf::from("logs/my.app.log"), PathBuf::from("logs"), "my.app", "log"),
        _ => return None,
    })
}

/// prefix '.' YYYY-MM-DD-hh-mm '.' 8 digits '.' 8 hex '.' ext
fn is_member(name: &str, prefix: &str, ext: &str) -> bool {
    let Some(rest) = name.strip_prefix(prefix).and_then(|r| r.strip_prefix('.')) else { return false };
    let Some(rest) = rest.strip_suffix(ext).and_then(|r| r.strip_suffix('.')) else { return false };
    let parts: Vec<&str> = rest.split('.').collect();
    if parts.len() != 3 {
        return false;
    }
    let period_ok = parts[0].len() == 16
        && parts[0].bytes().enumerate().all(|(i, b)| if [4, 7, 10, 13].contains(&i) { b == b'-' } else { b.is_ascii_digit() });
    period_ok
        && parts[1].len() == 8
        && parts[1].bytes().all(|b| b.is_ascii_digit())
        && parts[2].len() == 8
        && parts[2].bytes().all(|b| b.is_ascii_hexdigit())
}

fn all_files(root: &Path, rel: &Path, out: &mut Vec<PathBuf>) {
    if let Ok(rd) = std::fs::read_dir(root.join(rel)) {
        for e in rd.filter_map(|e| e.ok()) {
            let p = rel.join(e.file_name());
            if e.path().is_dir() {
                all_files(root, &p, out);
            } else {
                out.push(p);
            }
        }
    }
}

fn run(line: &str) -> String {
    (|| -> Option<String> {
        let s = Sexp::parse(line)?;
        let (tag, a) = s.as_tagged()?;
        if tag != "rfs" || a.len() != 7 {
            return None;
        }
        let kind = a[0].as_atom()?;
        let (max, reuse, size, n, restarts) = (a[1].as_usize()?, a[2].as_bool()?, a[3].as_usize()?, a[4].as_usize()?, a[5].as_usize()?);
        if max == 0 || max > 8 || n == 0 || n > 40 || restarts > 3 {
            return None;
        }
        let cwd = temp_dir();
        std::fs::create_dir_all(&cwd).ok()?;
        // one case at a time per process (the runner is sequential), so the process-wide cwd is ours
        std::env::set_current_dir(&cwd).ok()?;
        let plant = a[6].as_bool()?;
        let (path, dir, prefix, ext) = spell(kind, &cwd)?;
        // planted foreign entries: (name in the set's directory, is symlink)
        let outside = cwd.with_extension("outside");
        let mut planted: Vec<String> = Vec::new();
        if plant {
            std::fs::create_dir_all(&outside).ok()?;
            std::fs::write(outside.join("precious.txt"), b"precious").ok()?;
            let d = cwd.join(&dir);
            std::fs::create_dir_all(&d).ok()?;
            for period in ["0001-01-01-00-00", "2999-12-31-23-59"] {
                let name = format!("{}.{}.00000000.ffffffff.{}", prefix, period, ext);
                #[cfg(unix)]
                std::os::unix::fs::symlink(outside.join("precious.txt"), d.join(&name)).ok()?;
                #[cfg(not(unix))]
                std::fs::create_dir_all(d.join(&name)).ok()?;
                planted.push(name);
            }
            let name = format!("{}.1999-01-01-00-00.00000000.00000000.{}", prefix, ext);
            std::fs::create_dir_all(d.join(&name)).ok()?;
            planted.push(name);
            let name = format!("{}2.2001-01-01-00-00.00000000.00000000.{}", prefix, ext);
            std::fs::write(d.join(&name), b"sibling\n").ok()?;
            planted.push(name);
        }
        let mut fails: std::collections::BTreeSet<&'static str> = Default::default();
        let mut emitted: Vec<String> = Vec::new();
        'outer: for r in 0..=restarts {
            // the builder's setters commute: limits first and the writer last, the writer first and the limits last, or
            // the default writer — the order of the calls rotates with the restart number (the custom writer produces
            // the line shape the oracle below reads)
            let custom = |buf: &mut emit_file::FileBuf, evt: &emit::Event<&dyn emit::props::ErasedProps>| -> std::io::Result<()> {
                use emit::Props as _;
                let marker = evt.props().get("marker").map(|v| v.to_string()).unwrap_or_default();
                buf.extend_from_slice(format!("{{\"mdl\":\"rfs\",\"marker\":\"{}\"}}", marker).as_bytes());
                Ok(())
            };
            let limits = |b: emit_file::FileSetBuilder| {
                let b = b.max_files(max).reuse_files(reuse).roll_by_minute();
                if size > 0 {
                    b.max_file_size_bytes(size)
                } else {
                    b
                }
            };
            let b = match r % 3 {
                1 => limits(emit_file::set(&path)).writer(custom, b"\n"),
                2 => limits(emit_file::set(&path).writer(custom, b"\n")),
                _ => limits(emit_file::set(&path)),
            };
            let files = b.spawn();
            for i in 0..n {
                let marker = format!("r{}e{}x", r, i);
                let evt = emit::Event::new(emit::Path::new_raw("rfs"), emit::Template::literal("e"), emit::Empty, ("marker", marker.as_str()));
                emit::Emitter::emit(&files, evt);
                emitted.push(marker);
                if !emit::Emitter::blocking_flush(&files, Duration::from_secs(10)) {
                    // a healthy worker on a healthy filesystem: nothing more to learn from this case
                    fails.insert("rfs-flush-false");
                    break 'outer;
                }
                // keep file creations in different milliseconds: within one millisecond names are ordered by their
                // random id (C11 known finding `same-ms-order`), which is not what this stream is about
                std::thread::sleep(Duration::from_millis(2));
                // after every batch: at most MAX members
                let mut members = 0;
                if let Ok(rd) = std::fs::read_dir(cwd.join(&dir)) {
                    for e in rd.filter_map(|e| e.ok()) {
                        let name = e.file_name().to_string_lossy().to_string();
                        if is_member(&name, prefix, ext) && !planted.contains(&name) {
                            members += 1;
                        }
                    }
                }
                if members > max {
                    fails.insert("rfs-too-many-files");
                }
            }
            drop(files);
        }
        let mut everything = Vec::new();
        all_files(&cwd, Path::new(""), &mut everything);
        let mut members: Vec<(String, Vec<u8>)> = Vec::new();
        for f in &everything {
            let name = f.file_name()?.to_string_lossy().to_string();
            let parent = f.parent().unwrap_or(Path::new(""));
            let in_dir = parent == dir.as_path() || (dir == Path::new(".") && parent == Path::new(""));
            if planted.contains(&name) {
                continue;
            }
            if !in_dir {
                fails.insert("rfs-outside");
            } else if !is_member(&name, prefix, ext) {
                fails.insert("rfs-foreign-name");
            } else {
                members.push((name, std::fs::read(cwd.join(f)).unwrap_or_default()));
            }
        }
        members.sort();
        if members.len() > max {
            fails.insert("rfs-too-many-files");
        }
        let mut seen: Vec<String> = Vec::new();
        for (_, content) in &members {
            if content.is_empty() {
                fails.insert("rfs-empty-file");
            }
            // every batch here is one event: a file that holds more than one record and is larger than the limit was
            // appended to although the batch took it past the limit (also when it was re-opened after a restart)
            if size > 0 && content.len() > size && content.iter().filter(|b| **b == b'\n').count() > 1 {
                fails.insert("rfs-over-size-limit");
            }
            if !content.is_empty() && !content.ends_with(b"\n") {
                fails.insert("rfs-not-json");
            }
            for rec in String::from_utf8_lossy(content).split('\n').filter(|r| !r.is_empty()) {
                if !(rec.starts_with("{\"mdl\":\"rfs\",") && rec.ends_with("x\"}") && rec.matches("\"mdl\":").count() == 1) {
                    fails.insert("rfs-not-json");
                }
                match rec.find("\"marker\":\"").map(|i| &rec[i + 10..]).and_then(|t| t.split('"').next()) {
                    Some(m) => seen.push(m.to_string()),
                    None => {
                        fails.insert("rfs-events");
                    }
                }
            }
        }
        // same-millisecond names are ordered by their random id (known finding F1 of C11): compare as a multiset
        // suffix — the set of markers on disk is exactly the last |seen| emitted ones, ending with the last event
        let tail: std::collections::BTreeSet<&String> = emitted[emitted.len().saturating_sub(seen.len())..].iter().collect();
        let got: std::collections::BTreeSet<&String> = seen.iter().collect();
        if seen.is_empty() || got != tail || got.len() != seen.len() {
            fails.insert("rfs-events");
        }
        if plant {
            let d = cwd.join(&dir);
            for name in &planted {
                if std::fs::symlink_metadata(d.join(name)).is_err() {
                    fails.insert("rfs-foreign-touched");
                }
            }
            if std::fs::read(outside.join("precious.txt")).ok().as_deref() != Some(b"precious".as_slice())
                || std::fs::read(d.join(&planted[3])).ok().as_deref() != Some(b"sibling\n".as_slice())
            {
                fails.insert("rfs-foreign-touched");
            }
            let _ = std::fs::remove_dir_all(&outside);
        }
        let _ = std::env::set_current_dir("/");
        let _ = std::fs::remove_dir_all(&cwd);
        Some(if fails.is_empty() {
            "ok".into()
        } else {
            format!(
                "files={} records={}/{}\tFAIL:{}",
                members.len(),
                seen.len(),
                emitted.len(),
                fails.into_iter().collect::<Vec<_>>().join("+")
            )
        })
    })()
    .unwrap_or_else(|| "bad-case".into())
}

fn gen(rng: &mut Rng, tier: Tier, n: usize) -> Vec<String> {
    // every spelling once with a plain configuration, then random ones
    let mut out: Vec<String> = KINDS.iter().map(|k| format!("(rfs {} 2 false 0 3 1 false)", k)).collect();
    out.push("(rfs rel 1 true 1 4 1 true)".into());
    // reuse across restarts under a size limit: the re-opened file's length counts
    out.push("(rfs rel 3 true 150 3 2 false)".into());
    out.push("(rfs nodir 2 true 400 6 1 false)".into());
    let extra = if tier == Tier::Thorough { n.max(60) } else { n.min(14) };
    for _ in 0..extra {
        let size = *rng.pick(&[0usize, 0, 1, 150, 400]);
        out.push(format!(
            "(rfs {} {} {} {} {} {} {})",
            rng.pick(&KINDS),
            1 + rng.usize(3),
            rng.bool(),
            size,
            1 + rng.usize(8),
            rng.usize(3),
            rng.bool()
        ));
    }
    out
}
