//! C09 carried through to the rolling-file emitter: `FileSetInner::emit` formats on the calling thread and then only
//! enqueues with the PLAIN `Sender::send` — so when the 10 000-slot queue is full behind a worker that is held up, the
//! whole older queue is discarded, the new event is kept and `file_queue_full_truncated` goes up by one per truncation.
//!
//! Case: (c09f N) — the worker is parked at its first filesystem call (the gate of stream `c07_pipe`, hook H6) holding
//! the batch of one event `first`; N events `e0 … e(N-1)` are emitted behind it; the metrics are sampled; the gate
//! opens, `blocking_flush`. Output: `len=L trunc=T kept=K newest=B` — queue length and truncation count before the
//! release, the number of complete records on disk after the flush, and whether the last emitted event is among them.
//! Model: `OtlpE2E.sendN 10000 N` (C09 `sendCount_refines_send`, `sendN_bound`): L, T; K = 1 + L; the newest is kept.

use super::c10::{Fs, FsInner, GATE_ARRIVED, GATE_CLOSED};
use hcommon::{Rng, Sexp, Stream, Tier};
use std::sync::atomic::{AtomicU32, Ordering};
use std::sync::{Arc, Mutex};
use std::time::Duration;

pub fn streams() -> Vec<Stream> {
    vec![Stream { name: "c09_file", gen, run }]
}

#[derive(Clone)]
struct FixedClock;
impl emit::Clock for FixedClock {
    fn now(&self) -> Option<emit::Timestamp> {
        emit::Timestamp::from_unix(Duration::from_secs(1_700_000_000))
    }
}

#[derive(Clone)]
struct CountingRng(Arc<AtomicU32>);
impl emit::Rng for CountingRng {
    fn fill<A: AsMut<[u8]>>(&self, mut arr: A) -> Option<A> {
        let v = (self.0.fetch_add(1, Ordering::SeqCst) as u64).to_le_bytes();
        for (i, b) in arr.as_mut().iter_mut().enumerate() {
            *b = v[i % 8];
        }
        Some(arr)
    }
}

/// (file_queue_length, file_queue_full_truncated) as `FileSet::metric_source()` reports them
fn sample(files: &emit_file::FileSet) -> (Option<u64>, Option<u64>) {
    use emit::metric::Source;
    let (len, trunc) = (std::cell::Cell::new(None), std::cell::Cell::new(None));
    files.metric_source().sample_metrics(emit::metric::sampler::from_fn(|m| {
        let v = m.value().by_ref().cast::<u64>();
        match m.name().get() {
            "file_queue_length" => len.set(v),
            "file_queue_full_truncated" => trunc.set(v),
            _ => {}
        }
    }));
    (len.get(), trunc.get())
}

fn run(line: &str) -> String {
    (|| -> Option<String> {
        let s = Sexp::parse(line)?;
        let (tag, a) = s.as_tagged()?;
        if tag != "c09f" || a.len() != 1 {
            return None;
        }
        let n = a[0].as_usize()?;
        if n > 45_000 {
            return None;
        }
        let fs = Fs(Arc::new(Mutex::new(FsInner::default())));
        emit_file::verif::inject_next_spawn(fs.clone(), FixedClock, CountingRng(Arc::new(AtomicU32::new(1))));
        let payload: Arc<Mutex<Vec<u8>>> = Arc::new(Mutex::new(Vec::new()));
        let pl = payload.clone();
        let files = emit_file::set_with_writer(
            "logs/app.log",
            move |buf, _evt| {
                buf.extend_from_slice(&pl.lock().unwrap());
                Ok(())
            },
            b"\n",
        )
        .max_files(1000)
        .spawn();
        let emit_one = |bytes: &[u8]| {
            *payload.lock().unwrap() = bytes.to_vec();
            emit::Emitter::emit(&files, emit::Event::new(emit::Path::new_raw("m"), emit::Template::literal("x"), emit::Empty, emit::Empty));
        };
        let mut fails: Vec<String> = Vec::new();
        GATE_ARRIVED.store(false, Ordering::SeqCst);
        GATE_CLOSED.store(true, Ordering::SeqCst);
        emit_one(b"first");
        let t0 = std::time::Instant::now();
        while !GATE_ARRIVED.load(Ordering::SeqCst) && t0.elapsed() < Duration::from_secs(10) {
            std::thread::yield_now();
        }
        if !GATE_ARRIVED.load(Ordering::SeqCst) {
            fails.push("worker-never-reached-the-filesystem".into());
        }
        let before = sample(&files);
        let mut max_len = 0;
        for i in 0..n {
            emit_one(format!("e{}", i).as_bytes());
            if i % 997 == 0 || i + 1 == n {
                if let (Some(l), _) = sample(&files) {
                    max_len = max_len.max(l);
                }
            }
        }
        let after = sample(&files);
        GATE_CLOSED.store(false, Ordering::SeqCst);
        let flushed = emit::Emitter::blocking_flush(&files, Duration::from_secs(30));
        drop(files);
        let (kept, newest, first) = {
            let g = fs.0.lock().unwrap();
            let mut recs: Vec<Vec<u8>> = Vec::new();
            for f in g.files.values() {
                let r: Vec<&[u8]> = f.synced.split(|b| *b == b'\n').collect();
                recs.extend(r[..r.len() - 1].iter().map(|x| x.to_vec()));
            }
            let newest = n == 0 || recs.iter().any(|r| r[..] == *format!("e{}", n - 1).as_bytes());
            (recs.len(), newest, recs.iter().any(|r| r[..] == *b"first"))
        };
        if !flushed {
            fails.push("flush-false".into());
        }
        if !first {
            fails.push("the-batch-the-worker-held-is-not-on-disk".into());
        }
        if max_len > 10_000 {
            fails.push(format!("queue_length={}-exceeds-capacity-10000", max_len));
        }
        let out = format!("len={} trunc={} kept={} newest={}", after.0?, after.1? - before.1?, kept, newest);
        Some(if fails.is_empty() { out } else { format!("{}\tFAIL:{}", out, fails.join(",")) })
    })()
    .unwrap_or_else(|| "bad-case".into())
}

fn gen(rng: &mut Rng, tier: Tier, _n: usize) -> Vec<String> {
    let mut out: Vec<String> = [0usize, 1, 9_999, 10_000, 10_001, 20_001].iter().map(|n| format!("(c09f {})", n)).collect();
    let extra = if tier == Tier::Thorough { 12 } else { 2 };
    for _ in 0..extra {
        out.push(format!("(c09f {})", rng.usize(31_000)));
    }
    out
}
