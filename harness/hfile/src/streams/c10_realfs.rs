//! C10 on the REAL filesystem with a REAL write fault (Linux): the production `StdFilesystem` / `StdFile` — which the
//! injected-filesystem streams `c10` / `c10_emit` replace — under "short write, then error": `RLIMIT_FSIZE` is lowered
//! for this process, so the kernel cuts the write that crosses the limit short and fails the next one with `EFBIG`;
//! once the fault was hit the limit is lifted and the worker retries.
//!
//! case: (rfault LIMIT EVENTS SIZE)   no file may grow past LIMIT bytes while EVENTS events of SIZE bytes are emitted
//!       (rfdrop LIMIT EVENTS SIZE)   the same fault, but it strikes the LAST batch: a first event is written and flushed,
//!                                    the worker goes idle, then the events are emitted and the file set is DROPPED at once
//!                                    (no flush); the limit is lifted 1.2 s later from another thread. The worker must
//!                                    still retry the batch it took after the close, and write everything
//! oracle (the property on the I/O alone; the model prints the constant verdict `ok`):
//!   rf-flush-false   the flush after the fault was lifted failed
//!   rf-lost          an event is in no file ("a fault may duplicate an event but never loses one")
//!   rf-mangled       a record is neither a complete event, nor empty, nor a truncated prefix of one event
//! When the platform cannot inject the fault (not Linux, `setrlimit` refused, the limit never reached) the case is
//! reported as `ok`: nothing was observed that contradicts the property.

use hcommon::{Rng, Sexp, Stream, Tier};
use std::collections::BTreeSet;
use std::io::Write as _;
use std::path::{Path, PathBuf};
use std::sync::atomic::{AtomicUsize, Ordering};
use std::time::{Duration, Instant};

pub fn streams() -> Vec<Stream> {
    vec![Stream { name: "c10_realfs", gen, run }]
}

static COUNTER: AtomicUsize = AtomicUsize::new(0);

fn temp_dir() -> PathBuf {
    let n = COUNTER.fetch_add(1, Ordering::Relaxed);
    let base = if Path::new("/dev/shm").is_dir() { PathBuf::from("/dev/shm") } else { std::env::temp_dir() };
    base.join(format!("hfile-c10rfs-{}-{}", std::process::id(), n))
}

#[cfg(target_os = "linux")]
mod limit {
    #[repr(C)]
    pub struct RLimit {
        pub cur: u64,
        pub max: u64,
    }
    const RLIMIT_FSIZE: i32 = 1;
    const SIGXFSZ: i32 = 25;
    const SIG_IGN: usize = 1;
    extern "C" {
        fn getrlimit(resource: i32, rlim: *mut RLimit) -> i32;
        fn setrlimit(resource: i32, rlim: *const RLimit) -> i32;
        fn signal(signum: i32, handler: usize) -> usize;
    }
    /// lower the soft limit; returns the original to restore
    pub fn lower(to: u64) -> Option<RLimit> {
        // without this the process is killed instead of the write failing
        unsafe { signal(SIGXFSZ, SIG_IGN) };
        let mut original = RLimit { cur: 0, max: 0 };
        if unsafe { getrlimit(RLIMIT_FSIZE, &mut original) } != 0 {
            return None;
        }
        if unsafe { setrlimit(RLIMIT_FSIZE, &RLimit { cur: to, max: original.max }) } != 0 {
            return None;
        }
        Some(original)
    }
    pub fn restore(original: &RLimit) {
        unsafe { setrlimit(RLIMIT_FSIZE, original) };
    }
}

#[cfg(not(target_os = "linux"))]
mod limit {
    pub struct RLimit;
    pub fn lower(_: u64) -> Option<RLimit> {
        None
    }
    pub fn restore(_: &RLimit) {}
}

fn event_text(n: usize, size: usize) -> String {
    let head = format!("event-{:06}-", n);
    format!("{}{}", head, "x".repeat(size.saturating_sub(head.len())))
}

fn max_file_len(dir: &Path) -> u64 {
    std::fs::read_dir(dir)
        .map(|es| es.filter_map(|e| e.ok()?.metadata().ok()).map(|m| m.len()).max().unwrap_or(0))
        .unwrap_or(0)
}

fn run(line: &str) -> String {
    (|| -> Option<String> {
        let s = Sexp::parse(line)?;
        let (tag, a) = s.as_tagged()?;
        if (tag != "rfault" && tag != "rfdrop") || a.len() != 3 {
            return None;
        }
        let at_drop = tag == "rfdrop";
        let (lim, events, size) = (a[0].as_u64()?, a[1].as_usize()?, a[2].as_usize()?);
        if lim < 1000 || lim > 10_000_000 || events == 0 || events > 20_000 || size < 16 || size > 4096 {
            return None;
        }
        let dir = temp_dir();
        let files = emit_file::set_with_writer(dir.join("app.log"), |buf, evt| write!(buf, "{}", evt.msg()), b"\n").spawn();
        if at_drop {
            // a first event, written and flushed; then let the worker's idle back-off grow
            let text = event_text(events, size);
            emit::Emitter::emit(&files, emit::evt!("{text}"));
            let _ = emit::Emitter::blocking_flush(&files, Duration::from_secs(10));
            std::thread::sleep(Duration::from_millis(80));
        }
        let Some(original) = limit::lower(lim) else {
            drop(files);
            let _ = std::fs::remove_dir_all(&dir);
            return Some("ok".into());
        };
        for n in 0..events {
            let text = event_text(n, size);
            emit::Emitter::emit(&files, emit::evt!("{text}"));
        }
        if at_drop {
            let mut fails: BTreeSet<String> = BTreeSet::new();
            std::thread::scope(|sc| {
                sc.spawn(|| {
                    std::thread::sleep(Duration::from_millis(1200));
                    limit::restore(&original);
                });
                // dropping the file set closes the channel; the worker drains what is queued (retrying) and ends
                drop(files);
            });
            // the worker thread is detached: give it time to finish its retries
            let expected: BTreeSet<String> = (0..=events).map(|n| event_text(n, size)).collect();
            let t0 = Instant::now();
            let mut found: BTreeSet<String> = BTreeSet::new();
            while t0.elapsed() < Duration::from_secs(12) {
                found.clear();
                if let Ok(rd) = std::fs::read_dir(&dir) {
                    for e in rd.filter_map(|e| e.ok()) {
                        let contents = std::fs::read(e.path()).unwrap_or_default();
                        for rec in contents.split(|b| *b == b'\n') {
                            let rec = String::from_utf8_lossy(rec).to_string();
                            if expected.contains(&rec) {
                                found.insert(rec);
                            }
                        }
                    }
                }
                if found.len() == expected.len() {
                    break;
                }
                std::thread::sleep(Duration::from_millis(100));
            }
            let _ = std::fs::remove_dir_all(&dir);
            if found.len() != expected.len() {
                fails.insert("rf-lost".into());
            }
            return Some(if fails.is_empty() {
                "ok".into()
            } else {
                format!("found={}/{}\tFAIL:{}", found.len(), expected.len(), fails.into_iter().collect::<Vec<_>>().join("+"))
            });
        }
        // wait for the fault: the kernel cuts the crossing write short at exactly the limit
        let t0 = Instant::now();
        let mut hit = true;
        while max_file_len(&dir) < lim {
            if t0.elapsed() > Duration::from_secs(5) {
                hit = false;
                break;
            }
            std::thread::sleep(Duration::from_millis(2));
        }
        std::thread::sleep(Duration::from_millis(100));
        // lift the fault, well before the first retry (700 ms after the failure)
        limit::restore(&original);
        let mut fails: BTreeSet<String> = BTreeSet::new();
        if !emit::Emitter::blocking_flush(&files, Duration::from_secs(30)) {
            fails.insert("rf-flush-false".into());
        }
        drop(files);
        let expected: BTreeSet<String> = (0..events).map(|n| event_text(n, size)).collect();
        let mut found: BTreeSet<String> = BTreeSet::new();
        if let Ok(rd) = std::fs::read_dir(&dir) {
            for e in rd.filter_map(|e| e.ok()) {
                let contents = std::fs::read(e.path()).unwrap_or_default();
                for rec in contents.split(|b| *b == b'\n') {
                    let rec = String::from_utf8_lossy(rec).to_string();
                    if expected.contains(&rec) {
                        found.insert(rec);
                    } else if !expected.iter().any(|evt| evt.starts_with(&rec)) {
                        fails.insert("rf-mangled".into());
                    }
                }
            }
        }
        let _ = std::fs::remove_dir_all(&dir);
        if found.len() != expected.len() {
            fails.insert("rf-lost".into());
        }
        let _ = hit;
        Some(if fails.is_empty() {
            "ok".into()
        } else {
            format!(
                "found={}/{} fault-hit={}\tFAIL:{}",
                found.len(),
                expected.len(),
                hit,
                fails.into_iter().collect::<Vec<_>>().join("+")
            )
        })
    })()
    .unwrap_or_else(|| "bad-case".into())
}

fn gen(rng: &mut Rng, tier: Tier, n: usize) -> Vec<String> {
    let mut out = vec!["(rfault 20000 1000 100)".to_string(), "(rfdrop 3000 60 100)".to_string()];
    let extra = if tier == Tier::Thorough { n.max(12) } else { n.min(2) };
    for _ in 0..extra {
        let size = *rng.pick(&[40usize, 100, 300, 1000]);
        let lim = 5_000 + rng.below(60_000);
        // enough events to cross the limit several times over
        let events = ((lim as usize * (2 + rng.usize(3))) / (size + 1)).clamp(10, 5000);
        out.push(format!("(rfault {} {} {})", lim, events, size));
    }
    out
}
