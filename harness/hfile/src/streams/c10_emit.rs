//! C10, the emitting side: the public `emit_file` API (`set_with_writer` / `set`, `FileSet::emit`,
//! `blocking_flush`) on a real temporary directory. Ties the hypothesis of the C10 theorems — every event buffer
//! handed to the worker ends with the separator — to `FileSetInner::emit`, scripts writers that FAIL after writing
//! 0..k bytes (the event must be dropped whole, later events from the same or another thread unaffected), and
//! checks that the default JSON writer never puts the separator inside a record.

use hcommon::{hex_atom, Rng, Sexp, Stream, Tier};
use std::collections::VecDeque;
use std::sync::atomic::{AtomicUsize, Ordering};
use std::sync::{Arc, Mutex};
use std::time::Duration;

static COUNTER: AtomicUsize = AtomicUsize::new(0);

fn temp_dir() -> std::path::PathBuf {
    let n = COUNTER.fetch_add(1, Ordering::Relaxed);
    std::env::temp_dir().join(format!("hfile-emit-{}-{}", std::process::id(), n))
}

fn intern(sep: &[u8]) -> &'static [u8] {
    static TABLE: Mutex<Vec<&'static [u8]>> = Mutex::new(Vec::new());
    let mut g = TABLE.lock().unwrap();
    if let Some(s) = g.iter().find(|s| **s == sep) {
        return s;
    }
    let leaked: &'static [u8] = Box::leak(sep.to_vec().into_boxed_slice());
    g.push(leaked);
    leaked
}

/// All bytes of all files in `dir`, in name order.
fn read_all(dir: &std::path::Path) -> Vec<u8> {
    let mut names: Vec<_> = std::fs::read_dir(dir).map(|rd| rd.filter_map(|e| e.ok()).map(|e| e.path()).collect()).unwrap_or_default();
    names.sort();
    let mut out = Vec::new();
    for n in names {
        out.extend(std::fs::read(n).unwrap_or_default());
    }
    out
}

/// One event of a case: what the writer puts into the buffer, whether it then fails, and whether the event is
/// emitted from another thread.
#[derive(Clone)]
struct Item {
    bytes: Vec<u8>,
    fail: bool,
    other_thread: bool,
}

/// `pre = Some(bytes)`: the set is RESTARTED onto a file of the current period that holds exactly `bytes` (a torn tail when
/// they do not end with the separator), with `reuse_files(true)` — the public builder must hand the CONFIGURED separator
/// to the worker's recovery write.
fn run_custom(sep: Vec<u8>, items: Vec<Item>, pre: Option<Vec<u8>>) -> String {
    for _attempt in 0..3 {
        if let Some(out) = run_custom_once(sep.clone(), items.clone(), pre.clone()) {
            return out;
        }
    }
    "inconclusive".into()
}

fn run_custom_once(sep: Vec<u8>, items: Vec<Item>, pre: Option<Vec<u8>>) -> Option<String> {
    let dir = temp_dir();
    if let Some(pre) = &pre {
        // a first life of the set creates the file of the current period; its content is then replaced
        let first = emit_file::set_with_writer(dir.join("app.log"), |buf, _evt| { buf.extend_from_slice(b"first"); Ok(()) }, intern(&sep))
            .reuse_files(true)
            .spawn();
        emit::Emitter::emit(&first, emit::Event::new(emit::Path::new_raw("m"), emit::Template::literal("x"), emit::Empty, emit::Empty));
        let ok = emit::Emitter::blocking_flush(&first, Duration::from_secs(20));
        drop(first);
        let names: Vec<_> = std::fs::read_dir(&dir).map(|rd| rd.filter_map(|e| e.ok()).map(|e| e.path()).collect()).unwrap_or_default();
        if !ok || names.len() != 1 || std::fs::write(&names[0], pre).is_err() {
            let _ = std::fs::remove_dir_all(&dir);
            return Some("first-life-failed\tFAIL:flush".into());
        }
    }
    let queue: Arc<Mutex<VecDeque<Item>>> = Arc::new(Mutex::new(items.iter().cloned().collect()));
    let q = queue.clone();
    let files = emit_file::set_with_writer(
        dir.join("app.log"),
        move |buf, _evt| {
            match q.lock().unwrap().pop_front() {
                Some(item) => {
                    buf.extend_from_slice(&item.bytes);
                    if item.fail {
                        Err(std::io::Error::new(std::io::ErrorKind::Other, "scripted format failure"))
                    } else {
                        Ok(())
                    }
                }
                None => Ok(()),
            }
        },
        intern(&sep),
    )
    .reuse_files(pre.is_some())
    .spawn();
    let emit_one = |files: &emit_file::FileSet| {
        let evt = emit::Event::new(emit::Path::new_raw("m"), emit::Template::literal("x"), emit::Empty, emit::Empty);
        emit::Emitter::emit(files, evt);
    };
    for item in &items {
        if item.other_thread {
            // sequential, so the order of events is the order of the case
            std::thread::scope(|s| {
                s.spawn(|| emit_one(&files)).join().unwrap();
            });
        } else {
            emit_one(&files);
        }
    }
    let flushed = emit::Emitter::blocking_flush(&files, Duration::from_secs(20));
    let failed = files.metric_source().event_format_failed();
    drop(files);
    let content = read_all(&dir);
    let nfiles = std::fs::read_dir(&dir).map(|rd| rd.count()).unwrap_or(0);
    let _ = std::fs::remove_dir_all(&dir);
    if pre.is_some() && nfiles != 1 {
        // the period rolled over between the two lives of the set (top of the hour): run the case again
        return None;
    }
    let mut out = format!("{} failed={}", hex_atom(&content), failed);
    let oks: Vec<&Vec<u8>> = items.iter().filter(|i| !i.fail).map(|i| &i.bytes).collect();
    if pre.is_some() {
        if !flushed {
            out.push_str("\tFAIL:flush");
        }
        return Some(out);
    }
    if !flushed {
        out.push_str("\tFAIL:flush");
    } else if failed != items.iter().filter(|i| i.fail).count() {
        out.push_str("\tFAIL:format-failed-count");
    } else if sep.len() == 1 && oks.iter().all(|e| !e[..e.len().saturating_sub(1)].contains(&sep[0])) {
        // oracle: every record but the last piece is exactly one successfully formatted payload (minus its own
        // trailing separator); failed formats leave no byte anywhere
        let recs: Vec<&[u8]> = content.split(|b| *b == sep[0]).collect();
        let want: Vec<Vec<u8>> = oks.iter().map(|e| if e.last() == Some(&sep[0]) { e[..e.len() - 1].to_vec() } else { (*e).clone() }).collect();
        let ok = recs.len() == want.len() + 1 && recs[recs.len() - 1].is_empty() && recs.iter().zip(want.iter()).all(|(a, b)| *a == &b[..]);
        if !ok {
            out.push_str("\tFAIL:emit-record");
        }
    }
    Some(out)
}

fn run_json(evs: Vec<(String, String)>) -> String {
    let dir = temp_dir();
    let files = emit_file::set(dir.join("app.log")).spawn();
    for (m, p) in &evs {
        let evt = emit::Event::new(emit::Path::new_raw("m"), emit::Template::literal_ref(m), emit::Empty, [("p", &**p)]);
        emit::Emitter::emit(&files, evt);
    }
    let flushed = emit::Emitter::blocking_flush(&files, Duration::from_secs(20));
    drop(files);
    let content = read_all(&dir);
    let _ = std::fs::remove_dir_all(&dir);
    let recs: Vec<&[u8]> = content.split(|b| *b == b'\n').collect();
    let n = recs.len() - 1;
    let mut ok = flushed && recs[n].is_empty() && n == evs.len();
    if ok {
        for (r, (m, p)) in recs[..n].iter().zip(evs.iter()) {
            match serde_json::from_slice::<serde_json::Value>(r) {
                Ok(v) => {
                    if v.get("msg").and_then(|x| x.as_str()) != Some(m) || v.get("p").and_then(|x| x.as_str()) != Some(p) {
                        ok = false;
                    }
                }
                Err(_) => ok = false,
            }
        }
    }
    let mut out = format!("n={} ok={}", n, ok);
    if !ok {
        out.push_str("\tFAIL:json-record");
    }
    out
}

fn run(line: &str) -> String {
    let s = match Sexp::parse(line) {
        Some(s) => s,
        None => return "bad-case".to_string(),
    };
    let parsed = (|| {
        let (t, a) = s.as_tagged()?;
        match (t, a.len()) {
            ("emit", 2) | ("emitr", 3) => {
                let sep = a[0].as_bytes()?;
                let pre = if t == "emitr" { Some(a[1].as_bytes()?) } else { None };
                let (t, evs) = a[a.len() - 1].as_tagged()?;
                if t != "ev" {
                    return None;
                }
                let mut items = Vec::new();
                for e in evs {
                    items.push(match e.as_tagged() {
                        Some(("t", [p])) => Item { bytes: p.as_bytes()?, fail: false, other_thread: true },
                        Some(("fail", [p])) => Item { bytes: p.as_bytes()?, fail: true, other_thread: false },
                        Some(("tfail", [p])) => Item { bytes: p.as_bytes()?, fail: true, other_thread: true },
                        Some(_) => return None,
                        None => Item { bytes: e.as_bytes()?, fail: false, other_thread: false },
                    });
                }
                Some(run_custom(sep, items, pre))
            }
            ("json", 1) => {
                let (t, evs) = a[0].as_tagged()?;
                if t != "ev" {
                    return None;
                }
                let mut v = Vec::new();
                for e in evs {
                    let l = e.as_list()?;
                    if l.len() != 2 {
                        return None;
                    }
                    v.push((l[0].as_string()?, l[1].as_string()?));
                }
                Some(run_json(v))
            }
            _ => None,
        }
    })();
    parsed.unwrap_or_else(|| "bad-case".to_string())
}

fn gen(rng: &mut Rng, _tier: Tier, n: usize) -> Vec<String> {
    let mut out = Vec::new();
    while out.len() < n {
        if rng.chance(2, 3) {
            let sep: Vec<u8> = match rng.below(6) {
                0 => vec![0],
                1 => vec![b';'],
                2 => vec![b'\r', b'\n'],
                _ => vec![b'\n'],
            };
            let k = rng.range(0, 6);
            let failing = rng.bool();
            let mut evs = Vec::new();
            for _ in 0..k {
                // a writer that fails after writing 0..k bytes, from this or another thread
                if failing && rng.chance(1, 3) {
                    let n = *rng.pick(&[0u64, 1, 5, 24]);
                    let mut part = super::c10::gen_payload(rng, &sep, n);
                    if rng.chance(1, 4) {
                        part.extend_from_slice(&sep);
                    }
                    let tag = if rng.chance(1, 3) { "tfail" } else { "fail" };
                    evs.push(Sexp::tagged(tag, vec![Sexp::bytes(&part)]));
                    continue;
                }
                let mut e = super::c10::gen_payload(rng, &sep, 24);
                match rng.below(6) {
                    0 | 1 => e.extend_from_slice(&sep),          // the writer finished with the separator itself
                    2 if sep.len() > 1 => e.push(sep[sep.len() - 1]), // only the tail of the separator
                    3 if sep.len() > 1 => e.extend_from_slice(&sep[..1]),
                    _ => {}
                }
                if failing && rng.chance(1, 4) {
                    evs.push(Sexp::tagged("t", vec![Sexp::bytes(&e)]));
                } else {
                    evs.push(Sexp::bytes(&e));
                }
            }
            if rng.chance(1, 4) {
                // restarted onto an existing file: empty, complete records, or a torn tail
                let pre_len = *rng.pick(&[0u64, 3, 24]);
                let mut pre = super::c10::gen_payload(rng, &sep, pre_len);
                match rng.below(4) {
                    0 => pre.extend_from_slice(&sep),
                    1 if sep.len() > 1 => pre.extend_from_slice(&sep[..1]),
                    _ => {}
                }
                out.push(Sexp::tagged("emitr", vec![Sexp::bytes(&sep), Sexp::bytes(&pre), Sexp::tagged("ev", evs)]).to_string());
            } else {
                out.push(Sexp::tagged("emit", vec![Sexp::bytes(&sep), Sexp::tagged("ev", evs)]).to_string());
            }
        } else {
            let k = rng.range(0, 4);
            let texts = ["plain", "two\nlines", "\n", "tab\tq\"uote\\", "\r\n", "caf\u{e9}\u{2028}x", "", "{\"a\":1}\n"];
            let mut evs = Vec::new();
            for _ in 0..k {
                let m: &str = *rng.pick(&texts[..]);
                let p: &str = *rng.pick(&texts[..]);
                evs.push(Sexp::list(vec![Sexp::str(m), Sexp::str(p)]));
            }
            out.push(Sexp::tagged("json", vec![Sexp::tagged("ev", evs)]).to_string());
        }
    }
    out
}

pub fn streams() -> Vec<Stream> {
    vec![Stream { name: "c10_emit", gen, run }]
}
