//! C10 (and, through `pub` items, C11): the REAL `emit_file` worker (`Worker::on_batch`, reached through the
//! `emit_file::verif` hook H1) running on a fault-injecting in-memory filesystem with a scripted clock and id
//! source. Case grammar and output format: see `lean/EmitModel/Driver/C10.lean`.

use emit_file::verif;
use hcommon::{hex_atom, Rng, Sexp, Stream, Tier};
use std::collections::{BTreeMap, BTreeSet, HashMap};
use std::io;
use std::path::{Path, PathBuf};
use std::sync::{Arc, Mutex};

pub const DIR: &str = "logs";

// ------------------------------------------------------------------------------------------------ case

#[derive(Clone, Debug, PartialEq)]
pub enum Fault {
    Err,
    Short(u64),
    Crash { w: u64, drop_new: bool, lose: Vec<u64> },
}

#[derive(Clone, Copy, Debug, PartialEq, Eq, PartialOrd, Ord)]
pub struct Now {
    pub y: u16,
    pub mo: u8,
    pub d: u8,
    pub h: u8,
    pub mi: u8,
    pub s: u8,
    pub ns: u32,
}

#[derive(Clone, Debug)]
pub enum Step {
    Batch { now: Now, id: u32, pre: Vec<Vec<u8>>, ev: Vec<Vec<u8>> },
    Retry { now: Now, id: u32 },
    Restart,
}

#[derive(Clone, Debug)]
pub struct Cfg {
    pub prefix: String,
    pub ext: String,
    pub roll_by: verif::RollBy,
    pub reuse: bool,
    pub max_files: usize,
    pub max_size: usize,
    pub sep: Vec<u8>,
}

#[derive(Clone, Debug)]
pub struct Case {
    pub cfg: Cfg,
    pub dir: Vec<(String, Vec<u8>)>,
    pub plan: Vec<(u64, Fault)>,
    pub hist: Vec<Step>,
}

fn roll_atom(r: verif::RollBy) -> &'static str {
    match r {
        verif::RollBy::Day => "day",
        verif::RollBy::Hour => "hour",
        verif::RollBy::Minute => "minute",
    }
}

impl Now {
    pub fn sexp(&self) -> Sexp {
        Sexp::list(vec![
            Sexp::num(self.y),
            Sexp::num(self.mo),
            Sexp::num(self.d),
            Sexp::num(self.h),
            Sexp::num(self.mi),
            Sexp::num(self.s),
            Sexp::num(self.ns),
        ])
    }
    pub fn parse(s: &Sexp) -> Option<Now> {
        let l = s.as_list()?;
        if l.len() != 7 {
            return None;
        }
        let n: Vec<u64> = l.iter().map(|x| x.as_u64()).collect::<Option<_>>()?;
        let ok = (1970..=9999).contains(&n[0])
            && (1..=12).contains(&n[1])
            && (1..=31).contains(&n[2])
            && n[3] <= 23
            && n[4] <= 59
            && n[5] <= 59
            && n[6] <= 999_999_999;
        if !ok {
            return None;
        }
        Some(Now { y: n[0] as u16, mo: n[1] as u8, d: n[2] as u8, h: n[3] as u8, mi: n[4] as u8, s: n[5] as u8, ns: n[6] as u32 })
    }
    pub fn parts(&self) -> emit::timestamp::Parts {
        emit::timestamp::Parts { years: self.y, months: self.mo, days: self.d, hours: self.h, minutes: self.mi, seconds: self.s, nanos: self.ns }
    }
    /// The timestamp of these parts; `None` unless the parts are what `to_parts` gives back (a real calendar date).
    pub fn timestamp(&self) -> Option<emit::Timestamp> {
        let ts = emit::Timestamp::from_parts(self.parts())?;
        if ts.to_parts() == self.parts() {
            Some(ts)
        } else {
            None
        }
    }
    pub fn from_timestamp(ts: emit::Timestamp) -> Now {
        let p = ts.to_parts();
        Now { y: p.years, mo: p.months, d: p.days, h: p.hours, mi: p.minutes, s: p.seconds, ns: p.nanos }
    }
}

impl Case {
    pub fn line(&self) -> String {
        let c = &self.cfg;
        let cfg = Sexp::tagged(
            "cfg",
            vec![
                Sexp::str(&c.prefix),
                Sexp::str(&c.ext),
                Sexp::atom(roll_atom(c.roll_by)),
                Sexp::bool(c.reuse),
                Sexp::num(c.max_files),
                Sexp::num(c.max_size),
                Sexp::bytes(&c.sep),
            ],
        );
        let dir = Sexp::tagged("dir", self.dir.iter().map(|(n, b)| Sexp::list(vec![Sexp::str(n), Sexp::bytes(b)])).collect());
        let plan = Sexp::tagged(
            "plan",
            self.plan
                .iter()
                .map(|(i, f)| match f {
                    Fault::Err => Sexp::list(vec![Sexp::num(i), Sexp::atom("err")]),
                    Fault::Short(n) => Sexp::list(vec![Sexp::num(i), Sexp::atom("short"), Sexp::num(n)]),
                    Fault::Crash { w, drop_new, lose } => {
                        let mut v = vec![Sexp::num(i), Sexp::atom("crash"), Sexp::num(w), Sexp::bool(*drop_new)];
                        v.extend(lose.iter().map(Sexp::num));
                        Sexp::list(v)
                    }
                })
                .collect(),
        );
        let hist = Sexp::tagged(
            "hist",
            self.hist
                .iter()
                .map(|s| match s {
                    Step::Batch { now, id, pre, ev } => Sexp::tagged(
                        "b",
                        vec![
                            now.sexp(),
                            Sexp::num(id),
                            Sexp::tagged("pre", pre.iter().map(|e| Sexp::bytes(e)).collect()),
                            Sexp::tagged("ev", ev.iter().map(|e| Sexp::bytes(e)).collect()),
                        ],
                    ),
                    Step::Retry { now, id } => Sexp::tagged("retry", vec![now.sexp(), Sexp::num(id)]),
                    Step::Restart => Sexp::tagged("restart", vec![]),
                })
                .collect(),
        );
        Sexp::tagged("fs", vec![cfg, dir, plan, hist]).to_string()
    }

    pub fn parse(line: &str) -> Option<Case> {
        let s = Sexp::parse(line)?;
        let (tag, args) = s.as_tagged()?;
        if tag != "fs" || args.len() != 4 {
            return None;
        }
        let (t, c) = args[0].as_tagged()?;
        if t != "cfg" || c.len() != 7 {
            return None;
        }
        let roll_by = match c[2].as_atom()? {
            "day" => verif::RollBy::Day,
            "hour" => verif::RollBy::Hour,
            "minute" => verif::RollBy::Minute,
            _ => return None,
        };
        let cfg = Cfg {
            prefix: c[0].as_string()?,
            ext: c[1].as_string()?,
            roll_by,
            reuse: c[3].as_bool()?,
            max_files: c[4].as_usize()?,
            max_size: c[5].as_usize()?,
            sep: c[6].as_bytes()?,
        };
        let (t, d) = args[1].as_tagged()?;
        if t != "dir" {
            return None;
        }
        let mut dir = Vec::new();
        for e in d {
            let l = e.as_list()?;
            if l.len() != 2 {
                return None;
            }
            let name = l[0].as_string()?;
            if name.is_empty() || name.contains('/') || name.contains('\\') || name == "." || name == ".." {
                return None;
            }
            dir.push((name, l[1].as_bytes()?));
        }
        let (t, p) = args[2].as_tagged()?;
        if t != "plan" {
            return None;
        }
        let mut plan = Vec::new();
        for e in p {
            let l = e.as_list()?;
            if l.len() < 2 {
                return None;
            }
            let i = l[0].as_u64()?;
            let f = match (l[1].as_atom()?, l.len()) {
                ("err", 2) => Fault::Err,
                ("short", 3) => Fault::Short(l[2].as_u64()?),
                ("crash", n) if n >= 4 => Fault::Crash {
                    w: l[2].as_u64()?,
                    drop_new: l[3].as_bool()?,
                    lose: l[4..].iter().map(|x| x.as_u64()).collect::<Option<_>>()?,
                },
                _ => return None,
            };
            plan.push((i, f));
        }
        let (t, h) = args[3].as_tagged()?;
        if t != "hist" {
            return None;
        }
        let mut hist = Vec::new();
        for e in h {
            let (t, a) = e.as_tagged()?;
            let bufs = |s: &Sexp, tag: &str| -> Option<Vec<Vec<u8>>> {
                let (t, l) = s.as_tagged()?;
                if t != tag {
                    return None;
                }
                l.iter().map(|x| x.as_bytes()).collect()
            };
            let id = |s: &Sexp| -> Option<u32> { u32::try_from(s.as_u64()?).ok() };
            hist.push(match (t, a.len()) {
                ("b", 4) => Step::Batch { now: Now::parse(&a[0])?, id: id(&a[1])?, pre: bufs(&a[2], "pre")?, ev: bufs(&a[3], "ev")? },
                ("retry", 2) => Step::Retry { now: Now::parse(&a[0])?, id: id(&a[1])? },
                ("restart", 0) => Step::Restart,
                _ => return None,
            });
        }
        Some(Case { cfg, dir, plan, hist })
    }
}

// ------------------------------------------------------------------------------------------------ filesystem

#[derive(Clone, Debug, PartialEq, Eq, Default)]
pub struct FileData {
    pub synced: Vec<u8>,
    pub unsynced: Vec<u8>,
    pub durable: bool,
}

impl FileData {
    pub fn content(&self) -> Vec<u8> {
        let mut c = self.synced.clone();
        c.extend_from_slice(&self.unsynced);
        c
    }
}

#[derive(Clone, Debug, PartialEq, Eq)]
pub enum Ev {
    Created(String),
    Deleted(String),
    Opened(String),
}

#[derive(Default)]
pub struct FsInner {
    pub files: BTreeMap<String, FileData>,
    pub op: u64,
    pub plan: HashMap<u64, Fault>,
    pub log: Vec<Ev>,
    /// set when a crash fault fired; the panic that unwinds the worker carries no other information
    pub crashed: bool,
    /// an interrupting fault (short write that put bytes, crash) has fired
    pub faulted: bool,
    /// a listing or delete call has been failed by the plan
    pub retention_faulted: bool,
    /// a `flush` or `sync_all` call has been failed by the plan (the worker gives such a batch up: `no_retry`)
    pub sync_faulted: bool,
}

#[derive(Clone)]
pub struct Fs(pub Arc<Mutex<FsInner>>);

struct CrashMarker;

/// An injected fault. Its `ErrorKind` rotates through the kinds a real filesystem hands out (the property is "any IO
/// fault": no kind of error may be taken for success, retried in place or treated specially), EXCEPT `Interrupted`,
/// which `std`'s own `write_all` / `read_exact` loops legitimately retry.
fn io_err(what: &str) -> io::Error {
    use std::sync::atomic::{AtomicUsize, Ordering};
    static NEXT: AtomicUsize = AtomicUsize::new(0);
    const KINDS: [io::ErrorKind; 12] = [
        io::ErrorKind::Other,
        io::ErrorKind::Unsupported,
        io::ErrorKind::InvalidInput,
        io::ErrorKind::PermissionDenied,
        io::ErrorKind::NotFound,
        io::ErrorKind::WouldBlock,
        io::ErrorKind::TimedOut,
        io::ErrorKind::WriteZero,
        io::ErrorKind::UnexpectedEof,
        io::ErrorKind::OutOfMemory,
        io::ErrorKind::InvalidData,
        io::ErrorKind::AlreadyExists,
    ];
    io::Error::new(KINDS[NEXT.fetch_add(1, Ordering::Relaxed) % KINDS.len()], what.to_string())
}

fn name_of(path: &Path) -> String {
    path.file_name().and_then(|n| n.to_str()).unwrap_or("").to_string()
}

impl FsInner {
    fn next_fault(&mut self) -> Option<Fault> {
        let f = self.plan.get(&self.op).cloned();
        self.op += 1;
        f
    }

    fn crash(&mut self, lose: &[u64], drop_new: bool) {
        if drop_new {
            self.files.retain(|_, f| f.durable);
        }
        for f in self.files.values_mut() {
            let u = f.unsynced.len() as u64;
            let l = if lose.is_empty() { 0 } else { lose[(u % lose.len() as u64) as usize].min(u) };
            let keep = (u - l) as usize;
            let kept: Vec<u8> = f.unsynced[..keep].to_vec();
            f.synced.extend_from_slice(&kept);
            f.unsynced.clear();
            f.durable = true;
        }
        self.crashed = true;
        self.faulted = true;
    }
}

/// A process-wide gate in front of every filesystem call (stream `c07_pipe`: the harness closes it, lets the worker
/// thread run into it — `ARRIVED` — queues more events behind the batch the worker holds, and opens it again).
pub static GATE_CLOSED: std::sync::atomic::AtomicBool = std::sync::atomic::AtomicBool::new(false);
pub static GATE_ARRIVED: std::sync::atomic::AtomicBool = std::sync::atomic::AtomicBool::new(false);

fn gate() {
    use std::sync::atomic::Ordering::SeqCst;
    while GATE_CLOSED.load(SeqCst) {
        GATE_ARRIVED.store(true, SeqCst);
        std::thread::yield_now();
    }
}

impl Fs {
    /// Consume one operation index; on `ok` run `act`, on a failure return `Err`, on a crash unwind.
    fn simple<T>(&self, act: impl FnOnce(&mut FsInner) -> io::Result<T>) -> io::Result<T> {
        gate();
        let mut g = self.0.lock().unwrap();
        match g.next_fault() {
            None => act(&mut g),
            Some(Fault::Err) | Some(Fault::Short(_)) => Err(io_err("injected")),
            Some(Fault::Crash { lose, drop_new, .. }) => {
                g.crash(&lose, drop_new);
                drop(g);
                std::panic::panic_any(CrashMarker)
            }
        }
    }
}

impl verif::Filesystem for Fs {
    fn create_dir_all(&self, _: &Path) -> io::Result<()> {
        self.simple(|_| Ok(()))
    }

    fn sync_parent(&self, _: &Path) -> io::Result<()> {
        self.simple(|g| {
            for f in g.files.values_mut() {
                f.durable = true;
            }
            Ok(())
        })
    }

    fn read_dir_files(&self, path: &Path) -> io::Result<Vec<PathBuf>> {
        let r = self.simple(|g| Ok(g.files.keys().map(|n| path.join(n)).collect()));
        if r.is_err() {
            self.0.lock().unwrap().retention_faulted = true;
        }
        r
    }

    fn remove_file(&self, path: &Path) -> io::Result<()> {
        let name = name_of(path);
        let r = self.simple(|g| {
            if g.files.remove(&name).is_some() {
                g.log.push(Ev::Deleted(name.clone()));
                Ok(())
            } else {
                Err(io::Error::new(io::ErrorKind::NotFound, "not found"))
            }
        });
        if r.is_err() {
            self.0.lock().unwrap().retention_faulted = true;
        }
        r
    }

    fn open_new(&self, path: &Path) -> io::Result<Box<dyn verif::File + Send + Sync>> {
        let name = name_of(path);
        self.simple(|g| {
            if g.files.contains_key(&name) {
                return Err(io::Error::new(io::ErrorKind::AlreadyExists, "exists"));
            }
            g.files.insert(name.clone(), FileData::default());
            g.log.push(Ev::Created(name.clone()));
            Ok(())
        })?;
        Ok(Box::new(Handle { fs: self.clone(), name, fail_next: false }))
    }

    fn open_existing(&self, path: &Path) -> io::Result<Box<dyn verif::File + Send + Sync>> {
        let name = name_of(path);
        self.simple(|g| {
            if !g.files.contains_key(&name) {
                return Err(io::Error::new(io::ErrorKind::NotFound, "not found"));
            }
            g.log.push(Ev::Opened(name.clone()));
            Ok(())
        })?;
        Ok(Box::new(Handle { fs: self.clone(), name, fail_next: false }))
    }
}

struct Handle {
    fs: Fs,
    name: String,
    /// the previous `write` was cut short by the plan: this one fails without consuming an operation index
    fail_next: bool,
}

impl io::Write for Handle {
    fn write(&mut self, buf: &[u8]) -> io::Result<usize> {
        if self.fail_next {
            self.fail_next = false;
            return Err(io_err("injected after short write"));
        }
        gate();
        let mut g = self.fs.0.lock().unwrap();
        let fault = g.next_fault();
        let name = self.name.clone();
        let mut append = |g: &mut FsInner, bytes: &[u8]| {
            if let Some(f) = g.files.get_mut(&name) {
                f.unsynced.extend_from_slice(bytes);
            }
        };
        match fault {
            None => {
                append(&mut g, buf);
                Ok(buf.len())
            }
            Some(Fault::Err) => Err(io_err("injected")),
            Some(Fault::Short(n)) => {
                let k = (n % buf.len() as u64) as usize;
                if k == 0 {
                    return Err(io_err("injected"));
                }
                append(&mut g, &buf[..k]);
                g.faulted = true;
                self.fail_next = true;
                Ok(k)
            }
            Some(Fault::Crash { w, lose, drop_new }) => {
                let k = (w % (buf.len() as u64 + 1)) as usize;
                append(&mut g, &buf[..k]);
                g.crash(&lose, drop_new);
                drop(g);
                std::panic::panic_any(CrashMarker)
            }
        }
    }

    fn flush(&mut self) -> io::Result<()> {
        let r = self.fs.simple(|_| Ok(()));
        if r.is_err() {
            self.fs.0.lock().unwrap().sync_faulted = true;
        }
        r
    }
}

impl verif::File for Handle {
    fn len(&self) -> io::Result<usize> {
        let name = self.name.clone();
        self.fs.simple(|g| g.files.get(&name).map(|f| f.synced.len() + f.unsynced.len()).ok_or_else(|| io_err("gone")))
    }

    fn sync_all(&mut self) -> io::Result<()> {
        let name = self.name.clone();
        let r = self.fs.simple(|g| {
            if let Some(f) = g.files.get_mut(&name) {
                let u = std::mem::take(&mut f.unsynced);
                f.synced.extend_from_slice(&u);
            }
            Ok(())
        });
        if r.is_err() {
            self.fs.0.lock().unwrap().sync_faulted = true;
        }
        r
    }
}

// ------------------------------------------------------------------------------------------------ clock, ids

/// The scripted clock. The worker reads it ONCE per `on_batch` (period, millisecond counter and the keep-or-roll
/// decision all come from that one reading); every further reading before the script sets the next instant is one
/// millisecond later, so code that reads the clock a second time gets a different answer.
#[derive(Clone)]
struct ScriptClock(Arc<Mutex<emit::Timestamp>>, Arc<std::sync::atomic::AtomicU32>);

impl ScriptClock {
    fn set(&self, ts: emit::Timestamp) {
        *self.0.lock().unwrap() = ts;
        self.1.store(0, std::sync::atomic::Ordering::SeqCst);
    }
}

impl emit::Clock for ScriptClock {
    fn now(&self) -> Option<emit::Timestamp> {
        let base = *self.0.lock().unwrap();
        let k = self.1.fetch_add(1, std::sync::atomic::Ordering::SeqCst);
        let later = emit::Timestamp::from_unix(base.to_unix() + std::time::Duration::from_millis(k as u64));
        Some(later.unwrap_or(base))
    }
}

#[derive(Clone)]
struct ScriptRng(Arc<Mutex<u32>>);

impl emit::Rng for ScriptRng {
    fn fill<A: AsMut<[u8]>>(&self, mut arr: A) -> Option<A> {
        let v = (*self.0.lock().unwrap() as u64).to_le_bytes();
        for (i, b) in arr.as_mut().iter_mut().enumerate() {
            *b = v[i % 8];
        }
        Some(arr)
    }
}

fn intern_sep(sep: &[u8]) -> &'static [u8] {
    static TABLE: Mutex<Option<HashMap<Vec<u8>, &'static [u8]>>> = Mutex::new(None);
    let mut g = TABLE.lock().unwrap();
    let t = g.get_or_insert_with(HashMap::new);
    if let Some(s) = t.get(sep) {
        return s;
    }
    let leaked: &'static [u8] = Box::leak(sep.to_vec().into_boxed_slice());
    t.insert(sep.to_vec(), leaked);
    leaked
}

// ------------------------------------------------------------------------------------------------ reference predicates (oracles)

/// Reference membership, written independently of the crate: `prefix.PERIOD.8digits.8hex.ext`.
pub fn ref_member(prefix: &str, ext: &str, name: &str) -> Option<String> {
    let head = format!("{}.", prefix);
    let tail = format!(".{}", ext);
    if name.len() < head.len() + tail.len() || !name.starts_with(&head) || !name.ends_with(&tail) {
        return None;
    }
    let mid = &name[head.len()..name.len() - tail.len()];
    let fields: Vec<&str> = mid.split('.').collect();
    if fields.len() != 3 {
        return None;
    }
    let digits = |s: &str, n: usize| s.len() == n && s.bytes().all(|b| b.is_ascii_digit());
    let hexd = |s: &str, n: usize| s.len() == n && s.bytes().all(|b| b.is_ascii_digit() || (b'a'..=b'f').contains(&b));
    let ts: Vec<&str> = fields[0].split('-').collect();
    let ts_ok = (3..=5).contains(&ts.len()) && digits(ts[0], 4) && ts[1..].iter().all(|f| digits(f, 2));
    if ts_ok && digits(fields[1], 8) && hexd(fields[2], 8) {
        Some(fields[0].to_string())
    } else {
        None
    }
}

pub fn ref_period(roll_by: verif::RollBy, now: &Now) -> String {
    match roll_by {
        verif::RollBy::Day => format!("{:04}-{:02}-{:02}", now.y, now.mo, now.d),
        verif::RollBy::Hour => format!("{:04}-{:02}-{:02}-{:02}", now.y, now.mo, now.d, now.h),
        verif::RollBy::Minute => format!("{:04}-{:02}-{:02}-{:02}-{:02}", now.y, now.mo, now.d, now.h, now.mi),
    }
}

pub fn ref_name(cfg: &Cfg, now: &Now, id: u32) -> String {
    let ms = (now.ns / 1_000_000) as u64;
    let in_period = match cfg.roll_by {
        verif::RollBy::Day => ((now.h as u64 * 60 + now.mi as u64) * 60 + now.s as u64) * 1000 + ms,
        verif::RollBy::Hour => (now.mi as u64 * 60 + now.s as u64) * 1000 + ms,
        verif::RollBy::Minute => now.s as u64 * 1000 + ms,
    };
    format!("{}.{}.{:08}.{:08x}.{}", cfg.prefix, ref_period(cfg.roll_by, now), in_period, id, cfg.ext)
}

/// Events obey the hypotheses of the C10 theorems: single-byte separator, every event ends with it and
/// contains it nowhere else.
pub fn wellformed(case: &Case) -> bool {
    if case.cfg.sep.len() != 1 {
        return false;
    }
    let sep = case.cfg.sep[0];
    case.hist.iter().all(|s| match s {
        Step::Batch { ev, .. } => ev.iter().all(|e| e.last() == Some(&sep) && !e[..e.len() - 1].contains(&sep)),
        _ => true,
    })
}

fn records(content: &[u8], sep: u8) -> Vec<&[u8]> {
    content.split(|b| *b == sep).collect()
}

// ------------------------------------------------------------------------------------------------ runner

pub struct Outcome {
    pub line: String,
    pub fails: Vec<String>,
    pub ops: u64,
    /// operation index at the start of each step (for generators that aim faults)
    pub step_ops: Vec<u64>,
}

fn show_file(f: &FileData) -> String {
    format!("{}/{}/{}", hex_atom(&f.synced), hex_atom(&f.unsynced), if f.durable { "d" } else { "n" })
}

fn show_delta(old: &BTreeMap<String, FileData>, new: &BTreeMap<String, FileData>) -> String {
    let names: BTreeSet<&String> = old.keys().chain(new.keys()).collect();
    let mut parts = Vec::new();
    for n in names {
        match (old.get(n), new.get(n)) {
            (Some(f), Some(g)) if f == g => {}
            (_, Some(g)) => parts.push(format!("{}={}", hex_atom(n.as_bytes()), show_file(g))),
            (Some(_), None) => parts.push(format!("{}=-", hex_atom(n.as_bytes()))),
            (None, None) => {}
        }
    }
    parts.join(",")
}

struct Acked {
    file: String,
    events: Vec<Vec<u8>>,
}

pub fn run_case(case: &Case) -> Option<Outcome> {
    let cfg = &case.cfg;
    // every clock reading must be a real calendar date
    for s in &case.hist {
        match s {
            Step::Batch { now, .. } | Step::Retry { now, .. } => {
                now.timestamp()?;
            }
            Step::Restart => {}
        }
    }
    let mut inner = FsInner::default();
    for (n, c) in &case.dir {
        if inner.files.insert(n.clone(), FileData { synced: c.clone(), unsynced: vec![], durable: true }).is_some() {
            return None;
        }
    }
    for (i, f) in &case.plan {
        inner.plan.entry(*i).or_insert_with(|| f.clone());
    }
    let fs = Fs(Arc::new(Mutex::new(inner)));
    let clock = ScriptClock(Arc::new(Mutex::new(emit::Timestamp::MIN)), Arc::new(std::sync::atomic::AtomicU32::new(0)));
    let ids = ScriptRng(Arc::new(Mutex::new(0)));
    let sep = intern_sep(&cfg.sep);
    let new_worker = || {
        verif::Worker::new(
            fs.clone(),
            clock.clone(),
            ids.clone(),
            DIR.to_string(),
            cfg.prefix.clone(),
            cfg.ext.clone(),
            cfg.roll_by,
            cfg.reuse,
            cfg.max_files,
            cfg.max_size,
            sep,
        )
    };
    let mut worker = new_worker();
    let mut pending: Option<verif::EventBatch> = None;
    let mut outs: Vec<String> = Vec::new();
    let mut fails: Vec<String> = Vec::new();
    let mut step_ops = Vec::new();
    let mut fail = |fails: &mut Vec<String>, what: &str| {
        if !fails.iter().any(|f| f == what) {
            fails.push(what.to_string());
        }
    };

    // oracle state
    let wf = wellformed(case);
    let sep1 = cfg.sep.first().copied().unwrap_or(b'\n');
    let mut submitted: BTreeSet<Vec<u8>> = BTreeSet::new(); // event bodies (without the separator)
    let legacy: BTreeMap<String, BTreeSet<Vec<u8>>> = case
        .dir
        .iter()
        .map(|(n, c)| (n.clone(), records(c, sep1).into_iter().map(|r| r.to_vec()).collect()))
        .collect();
    let mut acked: Vec<Acked> = Vec::new();
    // events written in full by an attempt that then failed (they are NOT part of the remainder handed back for the
    // retry): (files that attempt changed, event bodies), per attempt of the batch now being retried …
    let mut chain_prefix: Vec<(Vec<String>, Vec<Vec<u8>>)> = Vec::new();
    // … and, once a later attempt of the same batch reported Ok, owed to synced content like any acknowledged event
    let mut acked_chain: Vec<(Vec<String>, Vec<Vec<u8>>)> = Vec::new();
    let mut worker_deleted: BTreeSet<String> = BTreeSet::new();
    let own_count = |files: &BTreeMap<String, FileData>| files.keys().filter(|n| ref_member(&cfg.prefix, &cfg.ext, n).is_some()).count();
    // the file the worker holds, as far as the outside can tell: the file of the last successful batch
    let mut active_name: Option<String> = None;
    let mut creation_order: Vec<String> = Vec::new();
    let mut clock_monotone = true;
    let mut last_now: Option<Now> = None;

    for step in &case.hist {
        match step {
            Step::Batch { now, .. } | Step::Retry { now, .. } => {
                if last_now.map_or(false, |l| *now < l) {
                    clock_monotone = false;
                }
                last_now = Some(*now);
            }
            Step::Restart => {}
        }
        let (before, log_before, op_before) = {
            let g = fs.0.lock().unwrap();
            (g.files.clone(), g.log.len(), g.op)
        };
        step_ops.push(op_before);
        let had_active = worker.has_active_file();
        let mut submitted_now: Option<(Vec<Vec<u8>>, Now, u32)> = None;
        let mut written_before_failure: usize = 0;
        if !matches!(step, Step::Retry { .. }) {
            chain_prefix.clear();
        }
        let res: String = match step {
            Step::Restart => {
                drop(worker);
                worker = new_worker();
                pending = None;
                active_name = None;
                "restart".to_string()
            }
            Step::Batch { .. } | Step::Retry { .. } => {
                let (now, id, batch) = match step {
                    Step::Batch { now, id, pre, ev } => {
                        let mut b = verif::EventBatch::new();
                        for e in pre {
                            b.push(e.clone());
                        }
                        if !pre.is_empty() {
                            b.clear();
                        }
                        for e in ev {
                            b.push(e.clone());
                        }
                        // `clear` (the overflow truncation of emit_batcher's `Sender::send`) DISCARDS what was queued: the
                        // batch holds the newer events only, from its start (C09: nothing of the older queue is kept)
                        if b.index() != 0 || b.total_bufs() != ev.len() || b.len() != ev.len() {
                            fail(&mut fails, "clear-keeps-discarded-events");
                        }
                        pending = None;
                        (now, id, Some(b))
                    }
                    Step::Retry { now, id } => (now, id, pending.take()),
                    Step::Restart => unreachable!(),
                };
                match batch {
                    None => "none".to_string(),
                    Some(batch) => {
                        clock.set(now.timestamp()?);
                        *ids.0.lock().unwrap() = *id;
                        let events = batch.remaining_bufs();
                        let base = batch.index();
                        submitted_now = Some((events.clone(), *now, *id));
                        for e in &events {
                            if wf {
                                submitted.insert(e[..e.len() - 1].to_vec());
                            }
                        }
                        let r = hcommon::catch(|| worker.on_batch(batch));
                        match r {
                            Some(Ok(())) => "ok".to_string(),
                            Some(Err(Some(b))) => {
                                let s = format!("retry:{}:{}:{}", b.index(), b.total_bufs(), b.remaining_bytes());
                                // oracle: the remainder starts at the event whose write failed
                                let rest = b.remaining_bufs();
                                let k = b.index().wrapping_sub(base);
                                if k > events.len() || rest[..] != events[k.min(events.len())..] {
                                    fail(&mut fails, "retry-remainder");
                                }
                                written_before_failure = k.min(events.len());
                                pending = Some(b);
                                s
                            }
                            Some(Err(None)) => "noretry".to_string(),
                            None => {
                                let crashed = std::mem::replace(&mut fs.0.lock().unwrap().crashed, false);
                                worker = new_worker();
                                pending = None;
                                chain_prefix.clear();
                                if crashed {
                                    "crash".to_string()
                                } else {
                                    fail(&mut fails, "panic");
                                    "panic".to_string()
                                }
                            }
                        }
                    }
                }
            }
        };
        let (after, log, faulted, retention_faulted) = {
            let g = fs.0.lock().unwrap();
            (g.files.clone(), g.log[log_before..].to_vec(), g.faulted, g.retention_faulted)
        };
        let a = if worker.has_active_file() { "1" } else { "0" };
        let logs: Vec<String> = log
            .iter()
            .map(|e| match e {
                Ev::Created(n) => format!("c={}", hex_atom(n.as_bytes())),
                Ev::Deleted(n) => format!("d={}", hex_atom(n.as_bytes())),
                Ev::Opened(n) => format!("o={}", hex_atom(n.as_bytes())),
            })
            .collect();
        outs.push(format!("{}@{}[{}]{{{}}}", res, a, logs.join(","), show_delta(&before, &after)));

        // ---------------------------------------------------------------- oracles (the properties on the real outputs alone)
        let created: Vec<&String> = log.iter().filter_map(|e| if let Ev::Created(n) = e { Some(n) } else { None }).collect();
        let deleted: Vec<&String> = log.iter().filter_map(|e| if let Ev::Deleted(n) = e { Some(n) } else { None }).collect();
        let opened: Vec<&String> = log.iter().filter_map(|e| if let Ev::Opened(n) = e { Some(n) } else { None }).collect();
        for d in &deleted {
            worker_deleted.insert((*d).clone());
        }
        for c in &created {
            creation_order.push((*c).clone());
        }
        // C11 own set only: whatever is opened for append, deleted or created is a member
        for n in opened.iter().chain(deleted.iter()).chain(created.iter()) {
            if ref_member(&cfg.prefix, &cfg.ext, n).is_none() {
                fail(&mut fails, "own-set");
            }
        }
        // foreign files are never changed
        for (n, f) in &before {
            if ref_member(&cfg.prefix, &cfg.ext, n).is_none() && after.get(n) != Some(f) && res != "crash" {
                fail(&mut fails, "own-set");
            }
        }
        if let Some((events, now, id)) = &submitted_now {
            // C11 name shape
            for n in &created {
                if **n != ref_name(cfg, now, *id) {
                    fail(&mut fails, "name");
                }
            }
            if created.len() > 1 {
                fail(&mut fails, "one-file");
            }
            let changed: Vec<&String> = after
                .iter()
                .filter(|(n, f)| before.get(*n).map(|g| g.content()) != Some(f.content()) && !(before.get(*n).is_none() && f.content().is_empty()))
                .map(|(n, _)| n)
                .collect();
            if written_before_failure > 0 && wf {
                chain_prefix.push((
                    changed.iter().map(|n| (*n).clone()).collect(),
                    events[..written_before_failure].iter().map(|e| e[..e.len() - 1].to_vec()).collect(),
                ));
            }
            if res == "ok" {
                // C07 / C10: the batch is now done for the channel (its flush callbacks fire), so the events an earlier,
                // failed attempt wrote in full and did not hand back are owed to synced content as well
                acked_chain.append(&mut chain_prefix);
            } else if res == "noretry" {
                chain_prefix.clear();
            }
            if res == "ok" {
                // C11 one file at a time
                if changed.len() > 1 {
                    fail(&mut fails, "one-file");
                }
                let target: Option<String> = changed.first().map(|n| (*n).clone()).or_else(|| created.first().map(|n| (*n).clone())).or_else(|| opened.first().map(|n| (*n).clone())).or(active_name.clone());
                // C11 retention
                // (a set that starts above the limit and is reused is only pruned at its next roll: known finding
                // `reuse-oversize`; generated directories start within the limit)
                if cfg.max_files >= 1 && !retention_faulted && own_count(&after) > cfg.max_files {
                    fail(&mut fails, "retention");
                }
                for d in &deleted {
                    for n in after.keys() {
                        if !retention_faulted && ref_member(&cfg.prefix, &cfg.ext, n).is_some() && !created.contains(&n) && n < *d {
                            fail(&mut fails, "retention-order");
                        }
                        // oldest deleted first: while the clock has not gone backwards no surviving file of this
                        // run was created before a deleted one (F1: same-millisecond creations are ordered by id)
                        if !retention_faulted && clock_monotone {
                            if let (Some(i), Some(j)) = (creation_order.iter().position(|c| c == *d), creation_order.iter().position(|c| c == n)) {
                                if j < i {
                                    fail(&mut fails, "retention-oldest");
                                }
                            }
                        }
                    }
                }
                // C11 roll iff
                if had_active && !events.is_empty() {
                    if let Some(prev) = &active_name {
                        let bytes: usize = events.iter().map(|e| e.len()).sum();
                        let size = before.get(prev).map(|f| f.content().len()).unwrap_or(0);
                        let same_period = ref_member(&cfg.prefix, &cfg.ext, prev).as_deref() == Some(&ref_period(cfg.roll_by, now));
                        let must_roll = !(size + bytes <= cfg.max_size && same_period);
                        if must_roll != !created.is_empty() {
                            fail(&mut fails, "roll");
                        }
                        if !must_roll && target.as_ref() != Some(prev) {
                            fail(&mut fails, "roll");
                        }
                    }
                }
                // C10 acked durable
                if wf {
                    match &target {
                        Some(t) if !events.is_empty() => {
                            acked.push(Acked { file: t.clone(), events: events.iter().map(|e| e[..e.len() - 1].to_vec()).collect() });
                        }
                        _ => {}
                    }
                }
                active_name = target;
            } else {
                active_name = None;
            }
        }
        if wf {
            // C10 every record is a complete event, empty, or a strict prefix of one event
            for (n, f) in &after {
                if ref_member(&cfg.prefix, &cfg.ext, n).is_none() {
                    continue;
                }
                let content = f.content();
                let recs = records(&content, sep1);
                let last = recs.len() - 1;
                for (i, r) in recs.iter().enumerate() {
                    if r.is_empty() || (i < last && submitted.contains(*r)) {
                        continue;
                    }
                    if legacy.get(n).map_or(false, |l| l.contains(*r)) {
                        continue;
                    }
                    let is_prefix = submitted.iter().any(|e| e.len() > r.len() && e.starts_with(r));
                    if is_prefix && faulted {
                        continue;
                    }
                    // the last piece may also be a complete body whose separator was cut off
                    if i == last && faulted && submitted.contains(*r) {
                        continue;
                    }
                    fail(&mut fails, "records");
                }
            }
            // C10 acknowledged events stay in synced content of a durable file
            for a in &acked {
                if worker_deleted.contains(&a.file) {
                    continue;
                }
                match after.get(&a.file) {
                    Some(f) if f.durable => {
                        let recs = records(&f.synced, sep1);
                        let complete: BTreeSet<&[u8]> = recs[..recs.len() - 1].iter().copied().collect();
                        if !a.events.iter().all(|e| complete.contains(&e[..])) {
                            fail(&mut fails, "acked");
                        }
                    }
                    _ => fail(&mut fails, "acked"),
                }
            }
            for (files, events) in &acked_chain {
                if files.iter().any(|f| worker_deleted.contains(f)) {
                    continue;
                }
                let ok = events.iter().all(|e| {
                    files.iter().any(|n| match after.get(n) {
                        Some(f) if f.durable => {
                            let recs = records(&f.synced, sep1);
                            recs[..recs.len() - 1].iter().any(|r| *r == &e[..])
                        }
                        _ => false,
                    })
                });
                if !ok {
                    fail(&mut fails, "acked-prefix-of-retried-batch");
                }
            }
        }
    }
    let ops = fs.0.lock().unwrap().op;
    Some(Outcome { line: outs.join(";"), fails, ops, step_ops })
}

pub fn run(line: &str) -> String {
    let case = match Case::parse(line) {
        Some(c) => c,
        None => return "bad-case".to_string(),
    };
    match run_case(&case) {
        None => "bad-case".to_string(),
        Some(o) => {
            if o.fails.is_empty() {
                o.line
            } else {
                format!("{}\tFAIL:{}", o.line, o.fails.join(","))
            }
        }
    }
}

// ------------------------------------------------------------------------------------------------ generators

pub fn gen_payload(rng: &mut Rng, sep: &[u8], max: u64) -> Vec<u8> {
    let n = match rng.below(10) {
        0 => 0,
        1 => 1,
        2 => max,
        _ => rng.range(0, max),
    };
    let alphabet = b"abcdefgh{}\":,01 ";
    let mut v = Vec::new();
    while (v.len() as u64) < n {
        let b = *rng.pick(alphabet);
        if sep.len() == 1 && b == sep[0] {
            continue;
        }
        v.push(b);
    }
    v
}

pub fn gen_event(rng: &mut Rng, sep: &[u8], illformed: bool) -> Vec<u8> {
    let mut e = gen_payload(rng, sep, 40);
    if illformed {
        match rng.below(3) {
            0 => return e, // no trailing separator
            1 => {
                let at = rng.usize(e.len() + 1);
                for (i, b) in sep.iter().enumerate() {
                    e.insert(at + i, *b);
                }
            }
            _ => e.extend_from_slice(sep),
        }
    }
    e.extend_from_slice(sep);
    e
}

/// Advance (or set back) a clock reading. `kind`: 0 same instant, 1 a few ms, 2 seconds, 3 past the next period
/// boundary, 4 exactly onto a period boundary, 5 backwards a little, 6 backwards across a period, 7 far ahead.
pub fn advance(rng: &mut Rng, roll_by: verif::RollBy, now: Now, kind: u64) -> Now {
    use std::time::Duration;
    let ts = now.timestamp().expect("valid reading");
    let period_ms: u64 = match roll_by {
        verif::RollBy::Day => 86_400_000,
        verif::RollBy::Hour => 3_600_000,
        verif::RollBy::Minute => 60_000,
    };
    let unix_ms = ts.to_unix().as_millis() as u64;
    let into = unix_ms % period_ms;
    let fwd = |ms: u64| ts.checked_add(Duration::from_millis(ms)).unwrap_or(ts);
    let back = |ms: u64| ts.checked_sub(Duration::from_millis(ms)).unwrap_or(ts);
    let t = match kind {
        0 => ts,
        1 => fwd(rng.range(1, 20)),
        2 => fwd(rng.range(1000, 50_000)),
        3 => fwd(period_ms - into + rng.range(0, 5000)),
        4 => fwd(period_ms - into),
        5 => back(rng.range(1, 3000)),
        6 => back(into + rng.range(1, 5000)),
        _ => fwd(rng.range(1, 400) * period_ms + rng.range(0, period_ms - 1)),
    };
    Now::from_timestamp(t)
}

pub fn gen_start(rng: &mut Rng) -> Now {
    let fixed = [
        Now { y: 1970, mo: 1, d: 1, h: 0, mi: 0, s: 0, ns: 0 },
        Now { y: 2024, mo: 2, d: 29, h: 23, mi: 59, s: 59, ns: 999_000_000 },
        Now { y: 1999, mo: 12, d: 31, h: 23, mi: 59, s: 58, ns: 500_000_000 },
        Now { y: 9999, mo: 12, d: 31, h: 23, mi: 30, s: 0, ns: 0 },
        Now { y: 2026, mo: 9, d: 26, h: 9, mi: 59, s: 59, ns: 123_456_789 },
    ];
    if rng.chance(1, 3) {
        return *rng.pick(&fixed);
    }
    Now {
        y: rng.range(1970, 2100) as u16,
        mo: rng.range(1, 12) as u8,
        d: rng.range(1, 28) as u8,
        h: rng.range(0, 23) as u8,
        mi: rng.range(0, 59) as u8,
        s: rng.range(0, 59) as u8,
        ns: rng.range(0, 999) as u32 * 1_000_000 + if rng.bool() { rng.range(0, 999_999) as u32 } else { 0 },
    }
}

pub fn gen_fault(rng: &mut Rng) -> Fault {
    match rng.below(5) {
        0 | 1 => Fault::Err,
        2 => Fault::Short(rng.range(0, 45)),
        _ => Fault::Crash {
            w: rng.range(0, 45),
            drop_new: rng.bool(),
            lose: (0..rng.range(0, 3)).map(|_| *rng.pick(&[0u64, 1, 2, 3, 5, 8, 13, 40, 1000])).collect(),
        },
    }
}

/// A C10 history: fixed plain configuration family, emphasis on faults.
pub fn gen_history_c10(rng: &mut Rng, tier: Tier) -> Case {
    let sep: Vec<u8> = match rng.below(12) {
        0 => vec![0],
        1 => vec![b';'],
        2 => vec![b'\r', b'\n'],
        _ => vec![b'\n'],
    };
    let reuse = rng.bool();
    let roll_by = *rng.pick(&[verif::RollBy::Day, verif::RollBy::Hour, verif::RollBy::Minute]);
    let max_batches = if tier == Tier::Thorough { 8 } else { 6 };
    let nb = rng.range(1, max_batches);
    let cfg = Cfg {
        prefix: "app".to_string(),
        ext: "log".to_string(),
        roll_by,
        reuse,
        max_files: *rng.pick(&[1usize, 2, 3, 5, 10]),
        max_size: *rng.pick(&[30usize, 60, 100, 200, 1 << 20]),
        sep: sep.clone(),
    };
    let illformed_case = rng.chance(1, 15);
    let mut now = gen_start(rng);
    let mut hist = Vec::new();
    let mut dir = Vec::new();
    // collision mode (one history in five): the clock mostly stands still and the id source repeats one id, so
    // after a failure or a restart the name to be created is that of an existing member (exclusive create must
    // fail; the file, possibly ending in a torn record, must not be appended to as if it were new)
    let collide = rng.chance(1, 5);
    let cid = rng.next() as u32;
    // sometimes a file left by an earlier run, possibly ending in a torn record
    if rng.chance(1, 4) || (collide && rng.bool()) {
        let mut content = Vec::new();
        for _ in 0..rng.range(0, 3) {
            content.extend(gen_event(rng, &sep, false));
        }
        if rng.bool() {
            content.extend(gen_payload(rng, &sep, 10));
        }
        let id = if collide { cid } else { rng.next() as u32 };
        dir.push((ref_name(&cfg, &now, id), content));
    }
    for i in 0..nb {
        let kind = if collide {
            if i == 0 || rng.chance(3, 4) { 0 } else { *rng.pick(&[1u64, 2, 3]) }
        } else {
            *rng.pick(&[0u64, 0, 1, 1, 2, 2, 3, 4, 5, 6])
        };
        now = advance(rng, roll_by, now, kind);
        let lo = if rng.chance(1, 12) { 0 } else { 1 };
        let nev = rng.range(lo, 4);
        let mut ev: Vec<Vec<u8>> = Vec::new();
        for _ in 0..nev {
            let ill = illformed_case && rng.chance(1, 3);
            ev.push(gen_event(rng, &sep, ill));
        }
        let id_mod = if rng.chance(1, 6) { 2 } else { u32::MAX };
        let id = if collide && rng.chance(4, 5) { cid } else { rng.next() as u32 % id_mod };
        // one batch in eight is built the way an overflowing `Sender::send` leaves it: older events pushed, cleared away
        let pre: Vec<Vec<u8>> = if rng.chance(1, 8) { (0..rng.range(1, 2)).map(|_| gen_event(&mut rng.fork(), &sep, false)).collect() } else { vec![] };
        hist.push(Step::Batch { now, id, pre, ev });
        for _ in 0..rng.below(3) {
            if rng.chance(1, 3) && !(collide && rng.chance(3, 4)) {
                let kind = *rng.pick(&[1u64, 2, 3]);
                now = advance(rng, roll_by, now, kind);
            }
            let id = if collide && rng.chance(4, 5) { cid } else { rng.next() as u32 };
            hist.push(Step::Retry { now, id });
        }
        if rng.chance(1, 6) || (collide && rng.chance(1, 3)) {
            hist.push(Step::Restart);
        }
    }
    Case { cfg, dir, plan: vec![], hist }
}

/// Two files created within one millisecond of one period are ordered by the random id only (finding F1):
/// such histories are kept out of the generated cases explicitly; the reproducer lives in the corpus.
pub fn same_ms_creations(line: &str) -> bool {
    let mut stems: Vec<String> = Vec::new();
    for step in line.split(';') {
        if let (Some(a), Some(b)) = (step.find('['), step.find(']')) {
            for ev in step[a + 1..b].split(',') {
                if let Some(h) = ev.strip_prefix("c=") {
                    if let Some(bytes) = hcommon::unhex_atom(h) {
                        let name = String::from_utf8_lossy(&bytes).to_string();
                        // drop `.id.ext`
                        let mut it = name.rsplitn(3, '.');
                        it.next();
                        it.next();
                        let stem = it.next().unwrap_or("").to_string();
                        if stems.contains(&stem) {
                            return true;
                        }
                        stems.push(stem);
                    }
                }
            }
        }
    }
    false
}

fn gen_c10(rng: &mut Rng, tier: Tier, n: usize) -> Vec<String> {
    let mut out = Vec::new();
    while out.len() < n {
        let mut case = gen_history_c10(rng, tier);
        let ops = run_case(&case).map(|o| o.ops).unwrap_or(20);
        if tier == Tier::Thorough && rng.chance(1, 2) {
            // exhaustive: every operation index × every fault kind × a grid of lost-suffix lengths
            if run_case(&case).map_or(true, |o| same_ms_creations(&o.line)) {
                continue;
            }
            out.push(case.line());
            for i in 0..ops {
                let mut faults = vec![Fault::Err];
                for k in [1u64, 2, 7, 20] {
                    faults.push(Fault::Short(k));
                }
                for w in [0u64, 1, 9, 1000] {
                    for lose in [vec![], vec![1], vec![3], vec![1000], vec![2, 0, 5]] {
                        for drop_new in [false, true] {
                            faults.push(Fault::Crash { w, drop_new, lose: lose.clone() });
                        }
                    }
                }
                for f in faults {
                    case.plan = vec![(i, f)];
                    // a second, random fault later on in a third of the cases
                    if rng.chance(1, 3) {
                        case.plan.push((i + rng.range(1, 12), gen_fault(rng)));
                    }
                    if run_case(&case).map_or(true, |o| same_ms_creations(&o.line)) {
                        continue;
                    }
                    out.push(case.line());
                }
            }
        } else {
            let nf = rng.below(4);
            let mut plan: Vec<(u64, Fault)> = Vec::new();
            for _ in 0..nf {
                let i = rng.below(ops + 4);
                if !plan.iter().any(|(j, _)| *j == i) {
                    plan.push((i, gen_fault(rng)));
                }
            }
            plan.sort_by_key(|(i, _)| *i);
            case.plan = plan;
            if run_case(&case).map_or(true, |o| same_ms_creations(&o.line)) {
                continue;
            }
            out.push(case.line());
        }
    }
    out
}

pub fn streams() -> Vec<Stream> {
    vec![Stream { name: "c10", gen: gen_c10, run }]
}
