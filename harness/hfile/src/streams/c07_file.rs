//! C07 carried through to the rolling-file emitter: when `blocking_flush` returns `true` on a real
//! `emit_file::FileSet`, every event whose `emit` returned before the flush was requested is in a file on disk —
//! for one flusher, for a flush after a timed-out flush, and for several threads flushing concurrently.
//! Case: (c07f THREADS EVENTS ROUNDS)  — see lean/EmitModel/Driver/E2E.lean (stream `c07_file`).
//! The compared line is what flush soundness fixes for every schedule: `missing=0`.

use hcommon::{Rng, Sexp, Stream, Tier};
use std::sync::atomic::{AtomicUsize, Ordering};
use std::sync::{Arc, Barrier};
use std::time::Duration;

pub fn streams() -> Vec<Stream> {
    vec![Stream { name: "c07_file", gen, run }]
}

static COUNTER: AtomicUsize = AtomicUsize::new(0);

fn temp_dir() -> std::path::PathBuf {
    let n = COUNTER.fetch_add(1, Ordering::Relaxed);
    let base = if std::path::Path::new("/dev/shm").is_dir() { std::path::PathBuf::from("/dev/shm") } else { std::env::temp_dir() };
    base.join(format!("hfile-c07-{}-{}", std::process::id(), n))
}

fn on_disk(dir: &std::path::Path) -> String {
    let mut out = String::new();
    if let Ok(rd) = std::fs::read_dir(dir) {
        for e in rd.filter_map(|e| e.ok()) {
            out.push_str(&String::from_utf8_lossy(&std::fs::read(e.path()).unwrap_or_default()));
        }
    }
    out
}

fn run(line: &str) -> String {
    (|| -> Option<String> {
        let s = Sexp::parse(line)?;
        let (tag, a) = s.as_tagged()?;
        if tag != "c07f" || a.len() != 3 {
            return None;
        }
        let (threads, events, rounds) = (a[0].as_usize()?, a[1].as_usize()?, a[2].as_usize()?);
        if threads == 0 || threads > 8 || events > 5000 || rounds == 0 || rounds > 10 {
            return None;
        }
        let dir = temp_dir();
        let files = Arc::new(emit_file::set(dir.join("app.log")).spawn());
        let missing = Arc::new(AtomicUsize::new(0));
        let unflushed = Arc::new(AtomicUsize::new(0));
        let barrier = Arc::new(Barrier::new(threads));
        let mut hs = Vec::new();
        for t in 0..threads {
            let (files, missing, unflushed, barrier, dir) = (files.clone(), missing.clone(), unflushed.clone(), barrier.clone(), dir.clone());
            hs.push(std::thread::spawn(move || {
                for r in 0..rounds {
                    barrier.wait();
                    let mut markers = Vec::new();
                    for i in 0..events {
                        let marker = format!("t{}r{}e{}x", t, r, i);
                        let evt = emit::Event::new(emit::Path::new_raw("c07f"), emit::Template::literal("e"), emit::Empty, ("marker", marker.as_str()));
                        emit::Emitter::emit(&*files, evt);
                        markers.push(marker);
                    }
                    // in odd rounds a zero-timeout flush first (it may legitimately report false), then the real one;
                    // in even rounds the real flushes of all threads start together
                    if r % 2 == 1 {
                        let _ = emit::Emitter::blocking_flush(&*files, Duration::ZERO);
                    } else {
                        // everybody has finished emitting before anybody flushes
                        barrier.wait();
                    }
                    if emit::Emitter::blocking_flush(&*files, Duration::from_secs(30)) {
                        let content = on_disk(&dir);
                        let n = markers.iter().filter(|m| !content.contains(m.as_str())).count();
                        missing.fetch_add(n, Ordering::SeqCst);
                    } else {
                        unflushed.fetch_add(1, Ordering::SeqCst);
                    }
                }
            }));
        }
        for h in hs {
            h.join().ok()?;
        }
        drop(files);
        let _ = std::fs::remove_dir_all(&dir);
        let m = missing.load(Ordering::SeqCst);
        let u = unflushed.load(Ordering::SeqCst);
        let out = format!("missing=0 unflushed={}", u);
        Some(if m == 0 { out } else { format!("{}\tFAIL:flush-returned-true-with-{}-events-not-on-disk", out, m) })
    })()
    .unwrap_or_else(|| "bad-case".into())
}

fn gen(rng: &mut Rng, tier: Tier, _n: usize) -> Vec<String> {
    let mut out = vec!["(c07f 1 1 1)".to_string(), "(c07f 1 50 3)".to_string(), "(c07f 2 200 3)".to_string(), "(c07f 4 500 3)".to_string()];
    let extra = if tier == Tier::Thorough { 30 } else { 6 };
    for _ in 0..extra {
        out.push(format!("(c07f {} {} {})", 2 + rng.usize(5), 50 + rng.usize(1500), 1 + rng.usize(4)));
    }
    out
}
