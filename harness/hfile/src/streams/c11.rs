//! C11: rolling, retention, naming and staying inside the own set — the same runner as C10 (`super::c10`), driven
//! with varied configurations, clock trajectories and shared directories; plus the name formatter and the
//! membership parse on their own.

use super::c10::*;
use emit_file::verif;
use hcommon::{Rng, Sexp, Stream, Tier};

const PREFIXES: &[&str] = &["app", "my.app", "a", "app2", "log", "app.web", "\u{fc}n\u{ef}", "app.2024-01-01", "x.y.z", "syslog", "catalog", "l"];
const EXTS: &[&str] = &["log", "txt", "gz", "log2", "l", "\u{e9}"];

fn gen_cfg(rng: &mut Rng) -> Cfg {
    Cfg {
        prefix: if rng.chance(1, 2) { "app".to_string() } else { rng.pick(PREFIXES).to_string() },
        ext: if rng.chance(1, 2) { "log".to_string() } else { rng.pick(EXTS).to_string() },
        roll_by: *rng.pick(&[verif::RollBy::Day, verif::RollBy::Hour, verif::RollBy::Minute]),
        reuse: rng.bool(),
        // (one configuration in sixteen: "never delete" as `usize::MAX`, or half of it)
        max_files: if rng.chance(1, 16) { *rng.pick(&[usize::MAX, usize::MAX / 2]) } else { *rng.pick(&[1usize, 1, 2, 2, 3, 4, 5]) },
        max_size: *rng.pick(&[20usize, 40, 60, 90, 150, 1 << 20]),
        sep: vec![b'\n'],
    }
}

/// Names that share the directory: siblings whose prefix extends / is extended by ours, other extensions,
/// near-misses of our own shape, and plain foreign files.
fn foreign_names(rng: &mut Rng, cfg: &Cfg, now: &Now) -> Vec<String> {
    let p = &cfg.prefix;
    let e = &cfg.ext;
    let own = |prefix: &str, ext: &str, rng: &mut Rng| {
        let c = Cfg { prefix: prefix.to_string(), ext: ext.to_string(), ..cfg.clone() };
        ref_name(&c, now, rng.next() as u32)
    };
    let mut shorter = p.clone();
    shorter.pop();
    let period = ref_period(cfg.roll_by, now);
    let mut all = vec![
        own(&format!("{}2", p), e, rng),
        own(&format!("{}.web", p), e, rng),
        own(&format!("{}-old", p), e, rng),
        own(p, &format!("{}2", e), rng),
        own(p, &format!("x{}", e), rng),
        own(p, &format!("{}.gz", e), rng),
        format!("{}.{}", p, e),
        format!("{}.", p),
        format!("{}..{}", p, e),
        format!("{}.{}.0000000.00000000.{}", p, period, e),
        format!("{}.{}.00000000.0000000G.{}", p, period, e),
        format!("{}.{}.00000000.0000000A.{}", p, period, e),
        format!("{}.{}.00000000.00000000.1.{}", p, period, e),
        format!("{}.{}.00000000.{}", p, period, e),
        format!("{}.{}x.00000000.00000000.{}", p, period, e),
        format!("{}.2024-1-01.00000000.00000000.{}", p, e),
        format!("{}.2024-01-01-00-00-00.00000000.00000000.{}", p, e),
        format!("{}{}.00000000.00000000.{}", p, period, e),
        "readme.md".to_string(),
        "zzz".to_string(),
        "0".to_string(),
    ];
    if !shorter.is_empty() {
        all.push(own(&shorter, e, rng));
    }
    // names in which the prefix and the extension overlap: they start with the prefix and end with the extension but
    // are shorter than the two together (`syslog` next to the set `syslog.log`)
    for k in 1..=e.len().min(p.len()) {
        if e.is_char_boundary(k) && p.ends_with(&e[..k]) {
            all.push(format!("{}{}", p, &e[k..]));
            all.push(format!("{}{}", p, &e[k..]));
        }
    }
    let k = rng.range(0, 4) as usize;
    let mut out: Vec<String> = Vec::new();
    for _ in 0..k {
        let n = rng.pick(&all).clone();
        if !n.is_empty() && !n.contains('/') && n != "." && n != ".." && !out.contains(&n) {
            out.push(n);
        }
    }
    out
}

fn gen_history_c11(rng: &mut Rng, tier: Tier) -> Case {
    let cfg = gen_cfg(rng);
    let sep = cfg.sep.clone();
    let mut now = gen_start(rng);
    let mut dir: Vec<(String, Vec<u8>)> = Vec::new();
    for n in foreign_names(rng, &cfg, &now) {
        dir.push((n, gen_event(rng, &sep, false)));
    }
    // members left by earlier runs (never more than max_files: see `rule` in props/C11.json), possibly written
    // under another rolling period
    let members = rng.range(0, cfg.max_files.min(6) as u64) as usize;
    let mut t = now;
    for _ in 0..members {
        t = advance(rng, cfg.roll_by, t, 6);
        let mut c = cfg.clone();
        if rng.chance(1, 5) {
            c.roll_by = *rng.pick(&[verif::RollBy::Day, verif::RollBy::Hour, verif::RollBy::Minute]);
        }
        let n = ref_name(&c, &t, rng.next() as u32);
        if !dir.iter().any(|(m, _)| *m == n) {
            dir.push((n, gen_event(rng, &sep, false)));
        }
    }
    let nb = rng.range(1, if tier == Tier::Thorough { 10 } else { 6 });
    let mut hist = Vec::new();
    // collision mode (one history in eight): standing clock and a repeated id, so a roll or a restart asks for the
    // name of an existing member (exclusive create fails with a retryable error; nothing is created twice)
    let collide = rng.chance(1, 8);
    let cid = rng.next() as u32;
    if collide && rng.bool() && !dir.iter().any(|(m, _)| *m == ref_name(&cfg, &now, cid)) && members < cfg.max_files {
        dir.push((ref_name(&cfg, &now, cid), gen_event(rng, &sep, false)));
    }
    for i in 0..nb {
        if collide {
            if i > 0 && rng.chance(1, 4) {
                let kind = *rng.pick(&[1u64, 2, 3]);
                now = advance(rng, cfg.roll_by, now, kind);
            }
        } else if i > 0 || rng.bool() {
            let kind = *rng.pick(&[1u64, 1, 2, 2, 3, 3, 4, 5, 6, 7]);
            now = advance(rng, cfg.roll_by, now, kind);
        }
        let nev = rng.range(1, 3);
        let ev: Vec<Vec<u8>> = (0..nev).map(|_| gen_event(&mut rng.fork(), &sep, false)).collect();
        let pre: Vec<Vec<u8>> = if rng.chance(1, 8) { (0..rng.range(1, 2)).map(|_| gen_event(&mut rng.fork(), &sep, false)).collect() } else { vec![] };
        let id = if collide && rng.chance(4, 5) { cid } else { rng.next() as u32 };
        hist.push(Step::Batch { now, id, pre, ev });
        if rng.chance(1, 5) || (collide && rng.bool()) {
            let id = if collide && rng.chance(4, 5) { cid } else { rng.next() as u32 };
            hist.push(Step::Retry { now, id });
        }
        if rng.chance(1, 5) || (collide && rng.chance(1, 3)) {
            hist.push(Step::Restart);
        }
    }
    Case { cfg, dir, plan: vec![], hist }
}

fn gen_c11(rng: &mut Rng, tier: Tier, n: usize) -> Vec<String> {
    let mut out = Vec::new();
    while out.len() < n {
        let mut case = gen_history_c11(rng, tier);
        let o = match run_case(&case) {
            Some(o) => o,
            None => continue,
        };
        if same_ms_creations(&o.line) {
            continue;
        }
        // C11 quantifies over fault-free runs; one case in five still gets a fault to keep the branches tied
        if rng.chance(1, 5) {
            case.plan = vec![(rng.below(o.ops + 2), gen_fault(rng))];
            match run_case(&case) {
                Some(o) if !same_ms_creations(&o.line) => {}
                _ => continue,
            }
        }
        out.push(case.line());
    }
    out
}

// ------------------------------------------------------------------------------------------------ c11_name

fn roll_of(a: &str) -> Option<verif::RollBy> {
    match a {
        "day" => Some(verif::RollBy::Day),
        "hour" => Some(verif::RollBy::Hour),
        "minute" => Some(verif::RollBy::Minute),
        _ => None,
    }
}

fn roll_atom(r: verif::RollBy) -> &'static str {
    match r {
        verif::RollBy::Day => "day",
        verif::RollBy::Hour => "hour",
        verif::RollBy::Minute => "minute",
    }
}

fn gen_name(rng: &mut Rng, _tier: Tier, n: usize) -> Vec<String> {
    let mut out = Vec::new();
    let mut now = gen_start(rng);
    while out.len() < n {
        let cfg = gen_cfg(rng);
        if rng.chance(1, 3) {
            now = gen_start(rng);
        } else {
            let kind = rng.below(8);
            now = advance(rng, cfg.roll_by, now, kind);
        }
        let id = match rng.below(4) {
            0 => rng.below(16) as u32,
            1 => u32::MAX - rng.below(3) as u32,
            _ => rng.next() as u32,
        };
        out.push(
            Sexp::tagged(
                "name",
                vec![Sexp::str(&cfg.prefix), Sexp::str(&cfg.ext), Sexp::atom(roll_atom(cfg.roll_by)), now.sexp(), Sexp::num(id)],
            )
            .to_string(),
        );
    }
    out
}

fn run_name(line: &str) -> String {
    let parsed = (|| {
        let s = Sexp::parse(line)?;
        let (t, a) = s.as_tagged()?;
        if t != "name" || a.len() != 5 {
            return None;
        }
        let now = Now::parse(&a[3])?;
        let ts = now.timestamp()?;
        Some((a[0].as_string()?, a[1].as_string()?, roll_of(a[2].as_atom()?)?, now, ts, u32::try_from(a[4].as_u64()?).ok()?))
    })();
    let (p, e, rb, now, ts, id) = match parsed {
        Some(x) => x,
        None => return "bad-case".to_string(),
    };
    let name = verif::file_name(rb, &p, &e, ts, id);
    let back = verif::read_file_name_ts(&name, &p, &e);
    let cfg = Cfg { prefix: p, ext: e, roll_by: rb, reuse: false, max_files: 1, max_size: 0, sep: vec![] };
    let mut out = format!(
        "{} {}",
        hcommon::hex_atom(name.as_bytes()),
        back.as_ref().map(|b| hcommon::hex_atom(b.as_bytes())).unwrap_or_else(|| "none".to_string())
    );
    if name != ref_name(&cfg, &now, id) || back != Some(ref_period(rb, &now)) {
        out.push_str("\tFAIL:name");
    }
    out
}

// ------------------------------------------------------------------------------------------------ c11_member

fn mutate(rng: &mut Rng, name: &str) -> String {
    let mut b: Vec<u8> = name.as_bytes().to_vec();
    if b.is_empty() {
        return name.to_string();
    }
    let i = rng.usize(b.len());
    match rng.below(8) {
        0 => {
            b.remove(i);
        }
        1 => b.insert(i, *rng.pick(b".-0aAgG9_")),
        2 => b[i] = *rng.pick(b".-0afgAF/:"),
        3 => b.truncate(i),
        4 => {
            b.drain(..i);
        }
        5 => {
            let c = b[i];
            b.insert(i, c);
        }
        6 => b.swap(i, (i + 1) % name.len()),
        _ => b.extend_from_slice(b".1"),
    }
    String::from_utf8(b).unwrap_or_else(|_| name.to_string())
}

fn gen_member(rng: &mut Rng, _tier: Tier, n: usize) -> Vec<String> {
    // first: names shorter than prefix + extension in which the two overlap, and the bare prefix / extension
    let mut out: Vec<String> = [("syslog", "log", "syslog"), ("log", "log", "log"), ("l", "l", "l"), ("catalog", "log", "catalog"), ("app", "log", "app"), ("app", "log", "log"), ("app", "log", "app.log"), ("a.b", "b", "a.b"), ("app", "log", "")]
        .iter()
        .map(|(p, e, n)| Sexp::tagged("member", vec![Sexp::str(p), Sexp::str(e), Sexp::str(n)]).to_string())
        .collect();
    while out.len() < n {
        let cfg = gen_cfg(rng);
        let now = gen_start(rng);
        let mut names = foreign_names(rng, &cfg, &now);
        let own = ref_name(&cfg, &now, rng.next() as u32);
        names.push(own.clone());
        for _ in 0..3 {
            let mut m = mutate(rng, &own);
            if rng.chance(1, 4) {
                m = mutate(rng, &m);
            }
            names.push(m);
        }
        for name in names {
            out.push(Sexp::tagged("member", vec![Sexp::str(&cfg.prefix), Sexp::str(&cfg.ext), Sexp::str(&name)]).to_string());
        }
    }
    out.truncate(n);
    out
}

fn run_member(line: &str) -> String {
    let parsed = (|| {
        let s = Sexp::parse(line)?;
        let (t, a) = s.as_tagged()?;
        if t != "member" || a.len() != 3 {
            return None;
        }
        Some((a[0].as_string()?, a[1].as_string()?, a[2].as_string()?))
    })();
    let (p, e, name) = match parsed {
        Some(x) => x,
        None => return "bad-case".to_string(),
    };
    let got = verif::read_file_name_ts(&name, &p, &e);
    let mut out = got.as_ref().map(|b| hcommon::hex_atom(b.as_bytes())).unwrap_or_else(|| "none".to_string());
    if got != ref_member(&p, &e, &name) {
        out.push_str("\tFAIL:member");
    }
    out
}

// ------------------------------------------------------------------------------------------------ c11_split

/// Simple Unix template paths: optional leading slash, 1-3 segments of name characters (dots anywhere), no `.` /
/// `..` segments inside, no trailing slash; plus the three shapes without a file name.
fn gen_split(rng: &mut Rng, _tier: Tier, n: usize) -> Vec<String> {
    let mut out: Vec<String> = ["", ".", "..", "app", "app.log", "logs/app.log", "/app.log", "/var/log/my.app.txt", ".hidden", "logs/.hidden", "a.", "logs/a.", ".a.b", "app.tar.gz", "x/.."]
        .iter()
        .map(|p| Sexp::tagged("split", vec![Sexp::str(p)]).to_string())
        .collect();
    let seg = |rng: &mut Rng| -> String {
        let alphabet = ["a", "b", "app", "log", ".", ".", "-", "_", "2", "\u{e9}"];
        loop {
            let k = rng.range(1, 4);
            let s: String = (0..k).map(|_| *rng.pick(&alphabet)).collect();
            if s != "." && s != ".." {
                return s;
            }
        }
    };
    while out.len() < n {
        let k = rng.range(1, 3);
        let mut p = String::new();
        if rng.chance(1, 4) {
            p.push('/');
        }
        for i in 0..k {
            if i > 0 {
                p.push('/');
            }
            p.push_str(&seg(rng));
        }
        out.push(Sexp::tagged("split", vec![Sexp::str(&p)]).to_string());
    }
    out.truncate(n.max(15));
    out
}

fn run_split(line: &str) -> String {
    let parsed = (|| {
        let s = Sexp::parse(line)?;
        let (t, a) = s.as_tagged()?;
        if t != "split" || a.len() != 1 {
            return None;
        }
        a[0].as_string()
    })();
    let path = match parsed {
        Some(p) => p,
        None => return "bad-case".to_string(),
    };
    // outside the modelled grammar: empty segments, `.`/`..` segments in front of a name, trailing slash
    let segs: Vec<&str> = path.strip_prefix('/').unwrap_or(&path).split('/').collect();
    let simple = path.is_empty()
        || (segs.iter().all(|s| !s.is_empty()) && segs[..segs.len() - 1].iter().all(|s| *s != "." && *s != ".."));
    if !simple || (path.starts_with('/') && path.len() == 1) {
        return "bad-case".to_string();
    }
    match verif::dir_prefix_ext(std::path::Path::new(&path)) {
        Err(_) => "err".to_string(),
        Ok((d, p, e)) => {
            let mut out = format!("{} {} {}", hcommon::hex_atom(d.as_bytes()), hcommon::hex_atom(p.as_bytes()), hcommon::hex_atom(e.as_bytes()));
            // oracle: the created names start with the stem and end with the extension of the template's file name
            let name = path.rsplit('/').next().unwrap_or("");
            let ok = name == format!("{}.{}", p, e) || (e == "log" && name == p);
            if !ok {
                out.push_str("\tFAIL:split");
            }
            out
        }
    }
}

pub fn streams() -> Vec<Stream> {
    vec![
        Stream { name: "c11", gen: gen_c11, run },
        Stream { name: "c11_name", gen: gen_name, run: run_name },
        Stream { name: "c11_member", gen: gen_member, run: run_member },
        Stream { name: "c11_split", gen: gen_split, run: run_split },
    ]
}
