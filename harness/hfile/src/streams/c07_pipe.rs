//! C07 carried through to the rolling-file emitter UNDER IO FAULTS: the real pipeline `FileSetBuilder::spawn`
//! builds (the `emit_batcher` channel, the background worker thread, `Worker::on_batch` as the processor, the
//! batcher's retry loop) over the fault-injecting in-memory filesystem of stream `c10` (hook H6,
//! `emit_file::verif::inject_next_spawn`). The model of this composition is Model/FilePipe.lean; theorem
//! `C07.file_flush_means_synced`.
//!
//! Case: (c07p (cfg REUSE MAXSIZE) (plan (IDX err | IDX short N)…) (round HEX…)…)
//!   every round emits its events (payload + "\n"; the first event of a round, then — with the worker held at its
//!   first filesystem call — the others, so a round is at most two batches, the second one holding several events)
//!   and then calls `blocking_flush`.
//! The OS schedules the worker thread, so which operation index a fault lands on is not determined by the case; the
//! verdict is an implementation-side oracle that states the property on the I/O alone:
//!   when `blocking_flush` returns true, every event emitted before it is a complete record in SYNCED content of a
//!   durable file (unless the plan failed a flush / sync call, which makes the worker give the batch up), and no
//!   record of any file is anything but a complete emitted event, empty, or — only after a short write — a prefix.
//! The gate (`c10::GATE_*`) fixes the batches, so the execution is determined by the case and the compared line is
//! `flushed files=[SYNCED/UNSYNCED,…] ops=N`: the files in creation order with their content, and the number of
//! filesystem operations — what Model/FilePipe.lean computes for the same schedule.

use super::c10::{Fault, Fs, FsInner};
use hcommon::{Rng, Sexp, Stream, Tier};
use std::collections::{BTreeSet, HashMap};
use std::sync::atomic::{AtomicU32, Ordering};
use std::sync::{Arc, Mutex};
use std::time::Duration;

pub fn streams() -> Vec<Stream> {
    vec![Stream { name: "c07_pipe", gen, run }]
}

#[derive(Clone)]
struct FixedClock;
impl emit::Clock for FixedClock {
    fn now(&self) -> Option<emit::Timestamp> {
        emit::Timestamp::from_unix(Duration::from_secs(1_700_000_000))
    }
}

/// a different id for every file the worker names, so that a retry never collides with the file of the failed attempt
#[derive(Clone)]
struct CountingRng(Arc<AtomicU32>);
impl emit::Rng for CountingRng {
    fn fill<A: AsMut<[u8]>>(&self, mut arr: A) -> Option<A> {
        let v = (self.0.fetch_add(1, Ordering::SeqCst) as u64).to_le_bytes();
        for (i, b) in arr.as_mut().iter_mut().enumerate() {
            *b = v[i % 8];
        }
        Some(arr)
    }
}

fn run(line: &str) -> String {
    (|| -> Option<String> {
        let s = Sexp::parse(line)?;
        let (tag, a) = s.as_tagged()?;
        if tag != "c07p" || a.len() < 3 {
            return None;
        }
        let (ctag, c) = a[0].as_tagged()?;
        if ctag != "cfg" || c.len() != 2 {
            return None;
        }
        let reuse = c[0].as_bool()?;
        let max_size = c[1].as_usize()?;
        let (ptag, p) = a[1].as_tagged()?;
        if ptag != "plan" {
            return None;
        }
        let mut plan: HashMap<u64, Fault> = HashMap::new();
        for f in p {
            let l = f.as_list()?;
            let idx = l.first()?.as_u64()?;
            let prev = match (l.get(1)?.as_atom()?, l.len()) {
                ("err", 2) => plan.insert(idx, Fault::Err),
                ("short", 3) => plan.insert(idx, Fault::Short(l[2].as_u64()?)),
                _ => return None,
            };
            if prev.is_some() {
                return None; // two faults for one operation index
            }
        }
        let mut rounds: Vec<Vec<Vec<u8>>> = Vec::new();
        for r in &a[2..] {
            let (rtag, evs) = r.as_tagged()?;
            if rtag != "round" {
                return None;
            }
            let mut round = Vec::new();
            for e in evs {
                let b = e.as_bytes()?;
                if b.contains(&b'\n') || b.len() > 64 {
                    return None;
                }
                round.push(b);
            }
            if round.len() > 40 {
                return None;
            }
            rounds.push(round);
        }
        if rounds.len() > 6 {
            return None;
        }

        // retry back-off and idle polling of the real receiver run 100 000 times faster (hook H3, process-wide)
        emit_batcher::verif::set_wait_divisor(100_000);
        let fs = Fs(Arc::new(Mutex::new(FsInner { plan, ..Default::default() })));
        emit_file::verif::inject_next_spawn(fs.clone(), FixedClock, CountingRng(Arc::new(AtomicU32::new(1))));
        let payload: Arc<Mutex<Vec<u8>>> = Arc::new(Mutex::new(Vec::new()));
        let pl = payload.clone();
        let files = emit_file::set_with_writer(
            "logs/app.log",
            move |buf, _evt| {
                buf.extend_from_slice(&pl.lock().unwrap());
                Ok(())
            },
            b"\n",
        )
        .reuse_files(reuse)
        .max_files(1000)
        .max_file_size_bytes(max_size)
        .spawn();
        let emit_one = |bytes: &[u8]| {
            *payload.lock().unwrap() = bytes.to_vec();
            emit::Emitter::emit(&files, emit::Event::new(emit::Path::new_raw("m"), emit::Template::literal("x"), emit::Empty, emit::Empty));
        };

        let mut fails: Vec<&'static str> = Vec::new();
        let mut emitted: Vec<Vec<u8>> = Vec::new();
        let mut unflushed = 0;
        for round in &rounds {
            {
                // the worker takes the first event as a batch of its own and runs into the closed gate at its first
                // filesystem call; the rest of the round queues up behind it as ONE batch; then the gate opens
                use super::c10::{GATE_ARRIVED, GATE_CLOSED};
                let mut it = round.iter();
                if let Some(first) = it.next() {
                    GATE_ARRIVED.store(false, Ordering::SeqCst);
                    GATE_CLOSED.store(true, Ordering::SeqCst);
                    emit_one(first);
                    emitted.push(first.clone());
                    let t0 = std::time::Instant::now();
                    while !GATE_ARRIVED.load(Ordering::SeqCst) && t0.elapsed() < Duration::from_secs(10) {
                        std::thread::yield_now();
                    }
                    if !GATE_ARRIVED.load(Ordering::SeqCst) {
                        fails.push("worker-never-reached-the-filesystem");
                    }
                    for e in it {
                        emit_one(e);
                        emitted.push(e.clone());
                    }
                    GATE_CLOSED.store(false, Ordering::SeqCst);
                }
            }
            if emit::Emitter::blocking_flush(&files, Duration::from_secs(20)) {
                let g = fs.0.lock().unwrap();
                // every emitted event is a complete record in synced content of a durable file
                let mut synced: BTreeSet<Vec<u8>> = BTreeSet::new();
                for f in g.files.values().filter(|f| f.durable) {
                    let recs: Vec<&[u8]> = f.synced.split(|b| *b == b'\n').collect();
                    for r in &recs[..recs.len() - 1] {
                        synced.insert(r.to_vec());
                    }
                }
                if !g.sync_faulted && !emitted.iter().all(|e| synced.contains(e)) && !fails.contains(&"flush-true-with-event-not-in-synced-content") {
                    fails.push("flush-true-with-event-not-in-synced-content");
                }
            } else {
                unflushed += 1;
            }
        }
        drop(files);
        {
            let g = fs.0.lock().unwrap();
            let all: BTreeSet<&[u8]> = emitted.iter().map(|e| &e[..]).collect();
            for f in g.files.values() {
                let content = f.content();
                let recs: Vec<&[u8]> = content.split(|b| *b == b'\n').collect();
                for r in recs {
                    let ok = r.is_empty() || all.contains(r) || (g.faulted && emitted.iter().any(|e| e.starts_with(r)));
                    if !ok && !fails.contains(&"record-mangled") {
                        fails.push("record-mangled");
                    }
                }
            }
        }
        // a flush may only report false when the plan made the worker give a batch up or retry past the timeout —
        // with at most three faults and waits scaled down neither happens
        if unflushed > 0 {
            fails.push("flush-false");
        }
        emit_batcher::verif::set_wait_divisor(1);
        // with the batches fixed by the gate the whole execution is determined by the case: the files in creation
        // order with their synced / unsynced content (names carry the ids of the id source and are not compared)
        let out = {
            let g = fs.0.lock().unwrap();
            let mut files = Vec::new();
            for e in &g.log {
                if let super::c10::Ev::Created(n) = e {
                    if let Some(f) = g.files.get(n) {
                        files.push(format!("{}/{}", hcommon::hex_atom(&f.synced), hcommon::hex_atom(&f.unsynced)));
                    }
                }
            }
            format!("flushed files=[{}] ops={}", files.join(","), g.op)
        };
        Some(if fails.is_empty() { out } else { format!("{}\tFAIL:{}", out, fails.join(",")) })
    })()
    .unwrap_or_else(|| "bad-case".into())
}

fn gen(rng: &mut Rng, tier: Tier, n: usize) -> Vec<String> {
    let n = if tier == Tier::Thorough { n.max(400) } else { n };
    let mut out = vec![
        // D19: two batches, the write of the second event of the second batch fails; files are not reused
        "(c07p (cfg false 1000000) (plan (9 err)) (round x61 x62 x63 x64))".to_string(),
        "(c07p (cfg true 8) (plan (9 err)) (round x61 x62 x63 x64))".to_string(),
    ];
    for _ in 0..n {
        let reuse = rng.bool();
        let max_size = *rng.pick(&[8usize, 30, 100, 1_000_000, 1_000_000]);
        let nf = rng.usize(4);
        let mut used: Vec<u64> = Vec::new();
        let plan: Vec<Sexp> = (0..nf)
            .map(|_| {
                let mut i = rng.below(40);
                while used.contains(&i) {
                    i = (i + 1) % 40;
                }
                used.push(i);
                let idx = Sexp::num(i);
                if rng.chance(1, 3) {
                    Sexp::list(vec![idx, Sexp::atom("short"), Sexp::num(1 + rng.below(20))])
                } else {
                    Sexp::list(vec![idx, Sexp::atom("err")])
                }
            })
            .collect();
        let nr = 1 + rng.usize(3);
        let mut v = vec![Sexp::tagged("cfg", vec![Sexp::bool(reuse), Sexp::num(max_size as u64)]), Sexp::tagged("plan", plan)];
        let mut k = 0u32;
        for _ in 0..nr {
            let ne = 1 + rng.usize(6);
            let evs = (0..ne)
                .map(|_| {
                    k += 1;
                    let len = rng.usize(12);
                    let mut b = format!("e{}-", k).into_bytes();
                    for _ in 0..len {
                        b.push(b'a' + rng.below(26) as u8);
                    }
                    Sexp::str(std::str::from_utf8(&b).unwrap())
                })
                .collect();
            v.push(Sexp::tagged("round", evs));
        }
        out.push(Sexp::tagged("c07p", v).to_string());
    }
    out
}
