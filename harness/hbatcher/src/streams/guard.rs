//! Watchdog shared by the hbatcher streams (no stream of its own): run a piece of harness code that calls into the
//! REAL channel on a helper thread and decide, quickly and positively, whether it dead-locked.
//!
//! A wedged implementation (e.g. a callback invoked under the state lock that re-enters the channel) blocks the
//! calling thread in `Mutex::lock` for good. The harness must turn that into an observable within a fraction of a
//! second — for the runner AND for the generators (which interpret the schedule they are building on the real code
//! to keep it enabled) — instead of hanging until `check` gives up.
//!
//! Verdict `Hung`:
//!   * positive: the helper has published its thread id and `/proc/self/task/<tid>/stat` shows it blocked in the
//!     kernel (state `S`, e.g. futex wait) in ≥ `POLLS` consecutive polls spanning ≥ `BLOCKED_FOR` (fewer / shorter
//!     once a hang has been seen in this process: the run is failing already), while it has not
//!     declared a wait of its own (a nested `guard::run`, which marks its caller as legitimately waiting). A thread
//!     that is merely starved of CPU is `R`, one that is paging is `D`: neither counts. The harness code run under
//!     the guard never sleeps or blocks except on the channel under test.
//!   * fallback (no /proc, exotic states): a hard limit — `HARD` before any hang has been seen in this process,
//!     `HARD_AFTER` once one has (the run is failing already and only needs to stay fast).
//! The hung helper thread is leaked (it can never be joined); so is everything it owns.

use std::cell::RefCell;
use std::sync::atomic::{AtomicBool, AtomicU64, Ordering};
use std::sync::{mpsc, Arc};
use std::time::{Duration, Instant};

pub fn streams() -> Vec<hcommon::Stream> {
    Vec::new()
}

const POLL_EVERY: Duration = Duration::from_millis(4);
const POLLS: u32 = 8;
const BLOCKED_FOR: Duration = Duration::from_millis(80);
/// once a hang has been seen in this process the run is failing already and only needs to stay fast
const POLLS_AFTER: u32 = 4;
const BLOCKED_FOR_AFTER: Duration = Duration::from_millis(24);
const HARD: Duration = Duration::from_secs(10);
const HARD_AFTER: Duration = Duration::from_secs(1);

/// a dead-lock has been observed in this process
pub static SEEN_HANG: AtomicBool = AtomicBool::new(false);

struct Task {
    tid: AtomicU64,
    /// the task is waiting for a nested guarded task: being blocked is expected
    nested_wait: AtomicBool,
}

thread_local! {
    static CURRENT: RefCell<Option<Arc<Task>>> = const { RefCell::new(None) };
}

pub enum Verdict<T> {
    Done(T),
    Panicked,
    Hung,
}

pub fn my_tid() -> u64 {
    // "/proc/thread-self" -> "<pid>/task/<tid>"
    std::fs::read_link("/proc/thread-self")
        .ok()
        .and_then(|p| p.file_name().and_then(|n| n.to_str()).and_then(|n| n.parse().ok()))
        .unwrap_or(0)
}

/// scheduler state of a thread of this process: `R` running/runnable, `S` interruptible sleep, `D` disk sleep, …
pub fn thread_state(tid: u64) -> Option<char> {
    let stat = std::fs::read_to_string(format!("/proc/self/task/{}/stat", tid)).ok()?;
    // "<tid> (<comm>) <state> …" — comm may contain anything, so look for the LAST ')'
    let rest = &stat[stat.rfind(')')? + 1..];
    rest.trim_start().chars().next()
}

/// Run `f` on the CURRENT (guarded) thread while declaring that it may legitimately sleep for a moment (the lock probe
/// of the channel windows, batcher.rs `lock_is_free`): being blocked in the kernel meanwhile proves nothing.
pub fn expected_wait<R>(f: impl FnOnce() -> R) -> R {
    let me = CURRENT.with(|c| c.borrow().clone());
    let was = me.as_ref().map(|t| t.nested_wait.swap(true, Ordering::SeqCst));
    struct Restore(Option<Arc<Task>>, Option<bool>);
    impl Drop for Restore {
        fn drop(&mut self) {
            if let (Some(t), Some(w)) = (&self.0, self.1) {
                t.nested_wait.store(w, Ordering::SeqCst);
            }
        }
    }
    let _r = Restore(me, was);
    f()
}

/// Run `f` on a fresh thread. `Done(v)`: it returned `v`; `Panicked`: it panicked; `Hung`: it is dead-locked (the
/// thread and everything it owns are leaked).
pub fn run<T: Send + 'static>(f: impl FnOnce() -> T + Send + 'static) -> Verdict<T> {
    let task = Arc::new(Task { tid: AtomicU64::new(0), nested_wait: AtomicBool::new(false) });
    let (tx, rx) = mpsc::channel::<Option<T>>();
    let t2 = task.clone();
    let spawned = std::thread::Builder::new().stack_size(1 << 20).spawn(move || {
        t2.tid.store(my_tid(), Ordering::SeqCst);
        CURRENT.with(|c| *c.borrow_mut() = Some(t2.clone()));
        let r = hcommon::catch(f);
        CURRENT.with(|c| *c.borrow_mut() = None);
        let _ = tx.send(r);
    });
    if spawned.is_err() {
        return Verdict::Panicked;
    }
    // the caller (if it is itself a guarded task) is now legitimately blocked
    let parent = CURRENT.with(|c| c.borrow().clone());
    if let Some(p) = &parent {
        p.nested_wait.store(true, Ordering::SeqCst);
    }
    struct Unmark(Option<Arc<Task>>);
    impl Drop for Unmark {
        fn drop(&mut self) {
            if let Some(p) = &self.0 {
                p.nested_wait.store(false, Ordering::SeqCst);
            }
        }
    }
    let _unmark = Unmark(parent);
    let started = Instant::now();
    let mut blocked_since: Option<Instant> = None;
    let mut blocked_polls = 0u32;
    loop {
        match rx.recv_timeout(POLL_EVERY) {
            Ok(Some(v)) => return Verdict::Done(v),
            Ok(None) => return Verdict::Panicked,
            Err(mpsc::RecvTimeoutError::Disconnected) => return Verdict::Panicked,
            Err(mpsc::RecvTimeoutError::Timeout) => {}
        }
        let seen = SEEN_HANG.load(Ordering::SeqCst);
        let (hard, polls, blocked_for) =
            if seen { (HARD_AFTER, POLLS_AFTER, BLOCKED_FOR_AFTER) } else { (HARD, POLLS, BLOCKED_FOR) };
        let mut hung = started.elapsed() > hard;
        let tid = task.tid.load(Ordering::SeqCst);
        if tid != 0 && !task.nested_wait.load(Ordering::SeqCst) && thread_state(tid) == Some('S') {
            blocked_polls += 1;
            let since = *blocked_since.get_or_insert_with(Instant::now);
            if blocked_polls >= polls && since.elapsed() >= blocked_for {
                hung = true;
            }
        } else {
            blocked_polls = 0;
            blocked_since = None;
        }
        if hung {
            // a last look: the result may have arrived while we were deciding
            if let Ok(Some(v)) = rx.try_recv() {
                return Verdict::Done(v);
            }
            SEEN_HANG.store(true, Ordering::SeqCst);
            return Verdict::Hung;
        }
    }
}

/// Run `f` on a fresh thread under a plain time limit — for code that legitimately sleeps or blocks for a known,
/// bounded time (the blocking entry points with their timeouts), where "blocked in the kernel" proves nothing.
/// `first` applies until a hang has been seen in this process, `later` afterwards.
pub fn run_limited<T: Send + 'static>(
    f: impl FnOnce() -> T + Send + 'static,
    first: Duration,
    later: Duration,
) -> Verdict<T> {
    let (tx, rx) = mpsc::channel::<Option<T>>();
    let spawned = std::thread::Builder::new().spawn(move || {
        let r = hcommon::catch(f);
        let _ = tx.send(r);
    });
    if spawned.is_err() {
        return Verdict::Panicked;
    }
    let limit = if SEEN_HANG.load(Ordering::SeqCst) { later } else { first };
    match rx.recv_timeout(limit) {
        Ok(Some(v)) => Verdict::Done(v),
        Ok(None) | Err(mpsc::RecvTimeoutError::Disconnected) => Verdict::Panicked,
        Err(mpsc::RecvTimeoutError::Timeout) => {
            SEEN_HANG.store(true, Ordering::SeqCst);
            Verdict::Hung
        }
    }
}
